// C10, formatting half (and the output-buffer half of C02): integer -> text.
//
//   etl::to_chars(first,last,value,base)                          vs std::to_chars
//   etl::strings::from_integer<T,{terminate_with_null=false}>     vs std::to_chars
//   etl::strings::from_integer<T> (terminating)                   vs std::to_chars + NUL
//   etl::to_string<Capacity>(value)                               vs std::to_chars base 10
//   etl::from_chars(etl::to_chars(v,base),base) == v              (round trip, tetl on tetl)
//
// Every call writes into an exact-size heap block [first,first+len) (mc::GuardedBlock: canaries
// on both sides, ASan red zones in the `san` flavour) for every len in 0..digits+2.  A
// zero-length range is the one-past-the-end pointer of a block, so a write to *first is
// outside the allocation.  Enumeration is a fixed odometer (value, base, len); nothing random.
//
// Round 2 widening (MC_PART 5: the four character types; MC_PART 4: round trips across functions):
//   * char8_t / char16_t / char32_t / wchar_t through to_chars, from_integer and the from_chars round
//     trip (reference: std::to_chars of the standard integer type of the same width and signedness);
//   * round trips ACROSS functions, tetl on tetl, "parsing the output of formatting returns the value":
//       to_chars(v,base) + NUL   -> strtol / strtoll / strtoul / strtoull (value, last, and last == nullptr)
//       to_chars(v,base)         -> stoi / stol / stoll / stoul / stoull (value, pos), strings::to_integer<T>
//       from_integer<terminate_with_null>(v,base) -> strto* in every base, atoi / atol / atoll in base 10
//       to_string<Capacity>(v)   -> sto* (through the string_view conversion) and ato*/strto* on c_str()
//     over the lattice plus the leading-digit lattice {d*base^j, d*base^j +- 1 : 1 <= d < base} and a window.
#include "mc.hpp"

#include <etl/charconv.hpp>
#include <etl/cstdlib.hpp>
#include <etl/string.hpp>
#include <etl/string_view.hpp>
#include <etl/strings.hpp>

#include <charconv>
#include <limits>
#include <memory>
#include <set>
#include <string>
#include <type_traits>

#include <sys/wait.h>

using mc::cat;

namespace {

using i128 = __int128;

/// r.violation keeps the first witness per (property, subject, class) and counts the rest: build
/// the case and detail texts only for that first one
struct FirstOnly {
    std::set<std::tuple<std::string, std::string, std::string>> seen;
    bool first(std::string const& p, std::string const& s, std::string const& c) { return seen.emplace(p, s, c).second; }
};
inline FirstOnly g_firstOnly;
#define VIOL(rep, prop, subj, cls, kase, detail)                                                     \
    do {                                                                                             \
        std::string const cls_ = (cls);                                                              \
        if (g_firstOnly.first((prop), (subj), cls_)) {                                               \
            (rep).violation((prop), (subj), cls_, (kase), (detail));                                 \
        } else {                                                                                     \
            (rep).violation((prop), (subj), cls_, std::string(), std::string());                     \
        }                                                                                            \
    } while (0)

template <typename T>
char const* tname()
{
    if constexpr (std::is_same_v<T, char>) { return "char"; }
    if constexpr (std::is_same_v<T, signed char>) { return "signed char"; }
    if constexpr (std::is_same_v<T, unsigned char>) { return "unsigned char"; }
    if constexpr (std::is_same_v<T, short>) { return "short"; }
    if constexpr (std::is_same_v<T, unsigned short>) { return "unsigned short"; }
    if constexpr (std::is_same_v<T, int>) { return "int"; }
    if constexpr (std::is_same_v<T, unsigned>) { return "unsigned"; }
    if constexpr (std::is_same_v<T, long>) { return "long"; }
    if constexpr (std::is_same_v<T, unsigned long>) { return "unsigned long"; }
    if constexpr (std::is_same_v<T, long long>) { return "long long"; }
    if constexpr (std::is_same_v<T, unsigned long long>) { return "unsigned long long"; }
    if constexpr (std::is_same_v<T, char8_t>) { return "char8_t"; }
    if constexpr (std::is_same_v<T, char16_t>) { return "char16_t"; }
    if constexpr (std::is_same_v<T, char32_t>) { return "char32_t"; }
    if constexpr (std::is_same_v<T, wchar_t>) { return "wchar_t"; }
    return "?";
}

/// char8_t, char16_t, char32_t and wchar_t have no std::to_chars overload: the reference formats the
/// value in the standard integer type of the same width and signedness
template <typename T>
inline constexpr bool is_charlike = std::is_same_v<T, char8_t> || std::is_same_v<T, char16_t> || std::is_same_v<T, char32_t> || std::is_same_v<T, wchar_t>;
template <typename T, bool = is_charlike<T>>
struct ref_type {
    using type = T;
};
template <typename T>
struct ref_type<T, true> {
    using type = std::conditional_t<std::is_signed_v<T>, std::make_signed_t<T>, std::make_unsigned_t<T>>;
};
template <typename T>
using ref_t = typename ref_type<T>::type;

template <typename T>
std::string show_val(T v)
{
    if constexpr (std::is_signed_v<T>) {
        return std::to_string(static_cast<long long>(v));
    } else {
        return std::to_string(static_cast<unsigned long long>(v));
    }
}

// exact-size output ranges, one block per length, reused (refilled before every call)
struct Pool {
    static constexpr std::size_t maxLen = 80;
    static constexpr std::size_t edgeLen = 8;
    std::vector<std::unique_ptr<mc::GuardedBlock<char>>> blocks;
    std::unique_ptr<mc::GuardedBlock<char>> edge;

    Pool() { reset(); }
    void reset()
    {
        blocks.clear();
        for (std::size_t i = 0; i <= maxLen; ++i) { blocks.push_back(std::make_unique<mc::GuardedBlock<char>>(i)); }
        edge = std::make_unique<mc::GuardedBlock<char>>(edgeLen);
    }
    /// [first, first+len); for len == 0 the end pointer of a block (dereferencing it is out of bounds)
    char* first(std::size_t len)
    {
        if (len == 0) { return edge->end(); }
        std::memset(blocks[len]->data(), 0xCD, len);
        return blocks[len]->data();
    }
    /// nothing outside [first,first+len) was written; repairs the block when it was
    bool intact(std::size_t len)
    {
        if (len == 0) {
            bool ok = edge->intact();
            for (std::size_t i = 0; i < edgeLen; ++i) { ok = ok && static_cast<unsigned char>(edge->data()[i]) == 0xCD; }
            if (!ok) { edge = std::make_unique<mc::GuardedBlock<char>>(edgeLen); }
            return ok;
        }
        bool const ok = blocks[len]->intact();
        if (!ok) { blocks[len] = std::make_unique<mc::GuardedBlock<char>>(len); }
        return ok;
    }
};

inline std::string show_buf(char const* p, std::size_t n) { return mc::show_chars(p, p + n); }

constexpr char const* S_TO_CHARS  = "to_chars(first,last,value,base)";
constexpr char const* S_FI_PLAIN  = "strings::from_integer<terminate_with_null=false>(value,str,length,base)";
constexpr char const* S_FI_TERM   = "strings::from_integer<terminate_with_null=true>(value,str,length,base)";
constexpr char const* S_ROUNDTRIP = "from_chars(to_chars(value,base),base)";
constexpr char const* S_TO_STRING = "to_string<Capacity>(value)";

/// argument class of a formatting case (a predicate over the case, not over the result)
template <typename T>
std::string fmt_class(T v, int base, std::size_t len, std::size_t need)
{
    std::string c;
    if (v == 0) { c += "zero+"; }
    if constexpr (std::is_signed_v<T>) {
        if (v < 0) { c += base != 10 ? "negative_base_ne_10+" : "negative+"; }
        if (v == std::numeric_limits<T>::min()) { c += "min+"; }
    }
    if (len == 0) {
        c += "len0";
    } else if (len < need) {
        c += "too_small";
    } else if (len == need) {
        c += "exact_fit";
    } else {
        c += "roomy";
    }
    return c;
}

template <typename T>
struct FormatChecker {
    mc::Reporter& r;
    Pool pool;
    std::uint64_t evals{0};
    std::uint64_t nontrivial{0};
    std::uint64_t roundtrips{0};
    std::uint64_t san{mc::san_hits()};
    bool wToChars, wPlain, wTerm, wRound;
    bool record_outcomes{true};

    // current case, for attributing a trap
    char const* subject{""};
    T curV{};
    int curBase{10};
    std::size_t curLen{0};
    std::size_t curNeed{0};

    explicit FormatChecker(mc::Reporter& rep)
        : r(rep)
        , wToChars(rep.want(S_TO_CHARS))
        , wPlain(rep.want(S_FI_PLAIN))
        , wTerm(rep.want(S_FI_TERM))
        , wRound(rep.want(S_ROUNDTRIP))
    {
    }

    std::string kase(T v, int base, std::size_t len) const { return cat(tname<T>(), " value=", show_val(v), " base=", base, " buffer length=", len); }

    void after_call(char const* subj, T v, int base, std::size_t len, std::size_t need)
    {
        if (!pool.intact(len)) {
            VIOL(r, "C02", subj, fmt_class(v, base, len, need), kase(v, base, len), "wrote outside [first,last): canary bytes around the exact-size buffer damaged");
        }
        auto const now = mc::san_hits();
        if (now != san) {
            san = now;
            VIOL(r, "C02", subj, fmt_class(v, base, len, need), kase(v, base, len), "ASan/UBSan report during the call (see job log)");
        }
    }

    void one(T v, int base)
    {
        char ref[96];
        auto const mr     = std::to_chars(ref, ref + sizeof ref, static_cast<ref_t<T>>(v), base);
        std::size_t const n = static_cast<std::size_t>(mr.ptr - ref);
        curV              = v;
        curBase           = base;
        if (record_outcomes) { r.outcome(mc::fnv1a(ref, n)); }
        if (v != 0) { ++nontrivial; }

        for (std::size_t len = 0; len <= n + 2; ++len) {
            curLen = len;
            if (wToChars || wRound) {
                subject     = S_TO_CHARS;
                curNeed     = n;
                char* f     = pool.first(len);
                auto const res = etl::to_chars(f, f + len, v, base);
                ++evals;
                bool ok = false;
                if (n <= len) {
                    ok = res.ec == etl::errc{} && res.ptr == f + n && std::memcmp(f, ref, n) == 0;
                } else {
                    ok = res.ec == etl::errc::value_too_large && res.ptr == f + len;
                }
                if (!ok && wToChars) {
                    bool const inRange = res.ptr >= f && res.ptr <= f + len;
                    VIOL(r, "C10", S_TO_CHARS, fmt_class(v, base, len, n), kase(v, base, len),
                        cat("tetl: ec=", int(res.ec), " ptr=", res.ptr == nullptr ? std::string("null") : (inRange ? cat("first+", res.ptr - f) : std::string("outside")),
                            inRange && res.ec == etl::errc{} ? cat(" text=", show_buf(f, static_cast<std::size_t>(res.ptr - f))) : std::string(),
                            " | std: ", n <= len ? cat("ec=0 ptr=first+", n, " text=", show_buf(ref, n)) : std::string("ec=value_too_large ptr=last")));
                }
                after_call(S_TO_CHARS, v, base, len, n);

                if (wRound && res.ec == etl::errc{} && res.ptr >= f && res.ptr <= f + len && res.ptr != f) {
                    subject       = S_ROUNDTRIP;
                    T back        = static_cast<T>(v == T(42) ? 43 : 42);
                    auto const pr = etl::from_chars(static_cast<char const*>(f), res.ptr, back, base);
                    ++evals;
                    ++roundtrips;
                    if (!(pr.ec == etl::errc{} && pr.ptr == res.ptr && back == v)) {
                        VIOL(r, "C10", S_ROUNDTRIP, fmt_class(v, base, len, n), kase(v, base, len),
                            cat("to_chars wrote ", show_buf(f, static_cast<std::size_t>(res.ptr - f)), "; from_chars gave ec=", int(pr.ec), " consumed=", pr.ptr - f,
                                " value=", show_val(back), " (expected ", show_val(v), ")"));
                    }
                    after_call(S_ROUNDTRIP, v, base, len, n);
                }
            }
            if (wPlain) {
                subject            = S_FI_PLAIN;
                curNeed            = n;
                char* f            = pool.first(len);
                constexpr auto opt = etl::strings::from_integer_options{.terminate_with_null = false};
                auto const res     = etl::strings::from_integer<T, opt>(v, f, len, base);
                ++evals;
                bool ok = false;
                if (n <= len) {
                    ok = res.error == etl::strings::from_integer_error::none && res.end == f + n && std::memcmp(f, ref, n) == 0;
                } else {
                    ok = res.error == etl::strings::from_integer_error::overflow; // end is not specified on failure
                }
                if (!ok) {
                    bool const inRange = res.end >= f && res.end <= f + len;
                    VIOL(r, "C10", S_FI_PLAIN, fmt_class(v, base, len, n), kase(v, base, len),
                        cat("tetl: error=", int(res.error), inRange && res.error == etl::strings::from_integer_error::none ? cat(" text=", show_buf(f, static_cast<std::size_t>(res.end - f))) : std::string(),
                            " | expected: ", n <= len ? cat("none, text=", show_buf(ref, n)) : std::string("overflow")));
                }
                after_call(S_FI_PLAIN, v, base, len, n);
            }
            if (wTerm) {
                subject        = S_FI_TERM;
                curNeed        = n + 1;
                char* f        = pool.first(len);
                auto const res = etl::strings::from_integer<T>(v, f, len, base);
                ++evals;
                bool ok = false;
                if (n + 1 <= len) {
                    ok = res.error == etl::strings::from_integer_error::none && res.end == f + n && std::memcmp(f, ref, n) == 0 && f[n] == '\0';
                } else {
                    ok = res.error == etl::strings::from_integer_error::overflow;
                }
                if (!ok) {
                    bool const inRange = res.end >= f && res.end <= f + len;
                    VIOL(r, "C10", S_FI_TERM, fmt_class(v, base, len, n + 1), kase(v, base, len),
                        cat("tetl: error=", int(res.error), inRange && res.error == etl::strings::from_integer_error::none ? cat(" text=", show_buf(f, static_cast<std::size_t>(res.end - f))) : std::string(),
                            " | expected: ", n + 1 <= len ? cat("none, text=", show_buf(ref, n), " + NUL") : std::string("overflow")));
                }
                after_call(S_FI_TERM, v, base, len, n + 1);
            }
        }
    }

    /// one guarded batch: every base for one value
    void value(T v, std::vector<int> const& bases)
    {
        mc::Trap const t = mc::guarded([&] {
            for (int b : bases) { one(v, b); }
        });
        if (t != mc::Trap::none) {
            bool const contract = t == mc::Trap::assert_fired;
            VIOL(r, contract ? "C05" : "C02", subject, cat(fmt_class(curV, curBase, curLen, curNeed), "/", mc::trap_name(t)), kase(curV, curBase, curLen), mc::describe_trap(t));
            pool.reset();
        }
    }

    void finish()
    {
        r.count("evaluations", evals);
        r.count("distinct_nontrivial", nontrivial);
        r.count("roundtrips", roundtrips);
    }
};

std::vector<int> all_bases()
{
    // simplest first
    std::vector<int> b{10, 2, 16, 8, 36};
    for (int i = 3; i <= 35; ++i) {
        if (i != 10 && i != 16 && i != 8) { b.push_back(i); }
    }
    return b;
}

/// every value of a narrow type, simplest first: 0, 1, -1, 2, -2, ...
template <typename T>
std::vector<T> all_values()
{
    std::vector<T> out;
    long const lo = std::numeric_limits<T>::min();
    long const hi = std::numeric_limits<T>::max();
    for (long m = 0; m <= std::max(hi, -lo); ++m) {
        if (m <= hi) { out.push_back(static_cast<T>(m)); }
        if (m != 0 && -m >= lo) { out.push_back(static_cast<T>(-m)); }
    }
    return out;
}

/// the enumerated lattice of DESIGN C10 for one base: 0, +-1, limits, limits-+1, limits/base+-1,
/// base^j and base^j+-1 for all j, 2^j and 2^j+-1 for all j (and their negatives), plus the
/// window [-window, window]; restricted to T's range, ordered by magnitude.
template <typename T>
std::vector<T> lattice(int base, long window)
{
    i128 const lo = std::numeric_limits<T>::min();
    i128 const hi = std::numeric_limits<T>::max();
    std::set<i128> s;
    auto add = [&](i128 x) {
        for (i128 d = -1; d <= 1; ++d) {
            if (x + d >= lo && x + d <= hi) { s.insert(x + d); }
            if (-x + d >= lo && -x + d <= hi) { s.insert(-x + d); }
        }
    };
    add(0);
    add(hi);
    add(lo);
    add(hi / base);
    add(lo / base);
    add(hi / base / base);
    for (int b : {base, 2}) {
        i128 p = 1;
        for (int j = 0; j < 70 && p <= hi; ++j) {
            add(p);
            p *= b;
        }
    }
    for (long w = -window; w <= window; ++w) {
        if (w >= lo && w <= hi) { s.insert(w); }
    }
    std::vector<i128> v(s.begin(), s.end());
    std::stable_sort(v.begin(), v.end(), [](i128 a, i128 b) {
        i128 const aa = a < 0 ? -a : a;
        i128 const bb = b < 0 ? -b : b;
        if (aa != bb) { return aa < bb; }
        return a > b;
    });
    std::vector<T> out;
    for (auto x : v) { out.push_back(static_cast<T>(x)); }
    return out;
}

// ---------------------------------------------------------------------------------------
// jobs: to_chars / from_integer / round trip
// ---------------------------------------------------------------------------------------

template <typename T>
void job_full(mc::Reporter& r, std::vector<int> bases)
{
    FormatChecker<T> fc(r);
    auto const values = all_values<T>();
    std::size_t done  = 0;
    for (T v : values) {
        fc.value(v, bases);
        ++done;
        if ((done & 0xFF) == 0 && r.deadline_passed()) {
            r.not_exhaustive("deadline");
            break;
        }
    }
    fc.finish();
    r.count("values", done);
    r.sample(cat(tname<T>(), ": all ", values.size(), " values x bases ", mc::show_seq(bases), " x buffer lengths 0..digits+2"));
    r.sample(fc.kase(std::numeric_limits<T>::min(), bases.back(), 0));
    r.sample(fc.kase(std::numeric_limits<T>::max(), bases.front(), 5));
}

template <typename T>
void job_lattice(mc::Reporter& r, long window)
{
    FormatChecker<T> fc(r);
    std::uint64_t done = 0;
    bool stop          = false;
    for (int b : all_bases()) {
        auto const values = lattice<T>(b, window);
        std::vector<int> const one{b};
        for (T v : values) {
            fc.value(v, one);
            ++done;
            if ((done & 0x3FF) == 0 && r.deadline_passed()) {
                r.not_exhaustive("deadline");
                stop = true;
                break;
            }
        }
        if (b == 10 || b == 36) {
            r.sample(cat(tname<T>(), " base ", b, ": ", values.size(), " lattice values, e.g. ", show_val(values[values.size() / 2]), ", ", show_val(values.back()),
                " x buffer lengths 0..digits+2"));
        }
        if (stop) { break; }
    }
    fc.finish();
    r.count("values", done);
}


// ---------------------------------------------------------------------------------------
// round 2: round trips across functions (tetl formats, tetl parses, the value must come back)
// ---------------------------------------------------------------------------------------

/// lattice<T> plus the leading-digit lattice: d*base^j and d*base^j +- 1 for every digit 1 <= d < base
/// and every j (and their negatives): every "d000..0" and "(d-1)zzz..z" pattern of every length
template <typename T>
std::vector<T> xlattice(int base, long window)
{
    i128 const lo = std::numeric_limits<T>::min();
    i128 const hi = std::numeric_limits<T>::max();
    std::set<i128> s;
    for (T v : lattice<T>(base, window)) { s.insert(static_cast<i128>(v)); }
    i128 p = 1;
    for (int j = 0; j < 70 && p <= hi; ++j) {
        for (int d = 1; d < base; ++d) {
            i128 const x = p * d;
            for (i128 e = -1; e <= 1; ++e) {
                if (x + e >= lo && x + e <= hi) { s.insert(x + e); }
                if (-x + e >= lo && -x + e <= hi) { s.insert(-x + e); }
            }
        }
        p *= base;
    }
    std::vector<i128> v(s.begin(), s.end());
    std::stable_sort(v.begin(), v.end(), [](i128 a, i128 b) {
        i128 const aa = a < 0 ? -a : a;
        i128 const bb = b < 0 ? -b : b;
        if (aa != bb) { return aa < bb; }
        return a > b;
    });
    std::vector<T> out;
    for (auto x : v) { out.push_back(static_cast<T>(x)); }
    return out;
}

inline std::string show128(i128 v)
{
    if (v == 0) { return "0"; }
    bool const neg = v < 0;
    std::string o;
    while (v != 0) {
        int const d = static_cast<int>(v % 10);
        o.insert(o.begin(), static_cast<char>('0' + (d < 0 ? -d : d)));
        v /= 10;
    }
    return neg ? "-" + o : o;
}

template <typename T>
inline constexpr std::size_t max_chars = static_cast<std::size_t>(std::numeric_limits<T>::digits10) + 1 + (std::is_signed_v<T> ? 1 : 0);

/// the parsers are not templates: everything that does not depend on the formatted type lives here
/// (one instantiation for all eleven types)
struct CrossBase {
    static constexpr std::size_t none = static_cast<std::size_t>(-1);

    mc::Reporter& r;
    Pool pool;
    std::uint64_t evals{0}, nontrivial{0}, formatFailed{0};
    std::uint64_t san{mc::san_hits()};
    char const* tn;
    i128 lo, hi;

    struct Subject {
        std::string name;
        bool want{false};
        mutable int traps{0}; // a parser that trapped eight times is not called again
    };
    static constexpr int maxTraps = 8;
    std::uint64_t notCalled{0};
    int formatTraps{0};
    // source x parser
    Subject tcStrtol, tcStrtoll, tcStrtoul, tcStrtoull, tcStoi, tcStol, tcStoll, tcStoul, tcStoull, tcToInteger;
    Subject fiStrtol, fiStrtoll, fiStrtoul, fiStrtoull, fiAtoi, fiAtol, fiAtoll;
    Subject tsStoi, tsStol, tsStoll, tsStoul, tsStoull, tsAtoi, tsAtol, tsAtoll, tsStrtol, tsStrtoll, tsStrtoul, tsStrtoull;
    bool any{false}, anyToString{false};

    std::string const* subject{nullptr};
    Subject const* curSubject{nullptr};
    i128 curV{0};
    int curBase{10};

    Subject mk(char const* src, char const* fn)
    {
        Subject s{cat("round trip ", src, " -> ", fn), false};
        s.want = r.want(s.name);
        any    = any || s.want;
        return s;
    }

    CrossBase(mc::Reporter& rep, char const* typeName, i128 min, i128 max)
        : r(rep)
        , tn(typeName)
        , lo(min)
        , hi(max)
    {
        char const* tc = "to_chars(first,last,value,base)";
        char const* fi = "strings::from_integer<terminate_with_null=true>(value,str,length,base)";
        char const* ts = "to_string<Capacity>(value)";
        tcStrtol = mk(tc, "strtol(str,last,base)"), tcStrtoll = mk(tc, "strtoll(str,last,base)"), tcStrtoul = mk(tc, "strtoul(str,last,base)"), tcStrtoull = mk(tc, "strtoull(str,last,base)");
        tcStoi = mk(tc, "stoi(str,pos,base)"), tcStol = mk(tc, "stol(str,pos,base)"), tcStoll = mk(tc, "stoll(str,pos,base)"), tcStoul = mk(tc, "stoul(str,pos,base)"), tcStoull = mk(tc, "stoull(str,pos,base)");
        tcToInteger = mk(tc, "strings::to_integer(str,base)");
        fiStrtol = mk(fi, "strtol(str,last,base)"), fiStrtoll = mk(fi, "strtoll(str,last,base)"), fiStrtoul = mk(fi, "strtoul(str,last,base)"), fiStrtoull = mk(fi, "strtoull(str,last,base)");
        fiAtoi = mk(fi, "atoi(str)"), fiAtol = mk(fi, "atol(str)"), fiAtoll = mk(fi, "atoll(str)");
        bool const before = any;
        any               = false;
        tsStoi = mk(ts, "stoi(str,pos,base)"), tsStol = mk(ts, "stol(str,pos,base)"), tsStoll = mk(ts, "stoll(str,pos,base)"), tsStoul = mk(ts, "stoul(str,pos,base)"), tsStoull = mk(ts, "stoull(str,pos,base)");
        tsAtoi = mk(ts, "atoi(str)"), tsAtol = mk(ts, "atol(str)"), tsAtoll = mk(ts, "atoll(str)");
        tsStrtol = mk(ts, "strtol(str,last,base)"), tsStrtoll = mk(ts, "strtoll(str,last,base)"), tsStrtoul = mk(ts, "strtoul(str,last,base)"), tsStrtoull = mk(ts, "strtoull(str,last,base)");
        anyToString = any;
        any         = any || before;
    }

    std::string value_class(i128 v) const
    {
        if (v == 0) { return "zero"; }
        if (v == lo) { return "negative+min"; } // lo == 0 (unsigned) was handled above
        if (v < 0) { return "negative"; }
        if (v == hi) { return "positive+max"; }
        return "positive";
    }

    std::string kase(i128 v, int base) const { return cat(tn, " value=", show128(v), " base=", base); }

    /// call(consumed) parses `text` (n characters) and returns the value; consumed stays `none` when the
    /// parser does not report how far it read.  Only called when R can hold v.
    template <typename R, typename Call>
    void expect(Subject const& s, i128 v, int base, char const* text, std::size_t n, Call&& call)
    {
        if (!s.want || v < static_cast<i128>(std::numeric_limits<R>::min()) || v > static_cast<i128>(std::numeric_limits<R>::max())) { return; }
        if (s.traps >= maxTraps) {
            ++notCalled;
            return;
        }
        subject              = &s.name;
        curSubject           = &s;
        std::size_t consumed = none;
        R const got          = call(consumed);
        curSubject           = nullptr;
        ++evals;
        bool const valueOk = static_cast<i128>(got) == v;
        bool const endOk   = consumed == none || consumed == n;
        if (!valueOk || !endOk) {
            VIOL(r, "C10", s.name, value_class(v), kase(v, base),
                cat("formatted text ", show_buf(text, n), " parsed back as ", show128(static_cast<i128>(got)), consumed == none ? std::string() : cat(" consuming ", consumed, " of ", n, " characters"), " (expected ", show128(v),
                    ", all characters)"));
        }
        auto const now = mc::san_hits();
        if (now != san) {
            san = now;
            VIOL(r, "C02", s.name, value_class(v), kase(v, base), "ASan/UBSan report during the call (see job log)");
        }
    }

    /// strto* / ato* on a NUL-terminated text z[0..n]
    void c_parsers(Subject const& sl, Subject const& sll, Subject const& sul, Subject const& sull, Subject const* ai, Subject const* al, Subject const* all, i128 v, int base, char const* z, std::size_t n)
    {
        auto off = [z](char const* last) { return last == nullptr ? none - 1 : static_cast<std::size_t>(last - z); };
        expect<long>(sl, v, base, z, n, [&](std::size_t& c) { char const* last = nullptr; long const x = etl::strtol(z, &last, base); c = off(last); return x; });
        expect<long>(sl, v, base, z, n, [&](std::size_t&) { return etl::strtol(z, nullptr, base); });
        expect<long long>(sll, v, base, z, n, [&](std::size_t& c) { char const* last = nullptr; long long const x = etl::strtoll(z, &last, base); c = off(last); return x; });
        expect<long long>(sll, v, base, z, n, [&](std::size_t&) { return etl::strtoll(z, nullptr, base); });
        if (v >= 0) {
            expect<unsigned long>(sul, v, base, z, n, [&](std::size_t& c) { char const* last = nullptr; unsigned long const x = etl::strtoul(z, &last, base); c = off(last); return x; });
            expect<unsigned long>(sul, v, base, z, n, [&](std::size_t&) { return etl::strtoul(z, nullptr, base); });
            expect<unsigned long long>(sull, v, base, z, n, [&](std::size_t& c) { char const* last = nullptr; unsigned long long const x = etl::strtoull(z, &last, base); c = off(last); return x; });
            expect<unsigned long long>(sull, v, base, z, n, [&](std::size_t&) { return etl::strtoull(z, nullptr, base); });
        }
        if (base == 10) {
            if (ai != nullptr) { expect<int>(*ai, v, base, z, n, [&](std::size_t&) { return etl::atoi(z); }); }
            if (al != nullptr) { expect<long>(*al, v, base, z, n, [&](std::size_t&) { return etl::atol(z); }); }
            if (all != nullptr) { expect<long long>(*all, v, base, z, n, [&](std::size_t&) { return etl::atoll(z); }); }
        }
    }

    /// sto* on a view of exactly n characters
    void view_parsers(Subject const& si, Subject const& sl, Subject const& sll, Subject const& sul, Subject const& sull, i128 v, int base, etl::string_view sv)
    {
        char const* t       = sv.data();
        std::size_t const n = sv.size();
        expect<int>(si, v, base, t, n, [&](std::size_t& c) { etl::size_t pos = 9999; int const x = etl::stoi(sv, &pos, base); c = pos; return x; });
        expect<int>(si, v, base, t, n, [&](std::size_t&) { return etl::stoi(sv, nullptr, base); });
        expect<long>(sl, v, base, t, n, [&](std::size_t& c) { etl::size_t pos = 9999; long const x = etl::stol(sv, &pos, base); c = pos; return x; });
        expect<long long>(sll, v, base, t, n, [&](std::size_t& c) { etl::size_t pos = 9999; long long const x = etl::stoll(sv, &pos, base); c = pos; return x; });
        if (v >= 0) {
            expect<unsigned long>(sul, v, base, t, n, [&](std::size_t& c) { etl::size_t pos = 9999; unsigned long const x = etl::stoul(sv, &pos, base); c = pos; return x; });
            expect<unsigned long long>(sull, v, base, t, n, [&](std::size_t& c) { etl::size_t pos = 9999; unsigned long long const x = etl::stoull(sv, &pos, base); c = pos; return x; });
        }
    }

    /// everything behind to_chars: f[0..n) is its output in an exact-size block
    void after_to_chars(i128 v, int base, char const* f, std::size_t n)
    {
        etl::string_view const sv{f, n};
        view_parsers(tcStoi, tcStol, tcStoll, tcStoul, tcStoull, v, base, sv);
        // the same characters with a terminator in an exact-size block for the C-string parsers
        char* z = pool.first(n + 1);
        std::memcpy(z, f, n);
        z[n] = '\0';
        c_parsers(tcStrtol, tcStrtoll, tcStrtoul, tcStrtoull, nullptr, nullptr, nullptr, v, base, z, n);
        if (!pool.intact(n + 1)) { VIOL(r, "C02", tcStrtol.name, value_class(v), kase(v, base), "canary bytes around the exact-size input damaged"); }
    }

    void report_trap(mc::Trap t)
    {
        bool const contract = t == mc::Trap::assert_fired;
        std::string const s = subject != nullptr ? *subject : std::string("?");
        if (curSubject != nullptr) {
            ++curSubject->traps;
            curSubject = nullptr;
        } else if (++formatTraps >= maxTraps) {
            any = false; // the formatting call itself traps: nothing left to parse
        }
        VIOL(r, contract ? "C05" : "C02", s, cat(value_class(curV), "/", mc::trap_name(t)), kase(curV, curBase), mc::describe_trap(t));
        VIOL(r, "C10", s, cat(value_class(curV), "/", mc::trap_name(t)), kase(curV, curBase), cat("no result: ", mc::describe_trap(t)));
        pool.reset();
    }

    void finish()
    {
        r.count("evaluations", evals);
        r.count("distinct_nontrivial", nontrivial);
        r.count("format_failed_not_parsed", formatFailed);
        r.count("calls_not_made_after_eight_traps", notCalled);
    }
};

template <typename T>
struct CrossChecker : CrossBase {
    static constexpr bool hasToString = std::is_same_v<T, int> || std::is_same_v<T, long> || std::is_same_v<T, long long> || std::is_same_v<T, unsigned> || std::is_same_v<T, unsigned long>
                                     || std::is_same_v<T, unsigned long long>;

    explicit CrossChecker(mc::Reporter& rep)
        : CrossBase(rep, tname<T>(), static_cast<i128>(std::numeric_limits<T>::min()), static_cast<i128>(std::numeric_limits<T>::max()))
    {
    }

    template <std::size_t Cap>
    void to_string_chain(T v, std::size_t n)
    {
        if (n >= Cap || !anyToString) { return; } // the text must fit; a string that fills its capacity is the business of the to_string jobs
        subject        = &tsStoi.name;
        auto const str = etl::to_string<Cap>(v);
        ++evals;
        etl::string_view const sv = str; // the conversion users get when they pass the string to stoi
        view_parsers(tsStoi, tsStol, tsStoll, tsStoul, tsStoull, static_cast<i128>(v), 10, sv);
        c_parsers(tsStrtol, tsStrtoll, tsStrtoul, tsStrtoull, &tsAtoi, &tsAtol, &tsAtoll, static_cast<i128>(v), 10, str.c_str(), str.size());
    }

    void one(T v, int base)
    {
        i128 const w = static_cast<i128>(v);
        curV         = w;
        curBase      = base;
        char ref[96];
        auto const mr       = std::to_chars(ref, ref + sizeof ref, v, base);
        std::size_t const n = static_cast<std::size_t>(mr.ptr - ref); // only used to size the buffers
        if (v != 0) { ++nontrivial; }
        r.outcome(mc::fnv1a(ref, n));

        // to_chars into an exact-size block: the view parsers read exactly [f, f+n)
        subject        = &tcStoi.name;
        char* f        = pool.first(n);
        auto const res = etl::to_chars(f, f + n, v, base);
        ++evals;
        if (res.ec != etl::errc{} || res.ptr != f + n) {
            ++formatFailed; // reported by the fmt/ jobs
        } else {
            etl::string_view const sv{f, n};
            expect<T>(tcToInteger, w, base, f, n, [&](std::size_t& c) {
                auto const ti = etl::strings::to_integer<T>(sv, static_cast<T>(base));
                c             = ti.error == etl::strings::to_integer_error::none ? static_cast<std::size_t>(ti.end - f) : none - 2;
                return ti.value;
            });
            after_to_chars(w, base, f, n);
        }
        if (!pool.intact(n)) { VIOL(r, "C02", "to_chars(first,last,value,base)", value_class(w), kase(w, base), "wrote outside [first,last): canary bytes damaged"); }

        // from_integer with terminator into an exact-size block, handed to the C-string parsers as it is
        subject         = &fiStrtol.name;
        char* g         = pool.first(n + 1);
        auto const fres = etl::strings::from_integer<T>(v, g, n + 1, base);
        ++evals;
        if (fres.error != etl::strings::from_integer_error::none || fres.end != g + n || g[n] != '\0') {
            ++formatFailed;
        } else {
            c_parsers(fiStrtol, fiStrtoll, fiStrtoul, fiStrtoull, &fiAtoi, &fiAtol, &fiAtoll, w, base, g, n);
        }
        if (!pool.intact(n + 1)) { VIOL(r, "C02", "strings::from_integer<terminate_with_null=true>(value,str,length,base)", value_class(w), kase(w, base), "wrote outside [str,str+length): canary bytes damaged"); }

        if constexpr (hasToString) {
            if (base == 10) {
                to_string_chain<max_chars<T> + 1>(v, n);
                to_string_chain<24>(v, n);
            }
        }
    }

    void value(T v, std::vector<int> const& bases)
    {
        if (!any) { return; }
        mc::Trap const t = mc::guarded([&] {
            for (int b : bases) { one(v, b); }
        });
        if (t != mc::Trap::none) { report_trap(t); }
    }
};

template <typename T>
void job_cross(mc::Reporter& r, long window)
{
    CrossChecker<T> cc(r);
    std::uint64_t done = 0;
    bool stop          = false;
    for (int b : all_bases()) {
        auto const values = xlattice<T>(b, window);
        std::vector<int> const one{b};
        for (T v : values) {
            cc.value(v, one);
            ++done;
            if ((done & 0x3FF) == 0 && r.deadline_passed()) {
                r.not_exhaustive("deadline");
                stop = true;
                break;
            }
        }
        if (b == 10 || b == 36) {
            r.sample(cat(tname<T>(), " base ", b, ": ", values.size(), " values (lattice + leading-digit lattice + window ", window, "), e.g. ", show_val(values[values.size() / 2]), ", ", show_val(values.back()),
                "; each formatted by to_chars / from_integer", (CrossChecker<T>::hasToString && b == 10) ? " / to_string" : "", " and parsed back by every strto*/sto*/ato*/to_integer that can hold it"));
        }
        if (stop) { break; }
    }
    cc.finish();
    r.count("values", done);
}

template <typename T>
void add_cross(mc::Main& m)
{
    std::string const T_ = tname<T>();
    m.job(cat("xrt/", T_, "/lattice+leading-digits/all-bases"), {"quick"}, [](mc::Reporter& r) { job_cross<T>(r, 1300); });
#if !defined(MC_FLAVOUR_SAN)
    m.job(cat("xrt/", T_, "/lattice+leading-digits+window66000/all-bases"), {"thorough"}, [](mc::Reporter& r) { job_cross<T>(r, 66000); });
#else
    m.job(cat("xrt/", T_, "/lattice+leading-digits+window5000/all-bases"), {"thorough"}, [](mc::Reporter& r) { job_cross<T>(r, 5000); });
#endif
}

// ---------------------------------------------------------------------------------------
// to_string<Capacity>
// ---------------------------------------------------------------------------------------

struct ForkResult {
    bool died{true};
    std::string payload;
};

/// runs f() (returning a string) in a child process; used for calls that may destroy the stack
template <typename F>
ForkResult forked(F&& f)
{
    ForkResult out;
    int fd[2];
    if (pipe(fd) != 0) { return out; }
    std::fflush(nullptr);
    pid_t const pid = fork();
    if (pid == 0) {
        close(fd[0]);
        std::string res;
        auto const before = mc::san_hits();
        mc::Trap const t  = mc::guarded([&] { res = f(); });
        std::string msg;
        if (t == mc::Trap::none) {
            msg = cat("R", mc::san_hits() != before ? "S" : "-", res);
        } else {
            msg = cat(t == mc::Trap::assert_fired ? "A" : "T", "-", mc::describe_trap(t));
        }
        (void)!write(fd[1], msg.data(), msg.size());
        std::_Exit(0);
    }
    close(fd[1]);
    char buf[512];
    for (;;) {
        auto const k = read(fd[0], buf, sizeof buf);
        if (k <= 0) { break; }
        out.payload.append(buf, static_cast<std::size_t>(k));
    }
    close(fd[0]);
    int st = 0;
    waitpid(pid, &st, 0);
    out.died = !(WIFEXITED(st) && WEXITSTATUS(st) == 0 && out.payload.size() >= 2);
    return out;
}

struct ToStringStats {
    std::uint64_t evals{0}, nontrivial{0}, skipped{0}, forks{0}, unsafe{0};
};

template <std::size_t Cap, typename T>
void to_string_cap(mc::Reporter& r, std::vector<T> const& values, ToStringStats& st)
{
    std::uint64_t san = mc::san_hits();
    // exact-fit calls run in a child process until one of them has returned normally (the
    // unrepaired code destroys the stack there); after six failures the rest is not called
    bool exactSafe  = false;
    int exactFailed = 0;
    for (T v : values) {
        char ref[32];
        auto const mr       = std::to_chars(ref, ref + sizeof ref, v, 10);
        std::size_t const n = static_cast<std::size_t>(mr.ptr - ref);
        if (n > Cap) {
            // does not fit the returned inplace_string<Capacity>: precondition of to_string (C05's domain)
            ++st.skipped;
            continue;
        }
        auto const cls  = fmt_class(v, 10, Cap, n);
        auto const kase = cat(tname<T>(), " value=", show_val(v), " Capacity=", Cap);
        auto render     = [&]() -> std::string {
            auto const s = etl::to_string<Cap>(v);
            std::string o(s.data(), s.size());
            o += s.data()[s.size()] == '\0' ? "|z" : "|?";
            return o;
        };
        std::string const want = std::string(ref, n) + "|z";
        std::string got;
        ++st.evals;
        if (v != 0) { ++st.nontrivial; }
        if (n == Cap && !exactSafe) {
            if (exactFailed >= 6) {
                ++st.unsafe;
                continue;
            }
            ++st.forks;
            auto const fr = forked(render);
            if (fr.died || fr.payload[0] != 'R') { ++exactFailed; }
            if (fr.died) {
                VIOL(r, "C02", S_TO_STRING, cls + "/crash", kase, "child process died (stack destroyed) while formatting a value whose digits fit the returned string exactly");
                VIOL(r, "C10", S_TO_STRING, cls, kase, cat("tetl: no result (crash) | std: ", show_buf(ref, n)));
                continue;
            }
            if (fr.payload[0] == 'A') {
                VIOL(r, "C05", S_TO_STRING, cls + "/assert", kase, fr.payload.substr(2));
                VIOL(r, "C10", S_TO_STRING, cls, kase, cat("tetl: contract handler instead of a result (", fr.payload.substr(2), ") | std: ", show_buf(ref, n)));
                continue;
            }
            if (fr.payload[0] == 'T') {
                VIOL(r, "C02", S_TO_STRING, cls + "/crash", kase, fr.payload.substr(2));
                VIOL(r, "C10", S_TO_STRING, cls, kase, cat("tetl: no result (", fr.payload.substr(2), ") | std: ", show_buf(ref, n)));
                continue;
            }
            if (fr.payload[1] == 'S') { VIOL(r, "C02", S_TO_STRING, cls, kase, "ASan/UBSan report during the call (see job log)"); }
            got       = fr.payload.substr(2);
            exactSafe = got == want && fr.payload[1] != 'S';
        } else {
            mc::Trap const t = mc::guarded([&] { got = render(); });
            if (t != mc::Trap::none) {
                VIOL(r, t == mc::Trap::assert_fired ? "C05" : "C02", S_TO_STRING, cat(cls, "/", mc::trap_name(t)), kase, mc::describe_trap(t));
                continue;
            }
            auto const now = mc::san_hits();
            if (now != san) {
                san = now;
                VIOL(r, "C02", S_TO_STRING, cls, kase, "ASan/UBSan report during the call (see job log)");
            }
        }
        r.outcome(mc::hash_str(got));
        if (got != want) { VIOL(r, "C10", S_TO_STRING, cls, kase, cat("tetl: ", show_buf(got.data(), got.size()), " | std: ", show_buf(want.data(), want.size()), "  (text|z = NUL-terminated)")); }
    }
}

template <typename T, std::size_t... Caps>
void job_to_string(mc::Reporter& r, long window)
{
    if (!r.want(S_TO_STRING)) { return; }
    auto const values = lattice<T>(10, window);
    ToStringStats st;
    (to_string_cap<Caps, T>(r, values, st), ...);
    r.count("evaluations", st.evals);
    r.count("distinct_nontrivial", st.nontrivial);
    r.count("skipped_does_not_fit", st.skipped);
    r.count("forked_calls", st.forks);
    r.count("exact_fit_calls_not_made_after_six_failures", st.unsafe);
    r.sample(cat("to_string<Capacity>(", tname<T>(), "): ", values.size(), " lattice values x ", sizeof...(Caps), " capacities, values that fit only"));
}

template <typename T>
void add_type(mc::Main& m, bool full8, bool is16)
{
    std::vector<std::string> const both{"quick", "thorough"};
    std::vector<std::string> const th{"thorough"};
    std::string const T_ = tname<T>();
    if (full8) {
        m.job(cat("fmt/", T_, "/all-values/all-bases"), both, [](mc::Reporter& r) { job_full<T>(r, all_bases()); });
        return;
    }
    if (is16) {
        m.job(cat("fmt/", T_, "/lattice/all-bases"), {"quick"}, [](mc::Reporter& r) { job_lattice<T>(r, 1300); });
#if !defined(MC_FLAVOUR_SAN)
        // 65536 values x 35 bases, split in five jobs of seven bases
        auto const bases = all_bases();
        for (std::size_t part = 0; part < 5; ++part) {
            std::vector<int> sub(bases.begin() + static_cast<long>(part * 7), bases.begin() + static_cast<long>(part * 7 + 7));
            m.job(cat("fmt/", T_, "/all-values/bases-part", part), th, [sub](mc::Reporter& r) {
                job_full<T>(r, sub);
            });
        }
#else
        m.job(cat("fmt/", T_, "/all-values/bases-10-2-16-36"), th, [](mc::Reporter& r) { job_full<T>(r, {10, 2, 16, 36}); });
#endif
        return;
    }
    m.job(cat("fmt/", T_, "/lattice/all-bases"), {"quick"}, [](mc::Reporter& r) { job_lattice<T>(r, 1300); });
#if !defined(MC_FLAVOUR_SAN)
    m.job(cat("fmt/", T_, "/lattice+window66000/all-bases"), th, [](mc::Reporter& r) { job_lattice<T>(r, 66000); });
#else
    m.job(cat("fmt/", T_, "/lattice+window5000/all-bases"), th, [](mc::Reporter& r) { job_lattice<T>(r, 5000); });
#endif
}

} // namespace

int main(int argc, char** argv)
{
    mc::Main m(argc, argv);
    std::vector<std::string> const both{"quick", "thorough"};
#if !defined(MC_PART) || MC_PART == 1
    add_type<signed char>(m, true, false);
    add_type<unsigned char>(m, true, false);
    add_type<char>(m, true, false);
    add_type<short>(m, false, true);
    add_type<unsigned short>(m, false, true);
#endif
#if !defined(MC_PART) || MC_PART == 2
    add_type<int>(m, false, false);
    add_type<unsigned>(m, false, false);
    add_type<long>(m, false, false);
    add_type<unsigned long>(m, false, false);
    add_type<long long>(m, false, false);
    add_type<unsigned long long>(m, false, false);
#endif
#if !defined(MC_PART) || MC_PART == 5
    // round 2: the remaining integral types tetl's templates accept (std has no overloads for them)
    add_type<char8_t>(m, true, false);
    add_type<char16_t>(m, false, true);
    add_type<char32_t>(m, false, false);
    add_type<wchar_t>(m, false, false);
#endif
#if !defined(MC_PART) || MC_PART == 4
    // round 2: the cross-function round trips
    add_cross<signed char>(m);
    add_cross<unsigned char>(m);
    add_cross<char>(m);
    add_cross<short>(m);
    add_cross<unsigned short>(m);
    add_cross<int>(m);
    add_cross<unsigned>(m);
    add_cross<long>(m);
    add_cross<unsigned long>(m);
    add_cross<long long>(m);
    add_cross<unsigned long long>(m);
#endif
#if !defined(MC_PART) || MC_PART == 3
    m.job("to_string/int", both, [](mc::Reporter& r) { job_to_string<int, 1, 2, 3, 4, 5, 6, 9, 10, 11, 12, 16>(r, r.thorough() ? 12000 : 1300); });
    m.job("to_string/unsigned", both, [](mc::Reporter& r) { job_to_string<unsigned, 1, 2, 3, 4, 5, 6, 9, 10, 11, 12, 16>(r, r.thorough() ? 12000 : 1300); });
    m.job("to_string/long", both, [](mc::Reporter& r) { job_to_string<long, 1, 2, 3, 10, 18, 19, 20, 21, 24>(r, r.thorough() ? 12000 : 1300); });
    m.job("to_string/unsigned long", both, [](mc::Reporter& r) { job_to_string<unsigned long, 1, 2, 3, 10, 18, 19, 20, 21, 24>(r, r.thorough() ? 12000 : 1300); });
    m.job("to_string/long long", both, [](mc::Reporter& r) { job_to_string<long long, 1, 2, 19, 20, 21>(r, r.thorough() ? 12000 : 1300); });
    m.job("to_string/unsigned long long", both, [](mc::Reporter& r) { job_to_string<unsigned long long, 1, 2, 19, 20, 21>(r, r.thorough() ? 12000 : 1300); });
#endif
    return m.run();
}
