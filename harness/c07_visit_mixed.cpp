// C07, visit over variants of DIFFERENT arity (added after seeded breakage c07_visit_mixed_radix:
// a dispatch that encodes the index tuple as a mixed-radix number with the wrong strides is
// only wrong when a variant with more alternatives precedes one with fewer).
// Every tuple of active indices of every ordered pair / triple of the variant types below is
// visited with etl::visit and std::visit; the visitor logs (alternative type, value) of each
// argument.  visit_with_index must report exactly the active indices.
#include "mc.hpp"

#include <etl/variant.hpp>

#include <string>
#include <tuple>
#include <utility>
#include <variant>

using mc::cat;

namespace {

inline int code(int const&) { return 0; }
inline int code(char const&) { return 1; }
inline int code(long const&) { return 2; }
inline int code(short const&) { return 3; }
inline int code(unsigned const&) { return 4; }

struct Log {
    std::string* out;
    template <typename... Xs>
    int operator()(Xs const&... xs) const
    {
        ((*out += cat("(", code(xs), ":", static_cast<long>(xs), ")")), ...);
        return int(sizeof...(Xs));
    }
};
struct LogIdx {
    std::string* out;
    template <typename... Xs>
    int operator()(Xs const&... xs) const
    {
        ((*out += cat("[", xs.index, "=", static_cast<long>(xs.value()), "]")), ...);
        return int(sizeof...(Xs));
    }
};

template <typename... Ts>
struct Fam {
    using E                        = etl::variant<Ts...>;
    using S                        = std::variant<Ts...>;
    static constexpr std::size_t n = sizeof...(Ts);
    template <std::size_t I>
    static E make_e()
    {
        return E{etl::in_place_index<I>, static_cast<std::variant_alternative_t<I, S>>(11 + 7 * I)};
    }
    template <std::size_t I>
    static S make_s()
    {
        return S{std::in_place_index<I>, static_cast<std::variant_alternative_t<I, S>>(11 + 7 * I)};
    }
    static std::string name() { return cat("variant<", n, " alternatives>"); }
};

template <typename F, std::size_t... Is, typename Fn>
void for_each_state(std::index_sequence<Is...>, Fn&& fn)
{
    (fn(F::template make_e<Is>(), F::template make_s<Is>(), Is), ...);
}

struct Ctx {
    mc::Reporter& r;
    std::uint64_t evals{0};
    std::uint64_t nontrivial{0};
};

template <typename F1, typename F2>
void pairs(Ctx& c, char const* label)
{
    for_each_state<F1>(std::make_index_sequence<F1::n>{}, [&](auto e1, auto s1, std::size_t i1) {
        for_each_state<F2>(std::make_index_sequence<F2::n>{}, [&](auto e2, auto s2, std::size_t i2) {
            std::string le, ls;
            int re = 0, rs = 0;
            auto const kase = cat(label, " arities (", F1::n, ",", F2::n, ") active indices (", i1, ",", i2, ")");
            auto const cls  = F1::n > F2::n ? "more_alternatives_first" : (F1::n < F2::n ? "fewer_alternatives_first" : "same_arity");
            mc::Trap t      = mc::guarded([&] {
                re = etl::visit(Log{&le}, e1, e2);
                rs = std::visit(Log{&ls}, s1, s2);
            });
            ++c.evals;
            if (i1 != 0 || i2 != 0) { ++c.nontrivial; }
            c.r.outcome(mc::hash_str(ls));
            if (t != mc::Trap::none) {
                c.r.violation(t == mc::Trap::assert_fired ? "C05" : "C02", "visit(F,variant,variant)", cat(cls, "/", mc::trap_name(t)), kase, mc::describe_trap(t));
                return;
            }
            if (le != ls || re != rs) { c.r.violation("C07", "visit(F,variant,variant)", cls, kase, cat("tetl visitor saw ", le, " std saw ", ls)); }
            std::string li;
            std::string want = cat("[", i1, "=", 11 + 7 * long(i1), "][", i2, "=", 11 + 7 * long(i2), "]");
            mc::Trap t2      = mc::guarded([&] { (void)etl::visit_with_index(LogIdx{&li}, e1, e2); });
            ++c.evals;
            if (t2 != mc::Trap::none) {
                c.r.violation(t2 == mc::Trap::assert_fired ? "C05" : "C02", "visit_with_index(F,variant,variant)", cat(cls, "/", mc::trap_name(t2)), kase, mc::describe_trap(t2));
            } else if (li != want) {
                c.r.violation("C07", "visit_with_index(F,variant,variant)", cls, kase, cat("tetl visitor saw ", li, " expected ", want));
            }
            if (c.r.wants_sample()) { c.r.sample(kase + " -> " + ls); }
        });
    });
}

template <typename F1, typename F2, typename F3>
void triples(Ctx& c, char const* label)
{
    for_each_state<F1>(std::make_index_sequence<F1::n>{}, [&](auto e1, auto s1, std::size_t i1) {
        for_each_state<F2>(std::make_index_sequence<F2::n>{}, [&](auto e2, auto s2, std::size_t i2) {
            for_each_state<F3>(std::make_index_sequence<F3::n>{}, [&](auto e3, auto s3, std::size_t i3) {
                std::string le, ls;
                int re = 0, rs = 0;
                auto const kase = cat(label, " arities (", F1::n, ",", F2::n, ",", F3::n, ") active indices (", i1, ",", i2, ",", i3, ")");
                bool const sorted_up = F1::n <= F2::n && F2::n <= F3::n;
                auto const cls       = (F1::n == F2::n && F2::n == F3::n) ? "same_arity" : (sorted_up ? "non_decreasing_arity" : "mixed_arity");
                mc::Trap t           = mc::guarded([&] {
                    re = etl::visit(Log{&le}, e1, e2, e3);
                    rs = std::visit(Log{&ls}, s1, s2, s3);
                });
                ++c.evals;
                if (i1 + i2 + i3 != 0) { ++c.nontrivial; }
                c.r.outcome(mc::hash_str(ls));
                if (t != mc::Trap::none) {
                    c.r.violation(t == mc::Trap::assert_fired ? "C05" : "C02", "visit(F,variant,variant,variant)", cat(cls, "/", mc::trap_name(t)), kase, mc::describe_trap(t));
                    return;
                }
                if (le != ls || re != rs) {
                    c.r.violation("C07", "visit(F,variant,variant,variant)", cls, kase, cat("tetl visitor saw ", le, " std saw ", ls));
                }
            });
        });
    });
}

using V1 = Fam<int>;
using V2 = Fam<int, char>;
using V3 = Fam<int, char, long>;
using V4 = Fam<short, int, char, long>;
using V5 = Fam<unsigned, short, int, char, long>;

} // namespace

int main(int argc, char** argv)
{
    mc::Main m(argc, argv);
    m.job("visit/mixed-arity/pairs", {"quick", "thorough"}, [](mc::Reporter& r) {
        Ctx c{r};
        pairs<V3, V2>(c, "visit(f,a,b)");
        pairs<V2, V3>(c, "visit(f,a,b)");
        pairs<V4, V2>(c, "visit(f,a,b)");
        pairs<V2, V4>(c, "visit(f,a,b)");
        pairs<V4, V3>(c, "visit(f,a,b)");
        pairs<V3, V4>(c, "visit(f,a,b)");
        pairs<V1, V3>(c, "visit(f,a,b)");
        pairs<V3, V1>(c, "visit(f,a,b)");
        pairs<V5, V2>(c, "visit(f,a,b)");
        pairs<V2, V5>(c, "visit(f,a,b)");
        pairs<V5, V4>(c, "visit(f,a,b)");
        pairs<V3, V3>(c, "visit(f,a,b)");
        r.count("evaluations", c.evals);
        r.count("distinct_nontrivial", c.nontrivial);
    });
    m.job("visit/mixed-arity/triples", {"quick", "thorough"}, [](mc::Reporter& r) {
        Ctx c{r};
        triples<V3, V2, V4>(c, "visit(f,a,b,c)");
        triples<V4, V3, V2>(c, "visit(f,a,b,c)");
        triples<V2, V3, V4>(c, "visit(f,a,b,c)");
        triples<V2, V4, V3>(c, "visit(f,a,b,c)");
        triples<V3, V1, V2>(c, "visit(f,a,b,c)");
        triples<V2, V2, V3>(c, "visit(f,a,b,c)");
        r.count("evaluations", c.evals);
        r.count("distinct_nontrivial", c.nontrivial);
    });
    return m.run();
}
