// C19, mdarray half: etl::mdarray<int, E, Layout, Container> for every extents type E of rank
// 0..3 over the dimension alphabet {2,3,dynamic,0}, every assignment 0..4 (quick 0..3) of the
// dynamic extents, Layout in {layout_right, layout_left}, Container in
//   MC_SLICE 0: etl::array<int,N>          (N = largest span size the type can need)
//   MC_SLICE 1: etl::static_vector<int,N>
//   MC_SLICE 2: checked_vec                (exact-size heap storage, pointer iterators, every
//                                           out-of-range operator[] is counted, not executed)
// constructed through every constructor (extent values as pack, extents, mapping, with fill
// value, with container copy / move; copy, move, copy/move assignment, swap - round 2: with
// the independence of every copy checked by writing through one object and reading the others;
// not in the sanitizer flavour, whose compile time is the longest of the property).
// On EVERY in-range multi-index: the address of operator()(i...) (const and non-const),
// operator[](array), operator[](span), operator[](i...) (when the language has it) and of the
// same element seen through to_mdspan() / the mdspan conversion, minus container_data(), equals
// the closed-form offset and lies inside [0, required span size); a value written through the
// mdarray is read back at that slot of the container.  size(), empty(), extent(r), stride(r),
// container_size(), is_*.
#include "c19_common.hpp"

#include <etl/mdarray.hpp>
#include <etl/utility.hpp>
#include <etl/vector.hpp>

#include <algorithm>

using namespace c19;

#ifndef MC_ITYPE
    #define MC_ITYPE 1
#endif
#ifndef MC_SLICE
    #define MC_SLICE 0
#endif

namespace {

#if MC_ITYPE == 1
using PartIndex = int;
#elif MC_ITYPE == 2
using PartIndex = unsigned long;
#elif MC_ITYPE == 3
using PartIndex = signed char;
#elif MC_ITYPE == 4
using PartIndex = unsigned char;
#elif MC_ITYPE == 5
using PartIndex = short;
#elif MC_ITYPE == 6
using PartIndex = unsigned short;
#elif MC_ITYPE == 7
using PartIndex = unsigned;
#elif MC_ITYPE == 8
using PartIndex = long;
#endif

using A4 = alpha<2, 3, DC, 0>;
constexpr ll kMaxDyn = 4;

std::uint64_t g_oob    = 0; // out-of-range operator[] calls on checked_vec
std::uint64_t g_absurd = 0; // checked_vec asked for more elements than any case of this harness needs

/// a broken required_span_size() must not turn into a multi-gigabyte allocation
inline std::size_t sane(std::size_t n)
{
    if (n > (std::size_t(1) << 16)) {
        ++g_absurd;
        return 0;
    }
    return n;
}

/// minimal contiguous container with exact-size heap storage; operator[] is range checked
struct checked_vec {
    using value_type      = int;
    using reference       = int&;
    using const_reference = int const&;
    using iterator        = int*;
    using const_iterator  = int const*;

    checked_vec() = default;
    explicit checked_vec(std::size_t n) : _p(sane(n) ? static_cast<int*>(std::malloc(sane(n) * sizeof(int))) : nullptr), _n(_p ? n : 0) { std::fill(_p, _p + _n, 0); }
    checked_vec(std::size_t n, int const& v) : _p(sane(n) ? static_cast<int*>(std::malloc(sane(n) * sizeof(int))) : nullptr), _n(_p ? n : 0) { std::fill(_p, _p + _n, v); }
    checked_vec(checked_vec const& o) : checked_vec(o._n) { std::copy(o._p, o._p + _n, _p); }
    checked_vec(checked_vec&& o) noexcept : _p(o._p), _n(o._n)
    {
        o._p = nullptr;
        o._n = 0;
    }
    auto operator=(checked_vec o) noexcept -> checked_vec&
    {
        std::swap(_p, o._p);
        std::swap(_n, o._n);
        return *this;
    }
    ~checked_vec() { std::free(_p); }
    friend void swap(checked_vec& a, checked_vec& b) noexcept
    {
        std::swap(a._p, b._p);
        std::swap(a._n, b._n);
    }
    auto begin() -> int* { return _p; }
    auto begin() const -> int const* { return _p; }
    auto cbegin() const -> int const* { return _p; }
    auto end() -> int* { return _p + _n; }
    auto end() const -> int const* { return _p + _n; }
    auto size() const -> std::size_t { return _n; }
    auto operator[](std::size_t i) -> int&
    {
        if (i >= _n) {
            ++g_oob;
            return _dummy;
        }
        return _p[i];
    }
    auto operator[](std::size_t i) const -> int const&
    {
        if (i >= _n) {
            ++g_oob;
            return _dummy;
        }
        return _p[i];
    }

private:
    int* _p{nullptr};
    std::size_t _n{0};
    inline static int _dummy = 0;
};

template <typename E>
constexpr std::size_t max_span()
{
    std::size_t n = 1;
    for (std::size_t r = 0; r < E::rank(); ++r) { n *= (E::static_extent(r) == dyn ? static_cast<std::size_t>(kMaxDyn) : E::static_extent(r)); }
    return n == 0 ? 1 : n;
}

#if MC_SLICE == 0
template <typename E>
using container_t = etl::array<int, max_span<E>()>;
constexpr char const* container_name = "etl::array<int,N>";
constexpr bool fixed_size            = true;
#elif MC_SLICE == 1
template <typename E>
using container_t = etl::static_vector<int, max_span<E>()>;
constexpr char const* container_name = "etl::static_vector<int,N>";
constexpr bool fixed_size            = false;
#else
template <typename E>
using container_t = checked_vec;
constexpr char const* container_name = "checked_vec";
constexpr bool fixed_size            = false;
#endif

struct Indices {
    std::size_t rank{0};
    std::size_t n{0};
    std::vector<ll> flat;
};

constexpr int kForms = 8;
char const* const form_name[kForms] = {"operator()(indices...)", "operator()(indices...) const", "operator[](array)", "operator[](span) const", "to_mdspan()(indices...)",
    "to_mdspan() const (indices...)", "operator mdspan_type (indices...)", "operator[](indices...)"};

struct MaObs {
    std::size_t rank{0}, rank_dynamic{0};
    std::size_t st[MAXR]{};
    ll ext[MAXR]{}, ext2[MAXR]{};
    ll size{0};
    int empty{-1};
    ll container_size{0};
    ll map_span{0};
    bool has_stride{false};
    ll stride[MAXR]{};
    bool fill_checked{false};
    bool fill_ok{true};
    int forms{0};
    std::vector<ll> off[kForms];
    std::vector<ll> readback; // slot at which the value written through index k was found (-1 none)
    int view_ext_ok{-1};
    int independent{-1}; // copy/move/assignment/swap: copies own their elements (round 2)
    int is_unique{-1}, is_exhaustive{-1}, is_strided{-1};
    char const* volatile phase{"construction"};
};

template <typename T, typename X, std::size_t... Is>
auto& at_call(X& s, ll const* idx, std::index_sequence<Is...> /*q*/)
{
    return s(static_cast<T>(idx[Is])...);
}
#if defined(__cpp_multidimensional_subscript)
template <typename T, typename X, std::size_t... Is>
auto& at_subscript(X& s, ll const* idx, std::index_sequence<Is...> /*q*/)
{
    return s[static_cast<T>(idx[Is])...];
}
#endif

/// fill = value every element must hold before anything is written (or -1)
template <typename MA>
[[gnu::noinline]] void observe_ma(MA& a, Indices const& ix, ll fill, ll span, MaObs& o)
{
    using E          = typename MA::extents_type;
    using I          = typename E::index_type;
    using J          = other_t<I>;
    constexpr auto R = E::rank();
    auto const seq   = std::make_index_sequence<R>{};
    MA const& ca     = a;
    o.rank           = MA::rank();
    o.rank_dynamic   = MA::rank_dynamic();
    for (std::size_t r = 0; r < R; ++r) {
        o.st[r]   = MA::static_extent(r);
        o.ext[r]  = static_cast<ll>(ca.extent(r));
        o.ext2[r] = static_cast<ll>(ca.extents().extent(r));
    }
    o.size           = static_cast<ll>(ca.size());
    o.empty          = ca.empty();
    o.container_size = static_cast<ll>(ca.container_size());
    o.phase          = "mapping()";
    o.map_span       = static_cast<ll>(ca.mapping().required_span_size());
    int* const base  = a.container_data();
    int const* cbase = ca.container_data();
    if (fill >= 0) {
        o.fill_checked = true;
        for (ll k = 0; k < span && k < o.container_size; ++k) { o.fill_ok = o.fill_ok && (cbase[k] == static_cast<int>(fill)); }
    }
    o.phase = "to_mdspan()";
    auto v  = a.to_mdspan();
    auto cv = ca.to_mdspan();
    o.phase = "operator mdspan_type";
    typename MA::mdspan_type mv = a;
    o.view_ext_ok = (v.extents() == ca.extents()) && (cv.extents() == ca.extents()) && (mv.extents() == ca.extents()) && (v.data_handle() == base) && (cv.data_handle() == cbase)
                 && (mv.data_handle() == base);
    o.forms = 7;
    for (auto& w : o.off) { w.reserve(ix.n); }
    for (std::size_t k = 0; k < ix.n; ++k) {
        ll const* idx = ix.flat.data() + k * R;
        o.phase       = form_name[0];
        int& ref      = at_call<I>(a, idx, seq);
        o.off[0].push_back(&ref - base);
        o.phase = form_name[1];
        o.off[1].push_back(&at_call<J>(ca, idx, seq) - cbase);
        o.phase       = form_name[2];
        auto const aj = to_etl_array<J, R>(idx);
        o.off[2].push_back(&a[aj] - base);
        o.phase = form_name[3];
        auto ai = to_etl_array<I, R>(idx);
        o.off[3].push_back(&ca[etl::span<I, R>(ai)] - cbase);
        o.phase = form_name[4];
        o.off[4].push_back(&at_call<I>(v, idx, seq) - base);
        o.phase = form_name[5];
        o.off[5].push_back(&at_call<I>(cv, idx, seq) - cbase);
        o.phase = form_name[6];
        o.off[6].push_back(&at_call<I>(mv, idx, seq) - base);
#if defined(__cpp_multidimensional_subscript)
        if constexpr (R > 0) {
            o.phase = form_name[7];
            o.forms = 8;
            o.off[7].push_back(&at_subscript<I>(a, idx, seq) - base);
        }
#endif
        // write through the mdarray, find the value in the container
        ll const off0 = o.off[0].back();
        if (off0 >= 0 && off0 < span && off0 < o.container_size) {
            ref       = 5000 + static_cast<int>(k);
            ll found  = -1;
            for (ll q = 0; q < span && q < o.container_size; ++q) {
                if (cbase[q] == 5000 + static_cast<int>(k)) { found = (found == -1) ? q : -2; }
            }
            o.readback.push_back(found);
        } else {
            o.readback.push_back(-1);
        }
    }
    if constexpr (R > 0) {
        o.phase      = "stride(r)";
        o.has_stride = true;
        for (std::size_t r = 0; r < R; ++r) { o.stride[r] = static_cast<ll>(ca.stride(r)); }
    }
    o.phase         = "is_unique()/is_exhaustive()/is_strided()";
    o.is_unique     = ca.is_unique() && MA::is_always_unique();
    o.is_exhaustive = ca.is_exhaustive() && MA::is_always_exhaustive();
    o.is_strided    = ca.is_strided() && MA::is_always_strided();
    o.phase         = "construction";
}

struct Expect {
    std::vector<ll> ext;
    std::vector<ll> strides;
    ll span{0};
    ll container_size{0};
};

void verify_ma(Ctx& c, MaObs const& o, Indices const& ix, Expect const& x, TypeInfo const& ti)
{
    std::size_t const R = x.ext.size();
    // the constructor decides extents and container; everything else follows from them
    bool ok = c.eq("extent(r) for all r", show(std::vector<ll>(o.ext, o.ext + R)), show(x.ext));
    ok      = c.eq("extents().extent(r) for all r", show(std::vector<ll>(o.ext2, o.ext2 + R)), show(x.ext)) && ok;
    ok      = c.eq("container_size()", o.container_size, x.container_size) && ok;
    if (o.fill_checked) { ok = c.eq("every element holds the fill value", o.fill_ok, true) && ok; }
    if (o.independent != -1) { ok = c.eq("copy, move target, assignment target and swapped objects own their elements (writes through one are not seen through another)", o.independent, 1) && ok; }
    if (!ok) { return; }
    c.eq_o("rank()", o.rank, R);
    c.eq_o("rank_dynamic()", o.rank_dynamic, ti.rank_dynamic);
    c.eq_o("static_extent(r)", show_statics(std::vector<std::size_t>(o.st, o.st + R)), show_statics(ti.statics()));
    c.eq_o("size()", o.size, product(x.ext));
    c.eq_o("empty()", o.empty, int(product(x.ext) == 0));
    c.eq_o("mapping()", cat("required_span_size ", o.map_span), cat("required_span_size ", x.span));
    c.eq_o("to_mdspan()", cat("same extents and data_handle() == container_data(): ", o.view_ext_ok), cat("same extents and data_handle() == container_data(): ", 1));
    for (int f = 0; f < o.forms; ++f) {
        bool reported = false;
        std::vector<unsigned char> hit(static_cast<std::size_t>(x.span), 0);
        for (std::size_t k = 0; k < ix.n && k < o.off[f].size(); ++k) {
            ll ref = 0;
            for (std::size_t r = 0; r < R; ++r) { ref += ix.flat[k * R + r] * x.strides[r]; }
            ll const got = o.off[f][k];
            ++c.evals;
            bool const inside = got >= 0 && got < x.span;
            if ((got != ref || !inside) && !reported) {
                std::vector<ll> const idx(ix.flat.begin() + static_cast<std::ptrdiff_t>(k * R), ix.flat.begin() + static_cast<std::ptrdiff_t>((k + 1) * R));
                c.fail_o(form_name[f], cat("index ", show(idx), ": element offset tetl=", got, " reference=", ref, inside ? " (inside" : " (OUTSIDE", " the ", x.span, " required elements)"));
                reported = true;
            }
            if (inside && hit[static_cast<std::size_t>(got)]++ && !reported) {
                c.fail_o(form_name[f], cat("two indices refer to the same element (offset ", got, ")"));
                reported = true;
            }
            if (f == 0 && k < o.readback.size()) {
                ++c.evals;
                if (o.readback[k] != ref && !reported) {
                    c.fail_o(form_name[f], cat("value written through operator() found at container slot ", o.readback[k], ", reference ", ref));
                    reported = true;
                }
            }
        }
        if (o.off[f].size() != ix.n) { c.fail_o(form_name[f], cat("observed ", o.off[f].size(), " of ", ix.n, " indices")); }
    }
    if (o.has_stride) { c.eq_o("stride(r)", show(std::vector<ll>(o.stride, o.stride + R)), show(x.strides)); }
    c.eq_o("is_unique()", o.is_unique, 1);
    c.eq_o("is_exhaustive()", o.is_exhaustive, 1);
    c.eq_o("is_strided()", o.is_strided, 1);
    c.r.outcome(mc::hash_str(cat(show(x.ext), show(x.strides), show(o.off[0]))));
}

/// a = dynamic extents, w = all extents
using MaFn = void (*)(ll const* a, ll const* w, Indices const& ix, ll span, MaObs& o);

template <typename E>
E make_ext(ll const* dv)
{
    return E(to_etl_array<typename E::index_type, E::rank_dynamic()>(dv));
}
template <typename MA, typename T, std::size_t... Is>
MA ma_pack(ll const* v, std::index_sequence<Is...> /*q*/)
{
    return MA(static_cast<T>(v[Is])...);
}
template <typename E>
container_t<E> make_container(ll span, int v)
{
    if constexpr (fixed_size) {
        container_t<E> c{};
        for (auto& e : c) { e = v; }
        return c;
    } else {
        return container_t<E>(static_cast<std::size_t>(span), v);
    }
}

template <typename L, typename E, typename T, bool All>
void mk_pack(ll const* a, ll const* w, Indices const& ix, ll span, MaObs& o)
{
    using MA         = etl::mdarray<int, E, L, container_t<E>>;
    constexpr auto N = All ? E::rank() : E::rank_dynamic();
    if constexpr (N > 0) {
        auto m = ma_pack<MA, T>(All ? w : a, std::make_index_sequence<N>{});
        observe_ma(m, ix, -1, span, o);
    } else {
        auto m = MA(E{}); // all extents static: the pack would be empty and mdarray() needs rank_dynamic() != 0
        observe_ma(m, ix, -1, span, o);
    }
}
template <typename L, typename E>
void mk_extents(ll const* a, ll const* /*w*/, Indices const& ix, ll span, MaObs& o)
{
    etl::mdarray<int, E, L, container_t<E>> m(make_ext<E>(a));
    observe_ma(m, ix, -1, span, o);
}
template <typename L, typename E>
void mk_mapping(ll const* a, ll const* /*w*/, Indices const& ix, ll span, MaObs& o)
{
    etl::mdarray<int, E, L, container_t<E>> m(typename L::template mapping<E>(make_ext<E>(a)));
    observe_ma(m, ix, -1, span, o);
}
template <typename L, typename E>
void mk_extents_value(ll const* a, ll const* /*w*/, Indices const& ix, ll span, MaObs& o)
{
    etl::mdarray<int, E, L, container_t<E>> m(make_ext<E>(a), 77);
    observe_ma(m, ix, 77, span, o);
}
template <typename L, typename E>
void mk_mapping_value(ll const* a, ll const* /*w*/, Indices const& ix, ll span, MaObs& o)
{
    etl::mdarray<int, E, L, container_t<E>> m(typename L::template mapping<E>(make_ext<E>(a)), 78);
    observe_ma(m, ix, 78, span, o);
}
template <typename L, typename E>
void mk_extents_container(ll const* a, ll const* /*w*/, Indices const& ix, ll span, MaObs& o)
{
    auto const c = make_container<E>(span, 79);
    etl::mdarray<int, E, L, container_t<E>> m(make_ext<E>(a), c);
    observe_ma(m, ix, 79, span, o);
}
template <typename L, typename E>
void mk_mapping_container_move(ll const* a, ll const* /*w*/, Indices const& ix, ll span, MaObs& o)
{
    auto c = make_container<E>(span, 80);
    etl::mdarray<int, E, L, container_t<E>> m(typename L::template mapping<E>(make_ext<E>(a)), etl::move(c));
    observe_ma(m, ix, 80, span, o);
}
/// all `span` required elements of x hold v / are set to v (kept out of line: called many times per mdarray type)
template <typename MA>
[[gnu::noinline]] bool holds_all(MA const& x, ll span, int v)
{
    bool ok = static_cast<ll>(x.container_size()) >= span;
    for (ll k = 0; ok && k < span; ++k) { ok = x.container_data()[k] == v; }
    return ok;
}
template <typename MA>
[[gnu::noinline]] void fill_all(MA& x, ll span, int v)
{
    for (ll k = 0; k < span && k < static_cast<ll>(x.container_size()); ++k) { x.container_data()[k] = v; }
}

#if defined(MC_FLAVOUR_SAN)
// the sanitizer flavour of this file is the slowest translation unit of the property: it keeps the short form
template <typename L, typename E>
void mk_copy_move_swap(ll const* a, ll const* /*w*/, Indices const& ix, ll span, MaObs& o)
{
    using MA = etl::mdarray<int, E, L, container_t<E>>;
    MA src(make_ext<E>(a), 81);
    MA copy(src);
    MA moved(etl::move(copy));
    MA assigned(make_ext<E>(a), 5);
    assigned = moved;
    MA other(make_ext<E>(a), 6);
    swap(assigned, other);
    observe_ma(other, ix, 81, span, o);
}
#else
template <typename L, typename E>
void mk_copy_move_swap(ll const* a, ll const* /*w*/, Indices const& ix, ll span, MaObs& o)
{
    using MA = etl::mdarray<int, E, L, container_t<E>>;
    auto holds = [span](MA const& x, int v) { return holds_all(x, span, v); };
    auto fill  = [span](MA& x, int v) { fill_all(x, span, v); };
    bool indep = true;
    MA src(make_ext<E>(a), 81);
    MA copy(src);
    indep = indep && holds(copy, 81) && (span == 0 || copy.container_data() != src.container_data());
    fill(copy, 82); // must not be seen through src
    indep = indep && holds(src, 81) && holds(copy, 82);
    fill(src, 83); // nor the other way round
    indep = indep && holds(copy, 82) && holds(src, 83);
    fill(copy, 81);
    MA moved(etl::move(copy));
    indep = indep && holds(moved, 81) && holds(src, 83) && (span == 0 || moved.container_data() != src.container_data());
    MA assigned(make_ext<E>(a), 5);
    assigned = moved;
    indep = indep && holds(assigned, 81);
    fill(assigned, 84);
    indep = indep && holds(moved, 81) && holds(assigned, 84);
    fill(assigned, 81);
    MA massigned(make_ext<E>(a), 7);
    massigned = etl::move(moved);
    indep = indep && holds(massigned, 81) && holds(assigned, 81);
    MA other(make_ext<E>(a), 6);
    swap(assigned, other);
    indep = indep && holds(assigned, 6) && holds(other, 81) && holds(src, 83) && holds(massigned, 81);
    fill(assigned, 85);
    indep = indep && holds(other, 81);
    o.independent = indep;
    observe_ma(other, ix, 81, span, o);
}
#endif

struct MaFns {
    MaFn f[2][9]; // per layout (0 right, 1 left)
};
template <typename L, typename E>
constexpr void fill(MaFn (&f)[9])
{
    using I = typename E::index_type;
    using J = other_t<I>;
    f[0]    = &mk_pack<L, E, I, false>;
    if constexpr (E::rank() != E::rank_dynamic()) { f[1] = &mk_pack<L, E, J, true>; }
    f[2] = &mk_extents<L, E>;
    f[3] = &mk_mapping<L, E>;
    f[4] = &mk_extents_value<L, E>;
    f[5] = &mk_mapping_value<L, E>;
    f[6] = &mk_extents_container<L, E>;
    f[7] = &mk_mapping_container_move<L, E>;
    f[8] = &mk_copy_move_swap<L, E>;
}
template <typename E>
constexpr MaFns make_fns()
{
    MaFns f{};
    fill<etl::layout_right, E>(f.f[0]);
    fill<etl::layout_left, E>(f.f[1]);
    return f;
}
template <typename E>
inline constexpr MaFns ma_fns = make_fns<E>();

Indices make_indices(std::vector<ll> const& e)
{
    Indices ix;
    ix.rank        = e.size();
    auto const all = all_indices(e);
    ix.n           = all.size();
    for (auto const& v : all) { ix.flat.insert(ix.flat.end(), v.begin(), v.end()); }
    return ix;
}

struct Limits {
    ull index_max, other_max;
};

void run_ma_case(Ctx& c, TypeInfo const& ti, MaFns const& f, std::size_t maxSpan, Limits lim, ll maxDyn)
{
    auto const st        = ti.statics();
    std::string const en = ti.name();
    std::string const pc = pattern_class(st);
    char const* const lname[2] = {"layout_right", "layout_left"};
    char const* const subj[9]  = {"mdarray::mdarray(IndexTypes...)", "mdarray::mdarray(IndexTypes...)", "mdarray::mdarray(extents)", "mdarray::mdarray(mapping)",
        "mdarray::mdarray(extents,value)", "mdarray::mdarray(mapping,value)", "mdarray::mdarray(extents,container const&)", "mdarray::mdarray(mapping,container&&)",
        "mdarray copy/move/assignment/swap"};
    char const* const how[9]   = {"dynamic extents as pack", "all extents as pack", "extents", "mapping", "extents, 77", "mapping, 78", "extents, container filled with 79",
        "mapping, moved container filled with 80", "copy, move, copy-assign, move-assign, swap of mdarray(extents, 81), independence of the copies"};
    std::vector<ll> dv(ti.rank_dynamic, 0);
    do {
        auto const e         = full_extents(st, dv);
        auto const ix        = make_indices(e);
        bool const has_zero  = std::find(e.begin(), e.end(), 0) != e.end();
        std::string const zc = ti.rank == 0 ? "rank0" : (has_zero ? "zero_extent" : "general");
        c.ocls               = zc;
        ll const prod        = product(e);
        if (static_cast<ull>(prod) > lim.index_max || static_cast<ull>(prod) > lim.other_max) {
            ++c.skipped;
            continue;
        }
        for (int side = 0; side < 2; ++side) {
            Expect x{e, side == 0 ? strides_right(e) : strides_left(e), prod, fixed_size ? static_cast<ll>(maxSpan) : prod};
            c.base = cat("mdarray<", lname[side], ">");
            for (int k = 0; k < 9; ++k) {
                if (f.f[side][k] == nullptr) { continue; }
                std::string const cls = k <= 1 ? cat(k == 1 ? "n_eq_rank" : "n_eq_rank_dynamic", "+", pc) : zc;
                c.at(subj[k], cls, cat("mdarray<int,", en, ",", lname[side], ",", container_name, ">(", how[k], ") extents ", show(e)));
                MaObs o;
                g_oob        = 0;
                g_absurd     = 0;
                auto const t = mc::guarded([&] { f.f[side][k](dv.data(), e.data(), ix, prod, o); });
                if (t == mc::Trap::none) {
                    verify_ma(c, o, ix, x, ti);
                } else {
                    c.trap_o(t, o.phase);
                }
                if (g_oob != 0) { c.c02(cat(g_oob, " out-of-range operator[] calls on the container")); }
                if (g_absurd != 0) { c.fail("the container was constructed with more than 65536 elements (required_span_size() is wrong)"); }
                c.san_check();
                c.nontrivial += (ix.n > 1);
            }
        }
        if (c.r.wants_sample()) { c.r.sample(cat("mdarray<int,", en, ",*,", container_name, "> with extents ", show(e), ": all constructors x all ", ix.n, " indices x all access forms")); }
    } while (next_values(dv, maxDyn));
    c.r.count("extents_types");
}

template <typename I, std::size_t R>
void job_ma(mc::Reporter& r)
{
    Ctx c(r);
    Limits const lim{static_cast<ull>(std::numeric_limits<I>::max()), static_cast<ull>(std::numeric_limits<other_t<I>>::max())};
    ll const maxDyn = r.thorough() ? kMaxDyn : 3;
    for_patterns<I, A4, R, 0, ipow(A4::n, R)>([&]<typename E>() {
        if (r.deadline_passed()) {
            if (r.exhaustive) { r.not_exhaustive("deadline"); }
            return;
        }
        run_ma_case(c, tinfo<E>, ma_fns<E>, max_span<E>(), lim, maxDyn);
    });
    c.flush();
}

} // namespace

int main(int argc, char** argv)
{
    mc::Main m(argc, argv);
    std::vector<std::string> const both{"quick", "thorough"};
    std::vector<std::string> const th{"thorough"};
    using I              = PartIndex;
    std::string const in = iname<I>();
    auto const tiers     = MC_ITYPE == 1 ? both : th;
    char const* const cn = MC_SLICE == 0 ? "array" : (MC_SLICE == 1 ? "static_vector" : "checked_vec");
    m.job(cat("mdarray/", in, "/", cn, "/rank0-2"), tiers, [](mc::Reporter& r) {
        job_ma<I, 0>(r);
        job_ma<I, 1>(r);
        job_ma<I, 2>(r);
    });
    m.job(cat("mdarray/", in, "/", cn, "/rank3"), tiers, [](mc::Reporter& r) { job_ma<I, 3>(r); });
    return m.run();
}
