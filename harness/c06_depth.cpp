// C02 (through C06's algorithms): the stack depth of an algorithm must not grow linearly with the length of the range.
// Added after a genuine defect found by the thorough tier of C02: etl::rotate called itself on the remainder, once per
// element when rotating by one position from the back; inserting at the front of a 65533-element static_vector
// overflowed the stack in every build without tail-call optimisation (fix 911b937).  The small-scope sweeps can not
// see this class of defect, and at -O2 the tail call becomes a jump.
// Enumerated: every algorithm of <etl/algorithm.hpp> / <etl/numeric.hpp> that works on a whole range x the input
// shapes {ascending, descending, all equal, organ pipe, one element out of place at the front / at the back} of
// N = 30000 ints (rotate: every rotation point in {1, 2, N/2, N-2, N-1}); each call runs in a forked child whose stack
// is limited to 192 KiB (RLIMIT_STACK), so a recursion deeper than a few thousand frames dies with SIGSEGV; the
// result of the call is compared with the std algorithm in the parent through a checksum written to a pipe.
// Run in the flavours without sibling-call optimisation (O0) and with it (nochk) - the second one only checks results.
#include "mc.hpp"

#include <etl/algorithm.hpp>
#include <etl/functional.hpp>
#include <etl/numeric.hpp>

#include <algorithm>
#include <cstring>
#include <numeric>
#include <string>
#include <vector>

#include <sys/resource.h>
#include <sys/wait.h>
#include <unistd.h>

using mc::cat;

namespace {

constexpr int N = 30000;

std::vector<int> shape(int k)
{
    std::vector<int> v(N);
    switch (k) {
    case 0: std::iota(v.begin(), v.end(), 0); break;
    case 1:
        std::iota(v.begin(), v.end(), 0);
        std::reverse(v.begin(), v.end());
        break;
    case 2: std::fill(v.begin(), v.end(), 7); break;
    case 3:
        for (int i = 0; i < N; ++i) { v[std::size_t(i)] = i < N / 2 ? i : N - i; }
        break;
    case 4:
        std::iota(v.begin(), v.end(), 1);
        v[0] = N + 5;
        break;
    default:
        std::iota(v.begin(), v.end(), 1);
        v[N - 1] = 0;
        break;
    }
    return v;
}
char const* shape_name(int k)
{
    char const* n[] = {"ascending", "descending", "all equal", "organ pipe", "largest element first", "smallest element last"};
    return n[k];
}

std::uint64_t checksum(std::vector<int> const& v, long extra)
{
    std::uint64_t h = 1469598103934665603ULL ^ std::uint64_t(extra);
    for (int x : v) { h = (h ^ std::uint64_t(std::uint32_t(x))) * 1099511628211ULL; }
    return h;
}

struct Alg {
    char const* name;
    bool quadratic; // documented O(n^2) sorts run on a shorter range
    long (*etl_fn)(std::vector<int>&, int);
    long (*std_fn)(std::vector<int>&, int);
};

#define ALG(NAME, QUAD, EBODY, SBODY)                                                                                                                                          \
    Alg                                                                                                                                                                        \
    {                                                                                                                                                                          \
        NAME, QUAD, [](std::vector<int>& v, int p) -> long { (void)p; int* const B = v.data(); int* const E = B + v.size(); (void)B; (void)E; EBODY },                         \
            [](std::vector<int>& v, int p) -> long { (void)p; int* const B = v.data(); int* const E = B + v.size(); (void)B; (void)E; SBODY }                                      \
    }

// p = an interesting position derived from the parameter index
Alg const algs[] = {
    ALG("rotate(first,n_first,last)", false, return etl::rotate(B, B + p, E) - B;, return std::rotate(B, B + p, E) - B;),
    ALG("reverse(first,last)", false, etl::reverse(B, E); return 0;, std::reverse(B, E); return 0;),
    ALG("stable_partition(first,last,pred)", false, return etl::stable_partition(B, E, [](int x) { return x % 2 == 0; }) - B;
        , return std::stable_partition(B, E, [](int x) { return x % 2 == 0; }) - B;),
    ALG("partition(first,last,pred)", false, auto it = etl::partition(B, E, [](int x) { return x % 2 == 0; }); std::sort(B, it); std::sort(it, E); return it - B;
        , auto it = std::partition(B, E, [](int x) { return x % 2 == 0; }); std::sort(B, it); std::sort(it, E); return it - B;),
    ALG("inplace_merge(first,mid,last)", false, std::sort(B, B + p); std::sort(B + p, E); etl::inplace_merge(B, B + p, E); return 0;
        , std::sort(B, B + p); std::sort(B + p, E); std::inplace_merge(B, B + p, E); return 0;),
    ALG("sort(first,last)", true, etl::sort(B, E); return 0;, std::sort(B, E); return 0;),
    ALG("stable_sort(first,last)", true, etl::stable_sort(B, E); return 0;, std::stable_sort(B, E); return 0;),
    ALG("merge_sort(first,last)", false, etl::merge_sort(B, E); return 0;, std::stable_sort(B, E); return 0;),
    ALG("partial_sort(first,mid,last)", true, etl::partial_sort(B, B + p, E); std::sort(B + p, E); return 0;
        , std::partial_sort(B, B + p, E); std::sort(B + p, E); return 0;),
    ALG("nth_element(first,nth,last)", true, etl::nth_element(B, B + (p % int(v.size())), E); long r = v[std::size_t(p) % v.size()]; std::sort(B, E); return r;
        , std::nth_element(B, B + (p % int(v.size())), E); long r = v[std::size_t(p) % v.size()]; std::sort(B, E); return r;),
    ALG("unique(first,last)", false, return etl::unique(B, E) - B;, return std::unique(B, E) - B;),
    ALG("remove(first,last,value)", false, auto it = etl::remove(B, E, 7); std::fill(it, E, 0); return it - B;
        , auto it = std::remove(B, E, 7); std::fill(it, E, 0); return it - B;),
    ALG("shift_left(first,last,n)", false, auto it = etl::shift_left(B, E, p); std::fill(it, E, 0); return it - B;
        , auto it = std::shift_left(B, E, p); std::fill(it, E, 0); return it - B;),
    ALG("search(first,last,s_first,s_last)", false, return etl::search(B, E, E - 3, E) - B;, return std::search(B, E, E - 3, E) - B;),
    ALG("find_end(first,last,s_first,s_last)", false, return etl::find_end(B, E, B, B + 3) - B;, return std::find_end(B, E, B, B + 3) - B;),
    ALG("is_permutation(first1,last1,first2)", true, std::vector<int> w(v.rbegin(), v.rend()); return long(etl::is_permutation(B, E, w.data()));
        , std::vector<int> w(v.rbegin(), v.rend()); return long(std::is_permutation(B, E, w.data()));),
    ALG("accumulate + partial_sum", false, std::vector<int> o(v.size()); etl::partial_sum(B, E, o.begin()); long s = etl::accumulate(B, E, 0L); v = o; return s;
        , std::vector<int> o(v.size()); std::partial_sum(B, E, o.begin()); long s = std::accumulate(B, E, 0L); v = o; return s;),
};
constexpr int positions[] = {1, 2, N / 2, N - 2, N - 1};

struct Outcome {
    int status;          // 0 ok, else the signal that killed the child / 1000 + exit code
    std::uint64_t sum;
};

Outcome run_limited(Alg const& a, std::vector<int> input, int p, bool limit)
{
    int fd[2];
    if (pipe(fd) != 0) { return {-1, 0}; }
    pid_t const pid = fork();
    if (pid == 0) {
        close(fd[0]);
        if (limit) {
            rlimit rl{192 * 1024, 192 * 1024};
            setrlimit(RLIMIT_STACK, &rl);
        }
        // default signal dispositions: a stack overflow must kill the child, not reach the harness' handlers
        for (int s : {SIGSEGV, SIGBUS, SIGABRT, SIGFPE, SIGILL}) { signal(s, SIG_DFL); }
        long const r          = a.etl_fn(input, p);
        std::uint64_t const h = checksum(input, r);
        ssize_t const w       = write(fd[1], &h, sizeof h);
        _exit(w == ssize_t(sizeof h) ? 0 : 3);
    }
    close(fd[1]);
    std::uint64_t h = 0;
    ssize_t const n = read(fd[0], &h, sizeof h);
    close(fd[0]);
    int st = 0;
    waitpid(pid, &st, 0);
    if (WIFSIGNALED(st)) { return {WTERMSIG(st), 0}; }
    if (!WIFEXITED(st) || WEXITSTATUS(st) != 0 || n != ssize_t(sizeof h)) { return {1000 + (WIFEXITED(st) ? WEXITSTATUS(st) : 99), 0}; }
    return {0, h};
}

void depth_job(mc::Reporter& r, bool limit)
{
    std::uint64_t ev = 0;
    for (auto const& a : algs) {
        for (int k = 0; k < 6; ++k) {
            auto input = shape(k);
            if (a.quadratic) { input.resize(3000); } // still > 2000 frames if it recursed per element
            for (int p : positions) {
                int const pp = std::min<int>(p, int(input.size()) - 1);
                if (std::string(a.name).find("rotate") == std::string::npos && std::string(a.name).find("inplace_merge") == std::string::npos
                    && std::string(a.name).find("partial_sort") == std::string::npos && std::string(a.name).find("nth_element") == std::string::npos
                    && std::string(a.name).find("shift_left") == std::string::npos && p != positions[0]) {
                    continue; // the position parameter does not matter for this algorithm
                }
                auto ref       = input;
                long const rr  = a.std_fn(ref, pp);
                auto const want = checksum(ref, rr);
                Outcome const o = run_limited(a, input, pp, limit);
                ++ev;
                r.outcome(mc::hash_str(cat(a.name, k)));
                std::string const kase = cat(a.name, " on ", input.size(), " ints, ", shape_name(k), ", position ", pp, limit ? ", stack limited to 192 KiB" : "");
                if (o.status != 0) {
                    r.violation("C02", a.name, limit ? "stack_depth_grows_with_range_length" : "crash_on_long_range", kase,
                        o.status < 1000 ? cat("the call died with signal ", o.status, limit ? " under a 192 KiB stack: recursion depth linear in the range length" : "") : cat("child exit status ", o.status - 1000));
                } else if (o.sum != want) {
                    r.violation("C06", a.name, "long_range", kase, "result (range contents + return value) differs from the std algorithm");
                }
            }
        }
    }
    r.sample(cat(sizeof(algs) / sizeof(algs[0]), " algorithms x 6 input shapes (x 5 positions where one matters) of 30000 ints (3000 for the quadratic sorts), each in a forked child", limit ? " with RLIMIT_STACK = 192 KiB" : ""));
    r.count("evaluations", ev);
    r.count("distinct_nontrivial", ev);
}

} // namespace

int main(int argc, char** argv)
{
    mc::Main m(argc, argv);
#if defined(__OPTIMIZE__)
    m.job("depth/results-on-long-ranges", {"quick", "thorough"}, [](mc::Reporter& r) { depth_job(r, false); });
#else
    m.job("depth/limited-stack", {"quick", "thorough"}, [](mc::Reporter& r) { depth_job(r, true); });
#endif
    return m.run();
}
