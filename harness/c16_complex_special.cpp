// C16, complex: special values and the arithmetic operators (the grid of c16_complex.cpp has finite, moderate values only and
// no operator at all).  complex<float>, complex<double>, complex<long double>.
//   SV = {+0, -0, denorm_min, 0.5, 1, -1, -2, max, -max, +inf, -inf, NaN}  (both parts: SV x SV)
//   * abs, arg, norm against std::complex: NaN / +-inf exactly where std has them, value within 4 eps (arg: float/double,
//     the long double atan2 is judged in c16_overloads.cpp); conj, real, imag bit for bit; the scalar overloads
//     conj(x), real(x), imag(x) (floating and integral x) bit for bit against std ([cmplx.over]);
//   * polar(rho, theta) for rho in {+0, denorm_min, 0.5, 1, 2, max, +inf} (the standard requires rho >= 0, not NaN) and 19 finite
//     theta, and polar(rho): against std::polar, same rule (long double: finite rho, no denormal theta, bound 2^-40 of rho:
//     gcem's series);
//   * ==, != for complex/complex, complex/scalar, scalar/complex over SV^4 / SV^3 against the definition;
//   * +, - (all three operand mixes, unary): component values against std::complex (zero signs not compared: the
//     standard defines T - complex as complex(T) -= complex, libstdc++ negates the imaginary part);
//   * complex * T, complex / T (T != 0): component-wise scaling ([complex.member.ops]: "scales" / "divides" the value by
//     the scalar) over SV x SV x SV; T * complex, T / complex over the finite part;
//   * complex * complex, complex / complex: MV^4 with MV = {+-0, +-0.5, +-1, +-2, 1.5, 3, 1e-3, 10, +-inf, NaN} against the
//     textbook formula evaluated in the next wider type: a component that the formula defines (not NaN) must have the
//     same class (inf with sign / finite) and finite results must agree within 4 eps (product) / 8 eps (quotient) of
//     the modulus; the quotient additionally over XV^4, XV = {+-tiny, +-1, +-huge} (tiny = 2^(min_exponent/2-8),
//     huge = 2^(max_exponent/2+8)): operands whose squares leave the range of T although the quotient is representable.
#include "c16_common.hpp"

#include <etl/cmath.hpp>
#include <etl/complex.hpp>

#include <complex>

using namespace c16;
using mc::cat;
using LD = long double;

namespace {

template <typename T>
using wide_t = std::conditional_t<std::is_same_v<T, float>, double, LD>;

template <typename T>
char const* tname()
{
    if constexpr (std::is_same_v<T, float>) { return "float"; }
    if constexpr (std::is_same_v<T, double>) { return "double"; }
    if constexpr (std::is_same_v<T, LD>) { return "long double"; }
    if constexpr (std::is_same_v<T, int>) { return "int"; }
    if constexpr (std::is_same_v<T, long long>) { return "long long"; }
    if constexpr (std::is_same_v<T, unsigned>) { return "unsigned"; }
    return "?";
}
template <typename T>
std::string shw(T v)
{
    if constexpr (std::is_floating_point_v<T>) {
        char b[64];
        std::snprintf(b, sizeof b, "%Lg", static_cast<LD>(v));
        if (v == 0 && std::signbit(v)) { return "-0"; }
        return b;
    } else {
        return std::to_string(v);
    }
}
template <typename T>
std::string shz(T re, T im)
{
    return cat("(", shw(re), ",", shw(im), ")");
}
template <typename T>
char const* c3(T v)
{
    if (v != v) { return "nan"; }
    if (std::isinf(v)) { return v > 0 ? "+inf" : "-inf"; }
    if (v == 0) { return std::signbit(v) ? "-0" : "+0"; }
    return v < 0 ? "-fin" : "+fin";
}
template <typename T>
std::string zc(T re, T im)
{
    return cat(c3(re), "|", c3(im));
}
template <typename T>
bool same_bits(T a, T b)
{
    if (a != a || b != b) { return (a != a) && (b != b); }
    return a == b && std::signbit(a) == std::signbit(b);
}
/// same value: both NaN, or equal (zeros of either sign are equal)
template <typename T>
bool same_value(T a, T b)
{
    if (a != a || b != b) { return (a != a) && (b != b); }
    return a == b;
}
template <typename T>
T launder(T v)
{
    volatile T x = v;
    return x;
}
template <typename T>
std::vector<T> special_values()
{
    using L = std::numeric_limits<T>;
    return {T(0), -T(0), L::denorm_min(), T(0.5), T(1), T(-1), T(-2), L::max(), -L::max(), L::infinity(), -L::infinity(), L::quiet_NaN()};
}

// unqualified (ADL) so that the probe is a substitution failure, not a lookup error
template <typename Z>
inline constexpr bool has_proj = requires(Z z) { proj(z); };

struct Ctx {
    mc::Reporter& r;
    u64 evals{0}, nontrivial{0}, skipped{0};
    void flush()
    {
        r.count("evaluations", evals);
        r.count("distinct_nontrivial", nontrivial);
        r.count("out_of_domain_skipped", skipped);
    }
};

/// scalar result against std: NaN/inf class exact, finite within `eps_bound` * epsilon (denominator floored at min)
/// own_series: the tetl side runs gcem's series for long double (double-precision constants): bound 2^-40 as in
/// c16_overloads.cpp part B instead of a few eps
template <typename T>
char const* judge_real(T got, T want, int eps_bound, bool own_series = false)
{
    if (want != want) { return got != got ? nullptr : "nan_mismatch"; }
    if (got != got) { return "nan_mismatch"; }
    if (std::isinf(want)) { return (std::isinf(got) && (got > 0) == (want > 0)) ? nullptr : "inf_mismatch"; }
    if (std::isinf(got)) { return "inf_mismatch"; }
    using L     = std::numeric_limits<T>;
    T const den = std::fabs(want) > L::min() ? std::fabs(want) : L::min();
    T const bound = (own_series && std::is_same_v<T, LD>) ? T(0x1p-40L) : T(eps_bound) * L::epsilon();
    return std::fabs(got - want) / den <= bound ? nullptr : "tolerance";
}
/// magnitude class of a complex argument (one root cause = one class): special parts by kind, finite ones by size
template <typename T>
std::string zmag(T re, T im)
{
    using L = std::numeric_limits<T>;
    if (!std::isfinite(re) || !std::isfinite(im)) { return zc(re, im); }
    T const a = std::fabs(re) > std::fabs(im) ? std::fabs(re) : std::fabs(im);
    T const b = std::fabs(re) > std::fabs(im) ? std::fabs(im) : std::fabs(re);
    if (a == 0) { return "zero"; }
    if (a > std::sqrt(L::max()) / 2) { return "large_magnitude"; }
    if (a < std::sqrt(L::min()) * 2 || (b != 0 && b < std::sqrt(L::min()) * 2)) { return "small_magnitude"; }
    return "moderate";
}

// ---------------------------------------------------------------------------------------
// abs, arg, norm, conj, real, imag, polar
// ---------------------------------------------------------------------------------------
template <typename T>
void value_functions(Ctx& c)
{
    auto const SV        = special_values<T>();
    std::string const tn = tname<T>();
    for (T vre : SV) {
        for (T vim : SV) {
            T const re = launder(vre), im = launder(vim);
            etl::complex<T> const z(re, im);
            std::complex<T> const s(re, im);
            auto const kase = [&](char const* f) { return cat("etl::", f, "(complex<", tn, ">", shz(re, im), ")"); };
            bool const nontrivial = re == re && im == im && !std::isinf(re) && !std::isinf(im) && (re != 0 || im != 0);
            auto count            = [&] {
                ++c.evals;
                if (nontrivial) { ++c.nontrivial; }
            };
            if (c.r.want("etl::abs(complex)")) {
                count();
                T const got = etl::abs(z), want = std::abs(s);
                if (auto rule = judge_real(got, want, 4)) { c.r.violation("C16", "etl::abs(complex)", cat(rule, ":", zmag(re, im)), kase("abs"), cat("tetl=", shw(got), " std=", shw(want))); }
                c.r.outcome(mc::hash_str(cat("abs", tn, shw(want))));
            }
            if constexpr (!std::is_same_v<T, LD>) {
                if (c.r.want("etl::arg(complex)")) {
                    count();
                    T const got = etl::arg(z), want = std::arg(s);
                    if (auto rule = judge_real(got, want, 4)) { c.r.violation("C16", "etl::arg(complex)", cat(rule, ":", zc(re, im)), kase("arg"), cat("tetl=", shw(got), " std=", shw(want))); }
                    c.r.outcome(mc::hash_str(cat("arg", tn, shw(want))));
                }
            }
            if (c.r.want("etl::norm(complex)")) {
                // max * max overflows in both; the finite results are x*x + y*y in both
                count();
                T const got = etl::norm(z), want = std::norm(s);
                if (auto rule = judge_real(got, want, 4)) { c.r.violation("C16", "etl::norm(complex)", cat(rule, ":", zmag(re, im)), kase("norm"), cat("tetl=", shw(got), " std=", shw(want))); }
            }
            if (c.r.want("etl::conj(complex)")) {
                count();
                auto const got  = etl::conj(z);
                auto const want = std::conj(s);
                if (!same_bits(got.real(), want.real()) || !same_bits(got.imag(), want.imag())) {
                    c.r.violation("C16", "etl::conj(complex)", zc(re, im), kase("conj"), cat("tetl=", shz(got.real(), got.imag()), " std=", shz(want.real(), want.imag())));
                }
            }
            if (c.r.want("etl::real(complex)")) {
                count();
                if (!same_bits(etl::real(z), re) || !same_bits(etl::imag(z), im) || !same_bits(z.real(), re) || !same_bits(z.imag(), im)) {
                    c.r.violation("C16", "etl::real(complex)", zc(re, im), kase("real/imag"), cat("real=", shw(etl::real(z)), " imag=", shw(etl::imag(z))));
                }
            }
        }
    }
    c.r.sample(cat("abs/arg/norm/conj/real/imag of complex<", tn, "> over SV x SV (", SV.size() * SV.size(), " values), e.g. abs(inf,nan)=", shw(etl::abs(etl::complex<T>(SV[9], SV[11])))));
}

/// the scalar overloads of [cmplx.over]
template <typename X>
void scalar_overloads(Ctx& c, std::vector<X> const& values)
{
    std::string const tn = tname<X>();
    for (X v : values) {
        X const x = launder(v);
        // conj(x) -> complex<promoted>; real(x), imag(x) -> promoted
        if (c.r.want("etl::conj(scalar)")) {
            ++c.evals;
            ++c.nontrivial;
            auto const got  = etl::conj(x);
            auto const want = std::conj(x);
            using G         = typename std::remove_cv_t<decltype(got)>::value_type;
            using W         = typename std::remove_cv_t<decltype(want)>::value_type;
            if constexpr (!std::is_same_v<G, W>) {
                c.r.note(cat("API deviation: etl::conj(", tn, ") has value_type ", tname<G>(), ", std::conj has ", tname<W>()));
            } else if (!same_bits(got.real(), want.real()) || !same_bits(got.imag(), want.imag())) {
                c.r.violation("C16", "etl::conj(scalar)", "scalar_argument", cat("etl::conj(", tn, " ", shw(x), ")"), cat("tetl=", shz(got.real(), got.imag()), " std=", shz(want.real(), want.imag()), " ([cmplx.over]: as if the argument were complex(x, 0))"));
            }
        }
        if (c.r.want("etl::real(scalar)")) {
            ++c.evals;
            auto const gr = etl::real(x);
            auto const wr = std::real(x);
            auto const gi = etl::imag(x);
            auto const wi = std::imag(x);
            if constexpr (!std::is_same_v<decltype(gr), decltype(wr)> || !std::is_same_v<decltype(gi), decltype(wi)>) {
                c.r.note(cat("API deviation: etl::real/imag(", tn, ") return type differs from std"));
            } else if (!same_bits(gr, wr) || !same_bits(gi, wi)) {
                c.r.violation("C16", "etl::real(scalar)", c3(static_cast<LD>(x)), cat("etl::real/imag(", tn, " ", shw(x), ")"), cat("tetl=", shw(gr), ",", shw(gi), " std=", shw(wr), ",", shw(wi)));
            }
        }
        // arg(x), norm(x): std returns the promoted real type; tetl returns complex<> (noted, values compared)
        if (c.r.want("etl::arg(scalar)")) {
            ++c.evals;
            auto const ga = etl::arg(x);
            auto const wa = std::arg(x);
            auto const gn = etl::norm(x);
            auto const wn = std::norm(x);
            using W       = std::remove_cv_t<decltype(wa)>;
            W gav{}, gnv{};
            if constexpr (std::is_arithmetic_v<std::remove_cv_t<decltype(ga)>>) {
                gav = ga;
                gnv = gn;
            } else {
                static bool noted = false;
                if (!noted) { c.r.note(cat("API deviation: etl::arg(", tn, ") / etl::norm(", tn, ") return etl::complex<> where std returns the real type; real part compared")); }
                noted = true;
                gav   = static_cast<W>(ga.real());
                gnv   = static_cast<W>(gn.real());
                if (ga.imag() != 0 || gn.imag() != 0) { c.r.violation("C16", "etl::arg(scalar)", "imaginary_part", cat("etl::arg/norm(", tn, " ", shw(x), ")"), "non-zero imaginary part"); }
            }
            if (auto rule = judge_real(gav, wa, 4, true)) { c.r.violation("C16", "etl::arg(scalar)", cat(rule, ":", c3(static_cast<LD>(x))), cat("etl::arg(", tn, " ", shw(x), ")"), cat("tetl=", shw(gav), " std=", shw(wa))); }
            if (auto rule = judge_real(gnv, wn, 4)) { c.r.violation("C16", "etl::norm(scalar)", cat(rule, ":", c3(static_cast<LD>(x))), cat("etl::norm(", tn, " ", shw(x), ")"), cat("tetl=", shw(gnv), " std=", shw(wn))); }
        }
    }
}

template <typename T>
void polar(Ctx& c)
{
    using L                   = std::numeric_limits<T>;
    std::string const subject = "etl::polar";
    if (!c.r.want(subject)) { return; }
    // long double: cos/sin are gcem's series (absolute error about 1e-16, sin(tiny) = 0 is a known finding): finite rho,
    // no denormal theta, bound 2^-40 of rho
    constexpr bool own          = std::is_same_v<T, LD>;
    std::vector<T> rhos         = {T(0), L::denorm_min(), T(0.5), T(1), T(2), L::max()};
    std::vector<T> thetas       = {T(0), -T(0)};
    if (!own) {
        rhos.push_back(L::infinity());
        thetas.push_back(L::denorm_min());
    }
    T const rel_bound = own ? T(0x1p-40L) : 4 * L::epsilon();
    for (T m : {T(0.5), T(1), T(1.5707963267948966192L), T(3), T(3.14159265358979323846L), T(4), T(10), T(1e5L)}) {
        if (own && m > T(100)) { continue; } // gcem's argument reduction for large arguments: known finding (gcem::sin, large)
        thetas.push_back(m);
        thetas.push_back(-m);
    }
    for (T vr : rhos) {
        for (T vt : thetas) {
            T const rho = launder(vr), theta = launder(vt);
            auto const got  = etl::polar(rho, theta);
            auto const want = std::polar(rho, theta);
            ++c.evals;
            if (rho != 0 && !std::isinf(rho) && theta != 0) { ++c.nontrivial; }
            // components judged against the modulus: class exact, finite parts within 4 eps of rho
            auto part = [&](T g, T w) -> char const* {
                if (w != w) { return g != g ? nullptr : "nan_mismatch"; }
                if (g != g) { return "nan_mismatch"; }
                if (std::isinf(w)) { return (std::isinf(g) && (g > 0) == (w > 0)) ? nullptr : "inf_mismatch"; }
                if (std::isinf(g)) { return "inf_mismatch"; }
                T const den = rho > L::min() ? rho : L::min();
                return std::fabs(g - w) / den <= rel_bound ? nullptr : "tolerance";
            };
            char const* rule = part(got.real(), want.real());
            if (rule == nullptr) { rule = part(got.imag(), want.imag()); }
            if (rule != nullptr) {
                c.r.violation("C16", subject, cat(rule, ":rho=", c3(rho), rho == L::max() ? "max" : "", ",theta=", c3(theta)), cat("etl::polar(", tname<T>(), " ", shw(rho), ", ", shw(theta), ")"),
                    cat("tetl=", shz(got.real(), got.imag()), " std=", shz(want.real(), want.imag())));
            }
            c.r.outcome(mc::hash_str(cat("polar", tname<T>(), shw(want.real()))));
        }
        // one-argument form
        T const rho     = launder(vr);
        auto const got1 = etl::polar(rho);
        ++c.evals;
        if (!same_value(got1.real(), rho) || !(got1.imag() == 0 || (std::isinf(rho) && got1.imag() != got1.imag()))) {
            c.r.violation("C16", subject, cat("default_theta:rho=", c3(rho)), cat("etl::polar(", tname<T>(), " ", shw(rho), ")"), cat("tetl=", shz(got1.real(), got1.imag()), " expected (rho, 0)"));
        }
    }
    c.r.sample(cat("etl::polar(", tname<T>(), ") over ", rhos.size(), " x ", thetas.size(), " (rho, theta), e.g. polar(2, pi/2) = ", shz(etl::polar(T(2), T(1.5707963267948966192L)).real(), etl::polar(T(2), T(1.5707963267948966192L)).imag())));
}

// ---------------------------------------------------------------------------------------
// ==, !=, +, -
// ---------------------------------------------------------------------------------------
template <typename T>
void compare_add_sub(Ctx& c)
{
    auto const SV        = special_values<T>();
    std::string const tn = tname<T>();
    bool const eq        = c.r.want("etl::complex::operator==");
    bool const ad        = c.r.want("etl::complex::operator+");
    for (T va : SV) {
        for (T vb : SV) {
            for (T vc : SV) {
                T const a = launder(va), b = launder(vb), t = launder(vc);
                etl::complex<T> const z(a, b);
                std::complex<T> const sz(a, b);
                auto const k3 = [&](char const* op) { return cat("complex<", tn, ">", shz(a, b), " ", op, " ", tn, " ", shw(t)); };
                if (eq) {
                    // complex == scalar, scalar == complex, != both ways
                    bool const want = (a == t) && (b == T(0));
                    ++c.evals;
                    ++c.nontrivial;
                    bool const g1 = (z == t), g2 = (t == z), g3 = !(z != t), g4 = !(t != z);
                    if (g1 != want || g2 != want || g3 != want || g4 != want) {
                        c.r.violation("C16", "etl::complex::operator==", cat("scalar:", zc(a, b), ",", c3(t)), k3("=="), cat("z==t:", g1, " t==z:", g2, " !(z!=t):", g3, " !(t!=z):", g4, " expected ", want));
                    }
                }
                if (ad) {
                    ++c.evals;
                    if (a == a && b == b && t == t) { ++c.nontrivial; }
                    auto chk = [&](char const* op, etl::complex<T> g, std::complex<T> w) {
                        if (!same_value(g.real(), w.real()) || !same_value(g.imag(), w.imag())) {
                            c.r.violation("C16", "etl::complex::operator+", cat("scalar", op, ":", zc(a, b), ",", c3(t)), k3(op), cat("tetl=", shz(g.real(), g.imag()), " std=", shz(w.real(), w.imag())));
                        }
                    };
                    chk("+", z + t, sz + t);
                    chk("-", z - t, sz - t);
                    chk("+rev", t + z, t + sz);
                    chk("-rev", t - z, t - sz);
                    auto zz = z;
                    zz += t;
                    chk("+=", zz, sz + t);
                    zz = z;
                    zz -= t;
                    chk("-=", zz, sz - t);
                }
                for (T vd : SV) {
                    T const d = launder(vd);
                    etl::complex<T> const w(t, d);
                    std::complex<T> const sw(t, d);
                    if (eq) {
                        bool const want = (a == t) && (b == d);
                        ++c.evals;
                        bool const g1 = (z == w), g2 = !(z != w);
                        if (g1 != want || g2 != want) {
                            c.r.violation("C16", "etl::complex::operator==", cat(zc(a, b), ",", zc(t, d)), cat("complex<", tn, ">", shz(a, b), " == ", shz(t, d)), cat("z==w:", g1, " !(z!=w):", g2, " expected ", want));
                        }
                    }
                    if (ad) {
                        ++c.evals;
                        auto chk = [&](char const* op, etl::complex<T> g, std::complex<T> wnt) {
                            if (!same_value(g.real(), wnt.real()) || !same_value(g.imag(), wnt.imag())) {
                                c.r.violation("C16", "etl::complex::operator+", cat(op, ":", zc(a, b), ",", zc(t, d)), cat("complex<", tn, ">", shz(a, b), " ", op, " ", shz(t, d)), cat("tetl=", shz(g.real(), g.imag()), " std=", shz(wnt.real(), wnt.imag())));
                            }
                        };
                        chk("+", z + w, sz + sw);
                        chk("-", z - w, sz - sw);
                    }
                }
            }
            if (ad) {
                T const a = launder(va), b = launder(vb);
                etl::complex<T> const z(a, b);
                auto const n = -z;
                auto const p = +z;
                ++c.evals;
                if (!same_bits(n.real(), -a) || !same_bits(n.imag(), -b) || !same_bits(p.real(), a) || !same_bits(p.imag(), b)) {
                    c.r.violation("C16", "etl::complex::operator+", cat("unary:", zc(a, b)), cat("-complex<", tn, ">", shz(a, b)), cat("tetl=", shz(n.real(), n.imag())));
                }
            }
        }
        c.r.outcome(mc::hash_str(cat("cmp", tn, shw(va))));
    }
    c.r.sample(cat("==, !=, +, - of complex<", tn, "> over SV^4 (complex, complex) and SV^3 (complex, scalar), SV = 12 special values"));
}

// ---------------------------------------------------------------------------------------
// *, /
// ---------------------------------------------------------------------------------------
/// argument class of complex (a,b) scaled by t: which operand is special
template <typename T>
char const* scale_class(T a, T b, T t)
{
    using L = std::numeric_limits<T>;
    if (!std::isfinite(a) || !std::isfinite(b)) { return "part_inf_or_nan"; }
    if (!std::isfinite(t)) { return "scalar_inf_or_nan"; }
    T const m = std::fabs(t);
    if (m >= std::sqrt(L::max())) { return "scalar_square_overflows"; }
    if (m != 0 && m <= std::sqrt(L::min())) { return "scalar_square_underflows"; }
    if (a == 0 || b == 0 || t == 0) { return "zero_operand"; }
    return "finite";
}

template <typename T>
void scale(Ctx& c)
{
    auto const SV             = special_values<T>();
    std::string const tn      = tname<T>();
    std::string const subject  = "etl::complex::operator*=(scalar)";
    std::string const dsubject = "etl::complex::operator/=(scalar)";
    if (!c.r.want(subject) && !c.r.want(dsubject)) { return; }
    for (T va : SV) {
        for (T vb : SV) {
            for (T vt : SV) {
                T const a = launder(va), b = launder(vb), t = launder(vt);
                etl::complex<T> const z(a, b);
                auto chk = [&](char const* op, etl::complex<T> g, T wr, T wi) {
                    ++c.evals;
                    if (a == a && b == b && t == t && !std::isinf(a) && !std::isinf(b) && !std::isinf(t)) { ++c.nontrivial; }
                    if (!same_value(g.real(), wr) || !same_value(g.imag(), wi)) {
                        c.r.violation("C16", op[0] == '/' ? dsubject : subject, scale_class(a, b, t), cat("complex<", tn, ">", shz(a, b), " ", op, " ", tn, " ", shw(t)), cat("tetl=", shz(g.real(), g.imag()), " component-wise: ", shz(wr, wi)));
                    }
                };
                // [complex.member.ops]: operator*=(T) scales, operator/=(T) divides the value by the scalar
                volatile T mr = a * t, mi = b * t;
                chk("*", z * t, mr, mi);
                auto zz = z;
                zz *= t;
                chk("*=", zz, mr, mi);
                if (t != 0 && t == t) {
                    volatile T dr = a / t, di = b / t;
                    chk("/", z / t, dr, di);
                    zz = z;
                    zz /= t;
                    chk("/=", zz, dr, di);
                }
                // scalar * complex = complex(scalar) *= complex: the same values as long as everything is finite
                if (std::isfinite(a) && std::isfinite(b) && std::isfinite(t) && std::isfinite(T(mr)) && std::isfinite(T(mi))) { chk("*rev", t * z, mr, mi); }
            }
        }
        c.r.outcome(mc::hash_str(cat("scale", tn, shw(va))));
    }
    c.r.sample(cat("complex<", tn, "> * scalar, / scalar over SV^3, e.g. (inf,1) * 2 = ", shz((etl::complex<T>(SV[9], T(1)) * T(2)).real(), (etl::complex<T>(SV[9], T(1)) * T(2)).imag())));
}

template <typename T>
void mul_div(Ctx& c)
{
    using H                   = wide_t<T>;
    using L                   = std::numeric_limits<T>;
    std::string const tn      = tname<T>();
    std::string const msub    = "etl::complex::operator*";
    std::string const dsub    = "etl::complex::operator/";
    T const inf               = L::infinity();
    std::vector<T> const MV   = {T(0), -T(0), T(0.5), T(-0.5), T(1), T(-1), T(2), T(-2), T(1.5), T(3), T(1e-3L), T(10), inf, -inf, L::quiet_NaN()};
    T const tiny              = std::ldexp(T(1), L::min_exponent / 2 - 8); // tiny^2 underflows to zero
    T const huge              = std::ldexp(T(1), L::max_exponent / 2 + 8); // huge^2 overflows
    std::vector<T> const XV   = {tiny, -tiny, T(1), T(-1), huge, -huge};
    auto magclass             = [&](T a, T b, T cc, T d) {
        bool big = false, small = false, special = false;
        for (T v : {a, b, cc, d}) {
            if (v != v || std::isinf(v)) { special = true; }
            T const m = std::fabs(v);
            big       = big || (m >= huge && !std::isinf(v));
            small     = small || (m != 0 && m <= tiny);
        }
        return special ? "inf_or_nan_operand" : big ? (small ? "huge+tiny" : "huge") : small ? "tiny" : "moderate";
    };
    // judges one complex result against the reference in H
    auto judge = [&](T gr, T gi, H wr, H wi, bool finite_operands, int bound) -> char const* {
        auto cls = [](auto g, auto w) -> char const* {
            if (w != w) { return nullptr; } // the formula leaves this component undefined
            if (std::isinf(w)) { return (std::isinf(g) && (g > 0) == (w > 0)) ? nullptr : "inf_mismatch"; }
            if (g != g) { return "nan_mismatch"; }
            if (std::isinf(g)) { return "inf_mismatch"; }
            return nullptr;
        };
        if (finite_operands && wr == wr && wi == wi && !std::isinf(wr) && !std::isinf(wi)) {
            // a quotient/product whose modulus leaves the normal range of T is not judged (inf / 0 / denormals are all fine)
            H const m0 = std::sqrt(wr * wr + wi * wi);
            if (m0 > H(L::max()) / 4 || (m0 != 0 && m0 < H(L::min()) * 4)) { return nullptr; }
        }
        if (auto r1 = cls(gr, wr)) { return r1; }
        if (auto r2 = cls(gi, wi)) { return r2; }
        if (!finite_operands || wr != wr || wi != wi || std::isinf(wr) || std::isinf(wi)) { return nullptr; }
        H const mod = std::sqrt(wr * wr + wi * wi);
        // results whose modulus leaves the normal range of T are not judged
        if (mod > H(L::max()) / 4 || (mod != 0 && mod < H(L::min()) * 4)) { return nullptr; }
        H const den = mod > H(L::min()) ? mod : H(L::min());
        H const dr = H(gr) - wr, di = H(gi) - wi;
        return std::sqrt(dr * dr + di * di) / den <= H(bound) * H(L::epsilon()) ? nullptr : "tolerance";
    };
    auto run = [&](std::vector<T> const& V, bool with_mul) {
        for (T va : V) {
            for (T vb : V) {
                for (T vc : V) {
                    for (T vd : V) {
                        T const a = launder(va), b = launder(vb), cc = launder(vc), d = launder(vd);
                        etl::complex<T> const z(a, b), w(cc, d);
                        bool const fin = std::isfinite(a) && std::isfinite(b) && std::isfinite(cc) && std::isfinite(d);
                        H const ha = a, hb = b, hc = cc, hd = d;
                        auto const kase = [&](char const* op) { return cat("complex<", tn, ">", shz(a, b), " ", op, " ", shz(cc, d)); };
                        if (with_mul && c.r.want(msub)) {
                            auto const g = z * w;
                            auto g2      = z;
                            g2 *= w;
                            H const wr = ha * hc - hb * hd, wi = ha * hd + hb * hc;
                            ++c.evals;
                            if (fin && (a != 0 || b != 0) && (cc != 0 || d != 0)) { ++c.nontrivial; }
                            if (auto rule = judge(g.real(), g.imag(), wr, wi, fin, 4)) {
                                c.r.violation("C16", msub, cat(rule, ":", magclass(a, b, cc, d)), kase("*"), cat("tetl=", shz(g.real(), g.imag()), " formula in ", tname<H>(), ": ", shz(wr, wi)));
                            }
                            if (!same_value(g.real(), g2.real()) || !same_value(g.imag(), g2.imag())) {
                                c.r.violation("C16", msub, cat("compound_differs:", magclass(a, b, cc, d)), kase("*="), cat("z*w=", shz(g.real(), g.imag()), " z*=w: ", shz(g2.real(), g2.imag())));
                            }
                        }
                        if (c.r.want(dsub)) {
                            if (cc == 0 && d == 0) {
                                ++c.skipped; // division by zero: not defined
                                continue;
                            }
                            auto const g = z / w;
                            auto g2      = z;
                            g2 /= w;
                            H const n  = hc * hc + hd * hd;
                            H const wr = (ha * hc + hb * hd) / n, wi = (hb * hc - ha * hd) / n;
                            ++c.evals;
                            if (fin && (a != 0 || b != 0)) { ++c.nontrivial; }
                            // operands with an infinite/NaN part: the quotient is not judged (the textbook formula gives NaN for x/inf,
                            // Annex G something else, C++ says nothing)
                            if (fin) {
                                if (auto rule = judge(g.real(), g.imag(), wr, wi, fin, 8)) {
                                    c.r.violation("C16", dsub, cat(rule, ":", magclass(a, b, cc, d)), kase("/"), cat("tetl=", shz(g.real(), g.imag()), " formula in ", tname<H>(), ": ", shz(wr, wi)));
                                }
                            } else {
                                ++c.skipped;
                            }
                            if (!same_value(g.real(), g2.real()) || !same_value(g.imag(), g2.imag())) {
                                c.r.violation("C16", dsub, cat("compound_differs:", magclass(a, b, cc, d)), kase("/="), cat("z/w=", shz(g.real(), g.imag()), " z/=w: ", shz(g2.real(), g2.imag())));
                            }
                        }
                    }
                }
            }
            c.r.outcome(mc::hash_str(cat("muldiv", tn, shw(va))));
        }
    };
    run(MV, true);
    if constexpr (!std::is_same_v<T, LD>) { run(XV, false); } // needs a wider type for the reference
    // scalar / complex on the finite moderate part
    if (c.r.want(dsub)) {
        for (T vt : MV) {
            for (T vc : MV) {
                for (T vd : MV) {
                    T const t = launder(vt), cc = launder(vc), d = launder(vd);
                    if (!std::isfinite(t) || !std::isfinite(cc) || !std::isfinite(d) || (cc == 0 && d == 0)) { continue; }
                    auto const g = t / etl::complex<T>(cc, d);
                    H const n = H(cc) * H(cc) + H(d) * H(d);
                    H const wr = H(t) * H(cc) / n, wi = -H(t) * H(d) / n;
                    ++c.evals;
                    if (auto rule = judge(g.real(), g.imag(), wr, wi, true, 8)) {
                        c.r.violation("C16", dsub, cat("scalar_by_complex:", rule), cat(tn, " ", shw(t), " / complex", shz(cc, d)), cat("tetl=", shz(g.real(), g.imag()), " formula: ", shz(wr, wi)));
                    }
                }
            }
        }
    }
    c.r.sample(cat("complex<", tn, "> * and / over MV^4 (", MV.size(), " values per part)", std::is_same_v<T, LD> ? "" : " and / over XV^4 (tiny, 1, huge)"));
}

template <typename T>
void all(mc::Reporter& r)
{
    Ctx c{r};
    value_functions<T>(c);
    polar<T>(c);
    compare_add_sub<T>(c);
    scale<T>(c);
    mul_div<T>(c);
    c.flush();
}

} // namespace

int main(int argc, char** argv)
{
    mc::Main m(argc, argv);
    m.job("complex-special/float", {"quick", "thorough"}, [](mc::Reporter& r) { all<float>(r); });
    m.job("complex-special/double", {"quick", "thorough"}, [](mc::Reporter& r) { all<double>(r); });
    m.job("complex-special/long double", {"quick", "thorough"}, [](mc::Reporter& r) { all<LD>(r); });
    m.job("complex-special/scalar overloads", {"quick", "thorough"}, [](mc::Reporter& r) {
        Ctx c{r};
        scalar_overloads<float>(c, {0.0F, -0.0F, 2.5F, -3.0F, std::numeric_limits<float>::infinity(), -std::numeric_limits<float>::infinity()});
        scalar_overloads<double>(c, {0.0, -0.0, 2.5, -3.0, std::numeric_limits<double>::infinity(), -std::numeric_limits<double>::infinity()});
        scalar_overloads<LD>(c, {0.0L, -0.0L, 2.5L, -3.0L});
        scalar_overloads<int>(c, {0, 7, -7});
        scalar_overloads<long long>(c, {0LL, 9007199254740993LL, -5LL});
        scalar_overloads<unsigned>(c, {0U, 4000000000U});
        if constexpr (!has_proj<etl::complex<double>>) { r.note("API gap: etl::proj does not exist"); }
        c.flush();
    });
    return m.run();
}
