// C16, exact unary set: floor, ceil, trunc, round, rint, lrint, llrint, abs/fabs, signbit,
// isnan, isinf, isfinite, copysign (one argument fixed), nextafter (towards a fixed target),
// each on two code paths:
//   * the run-time entry point etl::f, and
//   * the path constant evaluation takes (etl::detail::gcem::f, or the *_fallback function
//     the header selects under is_constant_evaluated()), called here at run time,
// against glibc, bit for bit (all NaNs are one value; -0.0 != +0.0).
//
// float:  quick = lattice L24 (5 * 2^24 patterns), thorough = all 2^32 patterns, four jobs per
//         subject, each under the cooperative deadline.  double: grid G64 (every exponent x
//         about 200 boundary mantissas x both signs) plus the boundary set B64.
// The boundary sets B32/B64 are also swept in every flavour (they give the short witnesses
// and, in the san flavour, attribute sanitizer reports to the call that caused them).
#include "c16_common.hpp"

#include <etl/cmath.hpp>

using namespace c16;
using mc::cat;
namespace gcem = etl::detail::gcem;

namespace {

template <typename T>
struct Unary {
    std::string subject;   // API-level call site (set from `call` by strip_args)
    std::string shortname; // for job names
    u64 (*impl)(T);
    u64 (*ref)(T);
    bool (*valid)(T); // null = every value is a valid argument
    Kind kind;
    std::string note;       // fixed arguments, for the case string
    std::string cls_suffix; // fixed arguments, for the class
    bool coarse{false};     // class = sign/kind of x only (functions that ignore the magnitude)
    std::string call;       // typed spelling, e.g. "etl::floor(float)"
};

template <typename T>
constexpr Kind fkind()
{
    return std::is_same_v<T, float> ? Kind::f32 : Kind::f64;
}

template <typename T>
bool fits_ll(T x)
{
    return x >= T(-0x1p63) && x < T(0x1p63);
}

// fixed second arguments; volatile-free constants are fine: every call goes through a
// function pointer taken from a run-time table, so nothing is folded with the reference.
template <typename T>
std::vector<Unary<T>> subjects()
{
    std::string const tn = FT<T>::n;
    auto S               = [&](char const* f) { return cat(f, "(", tn, ")"); };
    auto S2              = [&](char const* f) { return cat(f, "(", tn, ",", tn, ")"); };
    constexpr Kind K     = fkind<T>();
    std::vector<Unary<T>> v;

    // ---- run-time entry points
    v.push_back({S("etl::floor"), "floor", [](T x) { return canon(etl::floor(x)); }, [](T x) { return canon(std::floor(x)); }, nullptr, K, "", ""});
    v.push_back({S("etl::ceil"), "ceil", [](T x) { return canon(etl::ceil(x)); }, [](T x) { return canon(std::ceil(x)); }, nullptr, K, "", ""});
    v.push_back({S("etl::trunc"), "trunc", [](T x) { return canon(etl::trunc(x)); }, [](T x) { return canon(std::trunc(x)); }, nullptr, K, "", ""});
    v.push_back({S("etl::round"), "round", [](T x) { return canon(etl::round(x)); }, [](T x) { return canon(std::round(x)); }, nullptr, K, "", ""});
    v.push_back({S("etl::rint"), "rint", [](T x) { return canon(etl::rint(x)); }, [](T x) { return canon(std::rint(x)); }, nullptr, K, "", ""});
    v.push_back({S("etl::lrint"), "lrint", [](T x) { return canon(etl::lrint(x)); }, [](T x) { return canon(std::lrint(x)); }, fits_ll<T>, Kind::integer, "", ""});
    v.push_back({S("etl::llrint"), "llrint", [](T x) { return canon(etl::llrint(x)); }, [](T x) { return canon(std::llrint(x)); }, fits_ll<T>, Kind::integer, "", ""});
    v.push_back({S("etl::abs"), "abs", [](T x) { return canon(etl::abs(x)); }, [](T x) { return canon(std::fabs(x)); }, nullptr, K, "", "", true});
    v.push_back({S("etl::fabs"), "fabs", [](T x) { return canon(etl::fabs(x)); }, [](T x) { return canon(std::fabs(x)); }, nullptr, K, "", "", true});
    v.push_back({S("etl::signbit"), "signbit", [](T x) { return canon(etl::signbit(x)); }, [](T x) { return canon(std::signbit(x)); }, nullptr, Kind::boolean, "", "", true});
    v.push_back({S("etl::isnan"), "isnan", [](T x) { return canon(etl::isnan(x)); }, [](T x) { return canon(std::isnan(x)); }, nullptr, Kind::boolean, "", "", true});
    v.push_back({S("etl::isinf"), "isinf", [](T x) { return canon(etl::isinf(x)); }, [](T x) { return canon(std::isinf(x)); }, nullptr, Kind::boolean, "", "", true});
    v.push_back({S("etl::isfinite"), "isfinite", [](T x) { return canon(etl::isfinite(x)); }, [](T x) { return canon(std::isfinite(x)); }, nullptr, Kind::boolean, "", "", true});
    v.push_back({S2("etl::copysign"), "copysign-p0", [](T x) { return canon(etl::copysign(x, T(0))); }, [](T x) { return canon(std::copysign(x, T(0))); }, nullptr, K, "mag=x sgn=+0.0", "/sgn=+0", true});
    v.push_back({S2("etl::copysign"), "copysign-m1", [](T x) { return canon(etl::copysign(x, T(-1))); }, [](T x) { return canon(std::copysign(x, T(-1))); }, nullptr, K, "mag=x sgn=-1", "/sgn=-1", true});
    v.push_back({S2("etl::copysign"), "copysign-1x", [](T x) { return canon(etl::copysign(T(1), x)); }, [](T x) { return canon(std::copysign(T(1), x)); }, nullptr, K, "mag=1 sgn=x", "/mag=1", true});
    v.push_back({S2("etl::copysign"), "copysign-m2x", [](T x) { return canon(etl::copysign(T(-2), x)); }, [](T x) { return canon(std::copysign(T(-2), x)); }, nullptr, K, "mag=-2 sgn=x", "/mag=-2", true});
    v.push_back({S2("etl::nextafter"), "nextafter-pinf", [](T x) { return canon(etl::nextafter(x, std::numeric_limits<T>::infinity())); },
        [](T x) { return canon(std::nextafter(x, std::numeric_limits<T>::infinity())); }, nullptr, K, "from=x to=+inf", "/to=+inf", true});
    v.push_back({S2("etl::nextafter"), "nextafter-minf", [](T x) { return canon(etl::nextafter(x, -std::numeric_limits<T>::infinity())); },
        [](T x) { return canon(std::nextafter(x, -std::numeric_limits<T>::infinity())); }, nullptr, K, "from=x to=-inf", "/to=-inf", true});
    v.push_back({S2("etl::nextafter"), "nextafter-zero", [](T x) { return canon(etl::nextafter(x, T(0))); },
        [](T x) { return canon(std::nextafter(x, T(0))); }, nullptr, K, "from=x to=+0.0", "/to=+0", true});

    // ---- the constant-evaluation path, called at run time
    v.push_back({S("gcem::floor"), "cx-floor", [](T x) { return canon(gcem::floor(x)); }, [](T x) { return canon(std::floor(x)); }, nullptr, K, "", ""});
    v.push_back({S("gcem::ceil"), "cx-ceil", [](T x) { return canon(gcem::ceil(x)); }, [](T x) { return canon(std::ceil(x)); }, nullptr, K, "", ""});
    v.push_back({S("gcem::trunc"), "cx-trunc", [](T x) { return canon(gcem::trunc(x)); }, [](T x) { return canon(std::trunc(x)); }, nullptr, K, "", ""});
    v.push_back({S("gcem::round"), "cx-round", [](T x) { return canon(gcem::round(x)); }, [](T x) { return canon(std::round(x)); }, nullptr, K, "", ""});
    v.push_back({S("gcem::abs"), "cx-abs", [](T x) { return canon(gcem::abs(x)); }, [](T x) { return canon(std::fabs(x)); }, nullptr, K, "", "", true});
    v.push_back({S("detail::rint_fallback"), "cx-rint", [](T x) { return canon(etl::detail::rint_fallback<T>(x)); }, [](T x) { return canon(std::rint(x)); }, nullptr, K, "", ""});
    v.push_back({S("detail::lrint_fallback<long>"), "cx-lrint", [](T x) { return canon(etl::detail::lrint_fallback<long>(x)); }, [](T x) { return canon(std::lrint(x)); }, fits_ll<T>, Kind::integer, "", ""});
    v.push_back({S("detail::lrint_fallback<long long>"), "cx-llrint", [](T x) { return canon(etl::detail::lrint_fallback<long long>(x)); }, [](T x) { return canon(std::llrint(x)); }, fits_ll<T>, Kind::integer, "", ""});
    v.push_back({S("detail::signbit_fallback"), "cx-signbit", [](T x) { return canon(etl::detail::signbit_fallback<T>(x)); }, [](T x) { return canon(std::signbit(x)); }, nullptr, Kind::boolean, "", "", true});
    v.push_back({S2("detail::copysign_fallback"), "cx-copysign-p0", [](T x) { return canon(etl::detail::copysign_fallback<T>(x, T(0))); }, [](T x) { return canon(std::copysign(x, T(0))); }, nullptr, K, "mag=x sgn=+0.0", "/sgn=+0", true});
    v.push_back({S2("detail::copysign_fallback"), "cx-copysign-m1", [](T x) { return canon(etl::detail::copysign_fallback<T>(x, T(-1))); }, [](T x) { return canon(std::copysign(x, T(-1))); }, nullptr, K, "mag=x sgn=-1", "/sgn=-1", true});
    v.push_back({S2("detail::copysign_fallback"), "cx-copysign-1x", [](T x) { return canon(etl::detail::copysign_fallback<T>(T(1), x)); }, [](T x) { return canon(std::copysign(T(1), x)); }, nullptr, K, "mag=1 sgn=x", "/mag=1", true});
    v.push_back({S2("detail::copysign_fallback"), "cx-copysign-m2x", [](T x) { return canon(etl::detail::copysign_fallback<T>(T(-2), x)); }, [](T x) { return canon(std::copysign(T(-2), x)); }, nullptr, K, "mag=-2 sgn=x", "/mag=-2", true});
    for (auto& u : v) {
        u.call    = u.subject;
        u.subject = strip_args(u.call);
    }
    return v;
}

template <typename T>
inline bool finite_nonzero(T x)
{
    int const id = region_id(x);
    return id >= 5;
}

template <typename T>
struct Acc {
    Unary<T> const* u{nullptr};
    u64 evals{0}, nontrivial{0}, skipped{0}, mismatches{0};
    Slot slots[kExactClasses];
    u64 san_before{0};

    inline void eval(T x)
    {
        if (u->valid != nullptr && !u->valid(x)) {
            ++skipped;
            return;
        }
        u64 const got  = u->impl(x);
        u64 const want = u->ref(x);
        ++evals;
        if (want != canon(x)) { ++nontrivial; }
        if (got != want) [[unlikely]] {
            ++mismatches;
            Slot& s = slots[u->coarse ? coarse_id(x) : exact_class_id(x)];
            if (s.count++ == 0) {
                s.kase   = cat(u->call, " x=", show(x), u->note.empty() ? "" : " ", u->note);
                s.detail = cat("tetl=", show_result(got, u->kind), " libm=", show_result(want, u->kind));
            }
        }
    }

    void flush(mc::Reporter& r)
    {
        r.count("evaluations", evals);
        r.count("distinct_nontrivial", nontrivial);
        r.count("out_of_domain_skipped", skipped);
        r.count("mismatches", mismatches);
        for (int i = 0; i < kExactClasses; ++i) {
            Slot const& s = slots[i];
            if (s.count != 0) {
                report(r, "C16", u->subject, cat(u->coarse ? std::string(coarse_name(i)) : exact_class_name(i), u->cls_suffix), s.kase, s.detail, s.count);
            }
        }
    }
};

// sanitizer attribution (san flavour): one check per call
template <typename T>
void san_check(mc::Reporter& r, Unary<T> const& u, T x, u64& seen)
{
#if defined(MC_FLAVOUR_SAN)
    u64 const now = mc::san_hits();
    if (now != seen) {
        seen = now;
        r.violation("C02", u.subject, cat(u.coarse ? std::string(coarse_name(coarse_id(x))) : exact_class_name(exact_class_id(x)), u.cls_suffix), cat(u.call, " x=", show(x), u.note.empty() ? "" : " ", u.note),
            "sanitizer report during the call (see job log)");
    }
#else
    (void)r;
    (void)u;
    (void)x;
    (void)seen;
#endif
}

/// float sweep over upper-24-bit values [lo24, hi24) x the low-byte set
void sweep_f32(mc::Reporter& r, Unary<float> const& u, bool full, u32 lo24, u32 hi24)
{
    if (!r.want(u.subject)) { return; }
    Acc<float> a;
    a.u = &u;
    static constexpr u32 l24[5] = {0x00, 0x01, 0x7F, 0x80, 0xFF};
    bool capped                 = false;
    u32 done_to                 = lo24;
    mc::Trap const t            = mc::guarded([&] {
        for (u32 up = lo24; up < hi24; ++up) {
            if ((up & 0xFF) == 0) {
                tick();
                if (r.deadline_passed()) {
                    capped = true;
                    break;
                }
            }
            u32 const base = up << 8;
            if (full) {
                for (u32 lowb = 0; lowb < 256; ++lowb) { a.eval(fb(base | lowb)); }
            } else {
                for (u32 lowb : l24) { a.eval(fb(base | lowb)); }
            }
            if ((up & 0xFFF) == 0) {
                float const x = fb(base);
                r.outcome(mc::hash_mix(mc::hash_str(u.call + u.cls_suffix), u.ref(x)));
                if (r.wants_sample() && finite_nonzero(x)) {
                    r.sample(cat(u.call, " x=", show(x), u.note.empty() ? "" : " ", u.note, " -> ", show_result(u.impl(x), u.kind)));
                }
            }
            done_to = up + 1;
        }
    });
    a.flush(r);
    if (t != mc::Trap::none) {
        r.violation(t == mc::Trap::assert_fired ? "C05" : "C02", u.subject, cat("trap-", mc::trap_name(t)),
            cat(u.call, " near x=", show(fb(done_to << 8))), mc::describe_trap(t));
        r.not_exhaustive("trap");
    }
    if (capped) {
        r.not_exhaustive(cat("deadline: ", u.subject, u.cls_suffix, " completed upper-24-bit values [", lo24, ",", done_to, ") of [", lo24, ",", hi24, ")"));
    }
}

template <typename T>
void sweep_values(mc::Reporter& r, Unary<T> const& u, std::vector<T> const& values)
{
    if (!r.want(u.subject)) { return; }
    Acc<T> a;
    a.u      = &u;
    u64 seen = mc::san_hits();
    T cur{};
    std::size_t i    = 0;
    mc::Trap const t = mc::guarded([&] {
        for (; i < values.size(); ++i) {
            cur = values[i];
            if ((i & 0xFFF) == 0) { tick(); }
            a.eval(cur);
            san_check(r, u, cur, seen);
            if ((i % 64) == 0) { r.outcome(mc::hash_mix(mc::hash_str(u.call + u.cls_suffix), u.ref(cur))); }
        }
    });
    a.flush(r);
    if (t != mc::Trap::none) {
        r.violation(t == mc::Trap::assert_fired ? "C05" : "C02", u.subject, cat("trap-", mc::trap_name(t), ":", exact_class_name(exact_class_id(cur))),
            cat(u.call, " x=", show(cur)), mc::describe_trap(t));
    }
}

std::vector<double> grid64()
{
    std::vector<double> out;
    auto const mants = grid_mantissas(false);
    out.reserve(mants.size() * 4096);
    for (u64 e = 0; e < 2048; ++e) {
        for (u64 m : mants) {
            out.push_back(db((e << 52) | m));
            out.push_back(db((u64(1) << 63) | (e << 52) | m));
        }
    }
    return out;
}

} // namespace

int main(int argc, char** argv)
{
    mc::Main m(argc, argv);
    static auto const subj32 = subjects<float>();
    static auto const subj64 = subjects<double>();

    // boundary sets: every flavour, every tier
    m.job("f32/B32", {"quick", "thorough"}, [](mc::Reporter& r) {
        auto const B = make_boundary<float>();
        r.count("configurations", 1);
        for (auto const& u : subj32) { sweep_values(r, u, B); }
    });
    m.job("f64/B64", {"quick", "thorough"}, [](mc::Reporter& r) {
        auto const B = make_boundary<double>();
        r.count("configurations", 1);
        for (auto const& u : subj64) { sweep_values(r, u, B); }
    });

#if !defined(MC_FLAVOUR_SAN)
    // double grid: one job per group of subjects
    for (std::size_t g = 0; g < subj64.size(); g += 8) {
        m.job(cat("f64/G64/", g / 8), {"quick", "thorough"}, [g](mc::Reporter& r) {
            auto const G = grid64();
            r.count("configurations", 1);
            for (std::size_t i = g; i < std::min(g + 8, subj64.size()); ++i) {
                if (r.deadline_passed()) {
                    r.not_exhaustive("deadline");
                    break;
                }
                sweep_values(r, subj64[i], G);
            }
        });
    }
    // float: L24 (quick; also what the O2 flavour runs in the thorough tier)
    for (std::size_t i = 0; i < subj32.size(); ++i) {
        char idx[8];
        std::snprintf(idx, sizeof idx, "%02zu", i);
    #if defined(MC_FLAVOUR_O2)
        std::vector<std::string> const l24tiers = {"quick", "thorough"};
    #else
        std::vector<std::string> const l24tiers = {"quick"};
    #endif
        m.job(cat("f32/L24/", idx, "-", subj32[i].shortname), l24tiers, [i](mc::Reporter& r) {
            r.count("configurations", 1);
            sweep_f32(r, subj32[i], false, 0, u32(1) << 24);
        });
    #if !defined(MC_FLAVOUR_O2)
        // thorough: all 2^32 patterns, four jobs per subject
        for (u32 q = 0; q < 4; ++q) {
            m.job(cat("f32/full/", idx, "-", subj32[i].shortname, "/q", q), {"thorough"}, [i, q](mc::Reporter& r) {
                r.count("configurations", 1);
                sweep_f32(r, subj32[i], true, q << 22, (q + 1) << 22);
            });
        }
    #endif
    }
#endif
    return m.run();
}
