// C04 round 2, direction 3: longer histories at the layout boundary and at the size-type boundary.
//
// Breadth-first exploration with exact state de-duplication of ALL histories of a stated length over a reduced
// menu (append / push_back / insert / erase / pop_back / resize / replace / clear / assign / swap / operator= at the
// beginning, the middle and the end of the string, fills to capacity-1 and capacity, and - contracts off - two
// clamping calls), on a real etl::basic_inplace_string in lock-step with std::basic_string.  A state is the
// tetl object's size field and its complete character buffer (stale characters behind size() and the
// small-layout size byte included), so growth-shrink cycles that leave different residue are different states.
// Every transition compares returned reference/iterator, size, content and the invariants size() <= capacity(),
// data()[size()] == 0, c_str() == data(); every new state additionally runs a small observer set.
//
//  * capacities 14, 15 (small layout: the last buffer element is the size byte and, when full, the terminator),
//    16, 17 (separate size field): histories of length <= 5 (quick) and <= 6 (thorough) from the empty string;
//  * capacities 255, 256, 257 (size field of one byte / two bytes): histories of length <= 3 (quick: 255, 256)
//    and <= 4 (thorough) from the seeds empty, capacity-2, capacity-1 and capacity characters.
//
// No forked pre-screening here: the object lives in an exact-size box with canaries (ASan red zones in the san
// flavour); a write outside the object is reported (C02) and ends the job.
#include "c04_r2.hpp"

#include <unordered_map>

namespace c04_cycles {
using namespace c04;

enum Act : int {
    a_push_back,
    a_append_2,
    a_append_fill,
    a_append_fill1,
    a_append_ptr,
    a_insert_begin,
    a_insert_mid_ptr,
    a_insert_end,
    a_erase_begin,
    a_erase_mid2,
    a_erase_it_last,
    a_erase_all,
    a_erase_range_tail,
    a_pop_back,
    a_resize_half,
    a_resize_cap1,
    a_resize_cap,
    a_resize_plus2_nul,
    a_replace_begin,
    a_replace_mid_str,
    a_replace_last_ch,
    a_clear,
    a_assign_full,
    a_swap_fresh,
    a_assign_cstr,
    a_plus_eq_self_tail,
    a_clamp_append,
    a_clamp_insert_mid,
    act_count
};

struct ActInfo {
    char const* subject;
    char const* text; // with s = size(), N = capacity(), mid = s/2
    unsigned flags;
};
constexpr ActInfo act_info[act_count] = {
    {"push_back", "push_back('a')", PRE},
    {"append(count,ch)", "append(2,'b')", PRE},
    {"append(count,ch)", "append(N-s,'a')", PRE},
    {"append(count,ch)", "append(N-s-1,'b')", PRE},
    {"append(ptr,count)", "append(\"ab\",2)", PRE},
    {"insert(index,count,ch)", "insert(0,1,'b')", PRE},
    {"insert(index,ptr,count)", "insert(mid,\"ba\",2)", PRE},
    {"insert(index,count,ch)", "insert(s,1,'a')", PRE},
    {"erase(index,count)", "erase(0,1)", PRE},
    {"erase(index,count)", "erase(mid,2)", PRE},
    {"erase(pos)", "erase(begin+s-1)", PRE},
    {"erase(index,count)", "erase(0,npos)", PRE},
    {"erase(first,last)", "erase(begin+1,end)", PRE},
    {"pop_back", "pop_back()", PRE},
    {"resize(count)", "resize(mid)", PRE},
    {"resize(count,ch)", "resize(N-1,'b')", PRE},
    {"resize(count,ch)", "resize(N,'a')", PRE},
    {"resize(count)", "resize(s+2)", PRE},
    {"replace(pos,count,ptr,count2)", "replace(0,2,\"bb\",2)", PRE},
    {"replace(pos,count,str)", "replace(mid,1,str(\"a\"))", PRE},
    {"replace(first,last,count2,ch)", "replace(end-1,end,1,'b')", PRE},
    {"clear", "clear()", PRE},
    {"assign(count,ch)", "assign(N,'b')", PRE},
    {"swap(other)", "swap(fresh \"ab\")", PRE},
    {"operator=(cstr)", "= \"a\"", PRE},
    {"operator+=(sv)", "+= view(data()+mid, s-mid)", PRE},
    {"append(count,ch)", "append(N,'b') (clamps)", CL},
    {"insert(index,count,ch)", "insert(mid,N,'a') (clamps)", CL},
};

inline bool enabled(int id, std::size_t s, std::size_t N)
{
    std::size_t const room = N - s;
    std::size_t const mid  = s / 2;
    switch (id) {
    case a_push_back: return room >= 1;
    case a_append_2: return room >= 2;
    case a_append_fill: return room >= 1;
    case a_append_fill1: return room >= 2;
    case a_append_ptr: return room >= 2;
    case a_insert_begin: return room >= 1;
    case a_insert_mid_ptr: return room >= 2;
    case a_insert_end: return room >= 1;
    case a_erase_begin: return s >= 1;
    case a_erase_mid2: return s >= 1;
    case a_erase_it_last: return s >= 1;
    case a_erase_all: return s >= 1;
    case a_erase_range_tail: return s >= 2;
    case a_pop_back: return s >= 1;
    case a_resize_half: return s >= 2;
    case a_resize_cap1: return N >= 1 && s != N - 1;
    case a_resize_cap: return s != N;
    case a_resize_plus2_nul: return room >= 2; // two characters: the first new one sits where the old terminator was
    case a_replace_begin: return s >= 2;
    case a_replace_mid_str: return s > mid;
    case a_replace_last_ch: return s >= 1;
    case a_clear: return s >= 1;
    case a_assign_full: return true;
    case a_swap_fresh: return N >= 2;
    case a_assign_cstr: return N >= 1;
    case a_plus_eq_self_tail: return s >= 1 && room >= s - mid;
    case a_clamp_append: return allow_clamp && s >= 1;
    case a_clamp_insert_mid: return allow_clamp && s >= 1;
    default: return false;
    }
}

// the same expression for the tetl string and for the model
template <typename T>
long act(T& t, int id, std::size_t N)
{
    using Char           = typename T::value_type;
    using V              = view_t<T>;
    using diff           = std::ptrdiff_t;
    std::size_t const s  = t.size();
    std::size_t const mid = s / 2;
    static constexpr Char ab[] = {Char('a'), Char('b'), Char(0)};
    static constexpr Char ba[] = {Char('b'), Char('a'), Char(0)};
    static constexpr Char bb[] = {Char('b'), Char('b'), Char(0)};
    static constexpr Char a1[] = {Char('a'), Char(0)};
    switch (id) {
    case a_push_back: t.push_back(Char('a')); return 0;
    case a_append_2: return self(t, t.append(2, Char('b')));
    case a_append_fill: return self(t, t.append(N - s, Char('a')));
    case a_append_fill1: return self(t, t.append(N - s - 1, Char('b')));
    case a_append_ptr: return self(t, t.append(ab, 2));
    case a_insert_begin: return self(t, t.insert(0, 1, Char('b')));
    case a_insert_mid_ptr: return self(t, t.insert(mid, ba, 2));
    case a_insert_end: return self(t, t.insert(s, 1, Char('a')));
    case a_erase_begin: return self(t, t.erase(0, 1));
    case a_erase_mid2: return self(t, t.erase(mid, 2));
    case a_erase_it_last: {
        auto it = t.erase(t.begin() + diff(s - 1));
        return long(it - t.begin());
    }
    case a_erase_all: return self(t, t.erase(0, NPOS));
    case a_erase_range_tail: {
        auto it = t.erase(t.begin() + 1, t.end());
        return long(it - t.begin());
    }
    case a_pop_back: t.pop_back(); return 0;
    case a_resize_half: t.resize(mid); return 0;
    case a_resize_cap1: t.resize(N - 1, Char('b')); return 0;
    case a_resize_cap: t.resize(N, Char('a')); return 0;
    case a_resize_plus2_nul: t.resize(s + 2); return 0;
    case a_replace_begin: return self(t, t.replace(0, 2, bb, 2));
    case a_replace_mid_str: {
        T const o(a1, 1);
        return self(t, t.replace(mid, 1, o));
    }
    case a_replace_last_ch: return self(t, t.replace(t.end() - 1, t.end(), 1, Char('b')));
    case a_clear: t.clear(); return 0;
    case a_assign_full: return self(t, t.assign(N, Char('b')));
    case a_swap_fresh: {
        T o(ab, 2);
        t.swap(o);
        return long(o.size());
    }
    case a_assign_cstr: return self(t, t = a1);
    case a_plus_eq_self_tail: return self(t, t += V(t.data() + mid, s - mid));
    case a_clamp_append: return self(t, t.append(N, Char('b')));
    case a_clamp_insert_mid: return self(t, t.insert(mid, N, Char('a')));
    default: return 0;
    }
}

template <typename Char, std::size_t N>
struct Cycles {
    using S = etl::basic_inplace_string<Char, N>;
    using M = std::basic_string<Char>;
    struct Node {
        std::array<unsigned char, sizeof(S)> bytes;
        int parent;
        short action;
        short seed;
    };
    mc::Reporter& r;
    Lock<S, M> L;
    std::vector<Node> nodes;
    std::unordered_map<std::string, int> index;
    std::vector<std::size_t> seed_sizes;
    std::uint64_t transitions{0};

    explicit Cycles(mc::Reporter& rep) : r(rep), L(rep, cat("basic_inplace_string<", cname<Char>(), ",", N, ">")) { }

    static std::string key(S const& v)
    {
        std::string k(reinterpret_cast<char const*>(v.data()), (N + 1) * sizeof(Char));
        auto const sz = static_cast<std::uint32_t>(v.size());
        k.append(reinterpret_cast<char const*>(&sz), sizeof sz);
        return k;
    }

    std::string history(int node) const
    {
        std::vector<int> ids;
        int n = node;
        while (nodes[std::size_t(n)].parent >= 0) {
            ids.push_back(nodes[std::size_t(n)].action);
            n = nodes[std::size_t(n)].parent;
        }
        std::string o = cat("t = string of ", seed_sizes[std::size_t(nodes[std::size_t(n)].seed)], " x 'a'");
        for (auto it = ids.rbegin(); it != ids.rend(); ++it) { o += cat("; ", act_info[*it].text); }
        return o;
    }

    // observers of a new state (the box holds it, L.m is the model)
    void observe(int node)
    {
        S const& v = L.obj();
        M const& m = L.m;
        auto chk   = [&](char const* subject, char const* what, long got, long want) {
            ++L.evals;
            if (got != want) {
                L.fail_case("C04", subject, "general", [&] { return cat(history(node), " => <observers>"); }, [&] { return cat(what, ": tetl=", got, " std=", want); });
            }
        };
        std::size_t const s = m.size();
        S const copy(v);
        chk("basic_inplace_string(const&)", "copy == original", yes(copy == v), 1);
        chk("basic_inplace_string(const&)", "copy.size()", long(copy.size()), long(s));
        chk("<observers>", "copy terminator", long(copy.data()[copy.size() <= N ? copy.size() : 0]), 0);
        S moved(S{v});
        chk("basic_inplace_string(&&)", "moved-to == original", yes(moved == v), 1);
        if (m.find(Char(0)) == M::npos) { chk("<observers>", "strlen(c_str())", long(std::char_traits<Char>::length(v.c_str())), long(s)); }
        chk("compare(sv)", "compare(view of the model)", sgn(v.compare(etl::basic_string_view<Char>(m.data(), s))), 0);
        if (s > 0) {
            chk("rfind(ch,pos)", "rfind(front())", pos(v.rfind(v.front(), NPOS)), pos(m.rfind(m.front())));
            chk("find(ch,pos)", "find(back())", pos(v.find(v.back(), 0)), pos(m.find(m.back())));
            chk("find_last_not_of(ch,pos)", "find_last_not_of(back())", pos(v.find_last_not_of(v.back(), NPOS)), pos(m.find_last_not_of(m.back())));
            chk("back", "back()", long(v.back()), long(m.back()));
        }
        S const sub = v.substr(s / 2);
        M const msub = m.substr(s / 2);
        chk("substr(pos)", "substr(mid) == model", yes(Lock<S, M>::content_equal(sub, msub) && sub.data()[sub.size() <= N ? sub.size() : 0] == Char(0)), 1);
        chk("operator==(str,cstr)", "== c_str() of the model", yes(v == m.c_str()), yes(m == m.c_str()));
    }

    int add_node(int parent, int action, int seed)
    {
        auto k  = key(L.obj());
        auto it = index.find(k);
        if (it != index.end()) { return -1; }
        r.outcome(mc::hash_str(k));
        Node n;
        L.box.save(n.bytes.data());
        n.parent = parent;
        n.action = short(action);
        n.seed   = short(seed);
        int const id = int(nodes.size());
        nodes.push_back(n);
        index.emplace(std::move(k), id);
        return id;
    }

    void run(std::vector<std::size_t> seeds, std::size_t depth, std::size_t max_nodes)
    {
        seed_sizes = seeds;
        std::size_t level_begin = 0;
        for (std::size_t k = 0; k < seeds.size(); ++k) {
            M const c(seeds[k], Char('a'));
            L.guarded([&] {
                L.subj = "<state construction>";
                L.box.make(0xAA, c.data(), c.size());
            });
            L.m.assign(c.data(), c.size());
            if (!Lock<S, M>::content_equal(L.obj(), c)) { continue; }
            int const id = add_node(-1, -1, int(k));
            if (id >= 0) { L.guarded([&] { observe(id); }); }
        }
        bool capped = false;
        for (std::size_t d = 1; d <= depth && !capped && !L.damaged; ++d) {
            std::size_t const level_end = nodes.size();
            bool const last             = d == depth;
            for (std::size_t i = level_begin; i < level_end && !L.damaged; ++i) {
                if ((i & 1023) == 0 && r.deadline_passed()) {
                    r.not_exhaustive("deadline");
                    capped = true;
                    break;
                }
                L.box.load(nodes[i].bytes.data());
                M const model(L.obj().data(), L.obj().size());
                int const self_id = int(i);
                L.commit(model, [this, self_id] { return history(self_id); });
                std::size_t const s = model.size();
                L.guarded([&] {
                    for (int id = 0; id < act_count; ++id) {
                        if (!enabled(id, s, N)) { continue; }
                        ++transitions;
                        bool const ok = L.run(act_info[id].subject, "general", act_info[id].flags, [&] { return std::string(act_info[id].text); },
                            [&](auto& t) { return act(t, id, N); });
                        if (L.last == Lock<S, M>::Last::clamped) {
                            // the model is re-synchronised with the truncated content
                            L.m.assign(L.obj().data(), L.obj().size());
                        } else if (!ok) {
                            continue;
                        }
                        if (last) {
                            r.outcome(mc::hash_str(key(L.obj())));
                            continue;
                        }
                        if (nodes.size() >= max_nodes) {
                            capped = true;
                            continue;
                        }
                        int const nid = add_node(self_id, id, nodes[i].seed);
                        if (nid >= 0) { observe(nid); }
                    }
                });
            }
            level_begin = level_end;
            r.note(cat(L.config, ": histories of length ", d, ": ", last ? std::string("checked, not stored") : cat(nodes.size() - level_end, " new states")));
        }
        if (capped) { r.not_exhaustive(cat("state cap ", max_nodes, " or deadline reached")); }
        r.count("states", nodes.size());
        r.count("transitions", transitions);
        r.count("traces_validated_against_impl", transitions);
        r.set_max("max_depth", depth);
        if (!nodes.empty()) { r.sample(cat(L.config, " (deepest stored): ", history(int(nodes.size()) - 1))); }
        if (nodes.size() > 2) { r.sample(cat(L.config, ": ", history(int(nodes.size() / 2)))); }
        L.finish();
    }
};

template <typename Char, std::size_t N>
void add(mc::Main& m, std::vector<std::string> tiers, std::size_t depth, bool boundary_seeds, char const* tag)
{
    m.job(cat("cycles/", cname<Char>(), "/", N, "/", tag), tiers, [=](mc::Reporter& r) {
        Cycles<Char, N> c(r);
        std::vector<std::size_t> seeds{0};
        if (boundary_seeds) { seeds = {0, N - 2, N - 1, N}; }
        c.run(seeds, depth, 6000000);
    });
}

// Part is a template parameter: only the configurations of the requested part are instantiated
template <int Part>
void register_jobs(mc::Main& m)
{
    std::vector<std::string> const both{"quick", "thorough"};
    std::vector<std::string> const qk{"quick"};
    std::vector<std::string> const th{"thorough"};
    if constexpr (Part == 0) {
        // the layout boundary: small layout 15 / separate size field 16
        add<char, 15>(m, qk, 7, false, "len7");
        add<char, 16>(m, qk, 7, false, "len7");
        add<char, 15>(m, th, 8, false, "len8");
        add<char, 16>(m, th, 8, false, "len8");
    }
    if constexpr (Part == 1) {
        add<char, 14>(m, th, 8, false, "len8");
        add<char, 17>(m, th, 8, false, "len8");
        add<char16_t, 15>(m, th, 7, false, "len7");
        add<char16_t, 16>(m, th, 7, false, "len7");
    }
    if constexpr (Part == 2) {
        // the size-type boundary
        add<char, 255>(m, th, 4, true, "len4");
        add<char, 256>(m, th, 4, true, "len4");
        add<char, 257>(m, th, 4, true, "len4");
        add<char16_t, 255>(m, th, 4, true, "len4");
        add<char16_t, 256>(m, th, 4, true, "len4");
    }
}

} // namespace c04_cycles

#if !defined(C04_COMBINED)
int main(int argc, char** argv)
{
    mc::Main m(argc, argv);
    #if !defined(MC_PART)
        #define MC_PART 0
    #endif
    c04_cycles::register_jobs<MC_PART>(m);
    return m.run();
}
#endif
