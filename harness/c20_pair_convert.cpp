// C20, pair converting construction/assignment from pairs whose elements are REFERENCES to an object with
// observable copy/move (added after seeded breakage c20_pair_converting_move_ref_element: the converting move
// constructor used move(p.first) instead of forward<U1>(p.first), so an rvalue pair<X&, ...> had its REFERENT
// moved from; with int& elements - the only reference kind the category matrix used - a move is a copy and
// nothing is observable).
// Enumerated: source element kinds {X, X&, X const&} for first and second (9 source pair types) x source value
// category {lvalue, const lvalue, rvalue} x operation {converting construction of pair<X,X>, of pair<Y,Y> (Y
// constructible from X), converting assignment to pair<X,X> where both libraries provide it} - executed on
// etl::pair and std::pair with the same element types; compared: number of copies and moves of X, the values the
// target holds, and the state of the source objects / referents afterwards.
#include "mc.hpp"

#include <etl/utility.hpp>

#include <string>
#include <type_traits>
#include <utility>

using mc::cat;

namespace {

struct Counts {
    int copies{0}, moves{0}, copy_assigns{0}, move_assigns{0};
    bool operator==(Counts const&) const = default;
};
Counts g;

struct X {
    int v{0};
    X() = default;
    explicit X(int x) : v(x) { }
    X(X const& o) : v(o.v) { ++g.copies; }
    X(X&& o) noexcept : v(o.v)
    {
        ++g.moves;
        o.v = -1;
    }
    X& operator=(X const& o)
    {
        v = o.v;
        ++g.copy_assigns;
        return *this;
    }
    X& operator=(X&& o) noexcept
    {
        v   = o.v;
        o.v = -1;
        ++g.move_assigns;
        return *this;
    }
};
// a different type constructible from X by copy or by move (converting element construction)
struct Y {
    int v{0};
    Y() = default;
    Y(X const& x) : v(x.v + 100) { ++g.copies; }
    Y(X&& x) : v(x.v + 100)
    {
        ++g.moves;
        x.v = -1;
    }
};

std::string show(Counts const& c) { return cat("copies=", c.copies, " moves=", c.moves, " copy_assigns=", c.copy_assigns, " move_assigns=", c.move_assigns); }

template <typename T>
char const* kind()
{
    if constexpr (std::is_same_v<T, X>) { return "X"; }
    if constexpr (std::is_same_v<T, X&>) { return "X&"; }
    return "X const&";
}

struct Obs {
    Counts c;
    int t1{0}, t2{0};   // values held by the target
    int s1{0}, s2{0};   // values of the source objects / referents afterwards
    bool operator==(Obs const&) const = default;
};
std::string show(Obs const& o) { return cat(show(o.c), " target=(", o.t1, ",", o.t2, ") source-after=(", o.s1, ",", o.s2, ")"); }

enum Cat { lvalue, const_lvalue, rvalue };
char const* cat_name(int c) { return c == lvalue ? "lvalue" : (c == const_lvalue ? "const lvalue" : "rvalue"); }

// builds a source pair of the given template (etl::pair or std::pair) over fresh objects a,b and performs op
template <template <typename, typename> class P, typename A, typename B, typename T, int C, bool Assign>
Obs run()
{
    X a(1), b(2);
    using Src = P<A, B>;
    using Dst = P<T, T>;
    auto make = [&]() -> Src {
        if constexpr (std::is_reference_v<A> && std::is_reference_v<B>) {
            return Src(a, b);
        } else if constexpr (std::is_reference_v<A>) {
            return Src(a, X(2));
        } else if constexpr (std::is_reference_v<B>) {
            return Src(X(1), b);
        } else {
            return Src(X(1), X(2));
        }
    };
    Src src = make();
    Obs o;
    g = Counts{};
    if constexpr (Assign) {
        Dst dst{};
        g = Counts{};
        if constexpr (C == lvalue) {
            dst = src;
        } else if constexpr (C == const_lvalue) {
            dst = std::as_const(src);
        } else {
            dst = std::move(src);
        }
        o.c  = g;
        o.t1 = dst.first.v;
        o.t2 = dst.second.v;
    } else {
        if constexpr (C == lvalue) {
            Dst dst(src);
            o.c  = g;
            o.t1 = dst.first.v;
            o.t2 = dst.second.v;
        } else if constexpr (C == const_lvalue) {
            Dst dst(std::as_const(src));
            o.c  = g;
            o.t1 = dst.first.v;
            o.t2 = dst.second.v;
        } else {
            Dst dst(std::move(src));
            o.c  = g;
            o.t1 = dst.first.v;
            o.t2 = dst.second.v;
        }
    }
    o.s1 = src.first.v;
    o.s2 = src.second.v;
    // for reference elements the referents a,b are the source objects (same as src.first / src.second)
    return o;
}

template <typename A, typename B, typename T, int C, bool Assign>
void one(mc::Reporter& r, std::uint64_t& ev)
{
    using ES = etl::pair<A, B>;
    using ED = etl::pair<T, T>;
    using SS = std::pair<A, B>;
    using SD = std::pair<T, T>;
    constexpr bool e_ok = Assign ? (C == rvalue ? std::is_assignable_v<ED&, ES&&> : (C == lvalue ? std::is_assignable_v<ED&, ES&> : std::is_assignable_v<ED&, ES const&>))
                                 : (C == rvalue ? std::is_constructible_v<ED, ES&&> : (C == lvalue ? std::is_constructible_v<ED, ES&> : std::is_constructible_v<ED, ES const&>));
    constexpr bool s_ok = Assign ? (C == rvalue ? std::is_assignable_v<SD&, SS&&> : (C == lvalue ? std::is_assignable_v<SD&, SS&> : std::is_assignable_v<SD&, SS const&>))
                                 : (C == rvalue ? std::is_constructible_v<SD, SS&&> : (C == lvalue ? std::is_constructible_v<SD, SS&> : std::is_constructible_v<SD, SS const&>));
    std::string const subject = cat(Assign ? "pair::operator=(pair<U1,U2>" : "pair::pair(pair<U1,U2>", C == rvalue ? "&&)" : " const&)");
    std::string const kase    = cat("pair<", std::is_same_v<T, X> ? "X,X" : "Y,Y", "> ", Assign ? "assigned" : "constructed", " from ", cat_name(C), " pair<", kind<A>(), ",",
        kind<B>(), ">");
    if constexpr (e_ok && s_ok) {
        Obs const e = run<etl::pair, A, B, T, C, Assign>();
        Obs const s = run<std::pair, A, B, T, C, Assign>();
        ++ev;
        r.outcome(mc::hash_str(show(s)));
        if (!(e == s)) {
            std::string const cls = cat((std::is_reference_v<A> || std::is_reference_v<B>) ? "reference_element" : "value_elements", "+", cat_name(C));
            r.violation("C20", subject, cls, kase, cat("tetl: ", show(e), " | std: ", show(s)));
        }
        if (r.wants_sample()) { r.sample(cat(kase, " -> ", show(s))); }
    } else if constexpr (e_ok != s_ok) {
        r.note(cat("API difference (not a violation): ", kase, ": tetl ", e_ok ? "provides" : "lacks", " it, std ", s_ok ? "provides" : "lacks", " it"));
    }
}

template <typename A, typename B>
void all_for(mc::Reporter& r, std::uint64_t& ev)
{
    one<A, B, X, lvalue, false>(r, ev);
    one<A, B, X, const_lvalue, false>(r, ev);
    one<A, B, X, rvalue, false>(r, ev);
    one<A, B, Y, lvalue, false>(r, ev);
    one<A, B, Y, const_lvalue, false>(r, ev);
    one<A, B, Y, rvalue, false>(r, ev);
    one<A, B, X, lvalue, true>(r, ev);
    one<A, B, X, const_lvalue, true>(r, ev);
    one<A, B, X, rvalue, true>(r, ev);
}

} // namespace

int main(int argc, char** argv)
{
    mc::Main m(argc, argv);
    m.job("pair/converting-from-reference-elements", {"quick", "thorough"}, [](mc::Reporter& r) {
        std::uint64_t ev = 0;
        all_for<X, X>(r, ev);
        all_for<X&, X>(r, ev);
        all_for<X, X&>(r, ev);
        all_for<X&, X&>(r, ev);
        all_for<X const&, X>(r, ev);
        all_for<X, X const&>(r, ev);
        all_for<X const&, X const&>(r, ev);
        all_for<X&, X const&>(r, ev);
        all_for<X const&, X&>(r, ev);
        r.count("evaluations", ev);
        r.count("distinct_nontrivial", ev);
    });
    return m.run();
}
