// C06: shared core of the algorithm harnesses (c06_*.cpp).
//
//  * element type E = (key, identity tag); all comparisons look at the key only, so stability and
//    "which of the equivalent elements" are observable through the tag; moving from an E marks the
//    source, so a lost element or a self-move shows up in the content
//  * every comparison/predicate/operation logs its arguments: an argument that is not an element
//    of the ranges (or the value) handed to the algorithm is counted (garbage, moved-from, filler)
//  * iterator wrappers (input single-pass, forward, bidirectional, random access, output) know
//    their valid range and count every dereference/step outside it instead of executing it
//  * all caller ranges live in exact-size heap blocks (mc::GuardedBlock): raw-pointer runs trap in
//    the san flavour or damage a canary
//  * every case is executed twice by the same generic lambda: once with Std (libstdc++), once with
//    Etl (tetl, inside mc::guarded); the two observation vectors must be equal
//  * sub-range mode (c06::g_pad = 2, jobs "sub/..."): every caller range is the middle of a larger block
//    with two distinct sentinel elements before and two after it; the wrappers then allow (and really
//    execute) accesses to the sentinels, so an algorithm that steps outside [first,last) but stays inside
//    the allocation is seen by content: a sentinel that was modified/moved-from (class .../outside_modified)
//    or handed to a predicate (its tag is never allowed: .../foreign_argument), or a wrong result
//  * E's own operator== / operator< are counted: the overloads taking a predicate/comparator must not use them
//  * M is the move-only twin of E (c06_mutate.cpp with -DC06_MOVEONLY)
#pragma once
#include "mc.hpp"

#include <etl/algorithm.hpp>
#include <etl/functional.hpp>
#include <etl/iterator.hpp>
#include <etl/numeric.hpp>
#include <etl/utility.hpp>

#include <algorithm>
#include <cstring>
#include <functional>
#include <iterator>
#include <map>
#include <new>
#include <numeric>
#include <string>
#include <vector>

namespace c06 {

using mc::cat;

// ------------------------------------------------------------------------------------------
// probe: per-execution log of everything that must not happen
// ------------------------------------------------------------------------------------------
struct Probe {
    signed char expect[64];      // expect[tag] = key of the element carrying that tag, -99 = no such element
    std::uint64_t pred_calls{0}; // arguments seen by comparisons/predicates/operations
    std::uint64_t pred_bad{0};   // ... that are not elements of the given ranges / the given value
    std::uint64_t oob_deref{0};  // wrapper dereferenced outside [lo,hi)
    std::uint64_t oob_step{0};   // wrapper moved outside [lo,hi]
    std::uint64_t oob_write{0};  // output wrapper assigned outside [lo,hi)
    std::uint64_t reread{0};     // single-pass wrapper used at a position that was already passed
    std::uint64_t op_calls{0};   // calls of the element's own operator== / operator<
    std::uint64_t sentinel_bad{0}; // sub-range mode: sentinel elements around a range that no longer hold their value
    int first_bad_key{0}, first_bad_tag{0};

    void begin()
    {
        std::memset(expect, -99, sizeof expect);
        pred_calls = pred_bad = oob_deref = oob_step = oob_write = reread = op_calls = sentinel_bad = 0;
    }
    bool clean() const
    {
        return pred_bad == 0 && oob_deref == 0 && oob_step == 0 && oob_write == 0 && reread == 0 && sentinel_bad == 0;
    }
};
inline Probe g;

/// sub-range mode: number of sentinel elements on each side of every caller range (0 or 2); set once per job
inline std::size_t g_pad = 0;

// ------------------------------------------------------------------------------------------
// element
// ------------------------------------------------------------------------------------------
struct E {
    signed char key{0};
    signed char tag{0};

    constexpr E() = default;
    constexpr E(int k, int t) : key(static_cast<signed char>(k)), tag(static_cast<signed char>(t)) { }
    constexpr E(E const&)                    = default;
    constexpr auto operator=(E const&) -> E& = default;
    constexpr E(E&& o) noexcept : key(o.key), tag(o.tag)
    {
        o.key = -7;
        o.tag = -7;
    }
    constexpr auto operator=(E&& o) noexcept -> E&
    {
        auto const k = o.key;
        auto const t = o.tag;
        o.key        = -7; // also for a self-move: the value is gone, as it may be for any standard type
        o.tag        = -7;
        if (this != &o) {
            key = k;
            tag = t;
        }
        return *this;
    }
    bool same(E const& o) const { return key == o.key && tag == o.tag; }
};

inline constexpr E filler{9, 39};      // initial content of destination buffers
inline constexpr int value_tag = 30;   // tag of the `value` argument
inline constexpr int second_tag0 = 10; // tags of the second range start here
inline constexpr int third_tag0  = 40; // tags of generated/new values

inline void allow(E const& e)
{
    if (e.tag >= 0 && e.tag < 64) { g.expect[static_cast<int>(e.tag)] = e.key; }
}
inline void arg(E const& e)
{
    ++g.pred_calls;
    if (e.tag < 0 || e.tag >= 64 || g.expect[static_cast<int>(e.tag)] != e.key) {
        if (g.pred_bad == 0) {
            g.first_bad_key = e.key;
            g.first_bad_tag = e.tag;
        }
        ++g.pred_bad;
    }
}
inline bool operator==(E const& a, E const& b)
{
    ++g.op_calls;
    arg(a);
    arg(b);
    return a.key == b.key;
}
inline bool operator!=(E const& a, E const& b) { return !(a == b); }
inline bool operator<(E const& a, E const& b)
{
    ++g.op_calls;
    arg(a);
    arg(b);
    return a.key < b.key;
}

/// move-only twin of E: same key/tag semantics, moving marks the source, copying does not exist.
/// Converts to E (a harness-side copy of key and tag) so that the logging predicates/comparators, which take
/// E const&, accept it unchanged; the libraries never name E, so they cannot use the conversion.
struct M {
    signed char key{0};
    signed char tag{0};

    constexpr M() = default;
    constexpr M(int k, int t) : key(static_cast<signed char>(k)), tag(static_cast<signed char>(t)) { }
    explicit constexpr M(E const& e) : key(e.key), tag(e.tag) { }
    M(M const&)                    = delete;
    auto operator=(M const&) -> M& = delete;
    constexpr M(M&& o) noexcept : key(o.key), tag(o.tag)
    {
        o.key = -7;
        o.tag = -7;
    }
    constexpr auto operator=(M&& o) noexcept -> M&
    {
        auto const k = o.key;
        auto const t = o.tag;
        o.key        = -7;
        o.tag        = -7;
        if (this != &o) {
            key = k;
            tag = t;
        }
        return *this;
    }
    constexpr operator E() const { return E{key, tag}; }
    bool same(E const& o) const { return key == o.key && tag == o.tag; }
};
inline bool operator==(M const& a, M const& b)
{
    ++g.op_calls;
    arg(E(a));
    arg(E(b));
    return a.key == b.key;
}
inline bool operator!=(M const& a, M const& b) { return !(a == b); }
inline bool operator<(M const& a, M const& b)
{
    ++g.op_calls;
    arg(E(a));
    arg(E(b));
    return a.key < b.key;
}

inline std::string show(E const& e)
{
    if (e.key == -7 && e.tag == -7) { return "<moved-from>"; }
    if (e.same(filler)) { return "_"; }
    if (e.key == -9 && e.tag == -9) { return "<outside>"; }
    return cat(int(e.key), "#", int(e.tag));
}
inline std::string show(int v) { return std::to_string(v); }

using Seq  = std::vector<E>;
using ISeq = std::vector<int>;

template <typename T>
std::string show(std::vector<T> const& s)
{
    std::string o = "[";
    for (std::size_t i = 0; i < s.size(); ++i) {
        if (i != 0) { o += ","; }
        o += show(s[i]);
    }
    return o + "]";
}
/// input sequences are shown by keys only: their tags are tag0 + position by construction
inline std::string keys(Seq const& s)
{
    std::string o = "[";
    for (std::size_t i = 0; i < s.size(); ++i) {
        if (i != 0) { o += ","; }
        o += std::to_string(int(s[i].key));
    }
    return o + "]";
}

/// all sequences of length 0..maxLen over keys 0..nkeys-1, shortest first, tags = tag0 + position
inline std::vector<Seq> make_pool(int maxLen, int nkeys, int tag0)
{
    std::vector<Seq> all{Seq{}};
    std::size_t lo = 0;
    for (int len = 1; len <= maxLen; ++len) {
        std::size_t const hi = all.size();
        for (std::size_t i = lo; i < hi; ++i) {
            for (int k = 0; k < nkeys; ++k) {
                auto s = all[i];
                s.push_back(E{k, tag0 + len - 1});
                all.push_back(std::move(s));
            }
        }
        lo = hi;
    }
    return all;
}
inline std::vector<ISeq> make_ipool(int maxLen, std::vector<int> const& alpha)
{
    std::vector<ISeq> all{ISeq{}};
    std::size_t lo = 0;
    for (int len = 1; len <= maxLen; ++len) {
        std::size_t const hi = all.size();
        for (std::size_t i = lo; i < hi; ++i) {
            for (int k : alpha) {
                auto s = all[i];
                s.push_back(k);
                all.push_back(std::move(s));
            }
        }
        lo = hi;
    }
    return all;
}

// ------------------------------------------------------------------------------------------
// predicates, comparators, operations (all log their arguments)
// ------------------------------------------------------------------------------------------
struct Less {
    static constexpr char const* name = "less";
    bool operator()(E const& a, E const& b) const
    {
        arg(a);
        arg(b);
        return a.key < b.key;
    }
    static bool plain(E const& a, E const& b) { return a.key < b.key; }
};
struct Greater {
    static constexpr char const* name = "greater";
    bool operator()(E const& a, E const& b) const
    {
        arg(a);
        arg(b);
        return a.key > b.key;
    }
    static bool plain(E const& a, E const& b) { return a.key > b.key; }
};
/// strict weak order with two equivalence classes (even keys before odd keys)
struct Mod2Less {
    static constexpr char const* name = "mod2less";
    bool operator()(E const& a, E const& b) const
    {
        arg(a);
        arg(b);
        return (a.key & 1) < (b.key & 1);
    }
    static bool plain(E const& a, E const& b) { return (a.key & 1) < (b.key & 1); }
};
struct EqKey {
    static constexpr char const* name = "eq";
    bool operator()(E const& a, E const& b) const
    {
        arg(a);
        arg(b);
        return a.key == b.key;
    }
};
struct EqMod2 {
    static constexpr char const* name = "eqmod2";
    bool operator()(E const& a, E const& b) const
    {
        arg(a);
        arg(b);
        return (a.key & 1) == (b.key & 1);
    }
};
struct True2 {
    static constexpr char const* name = "true";
    bool operator()(E const& a, E const& b) const
    {
        arg(a);
        arg(b);
        return true;
    }
};
struct False2 {
    static constexpr char const* name = "false";
    bool operator()(E const& a, E const& b) const
    {
        arg(a);
        arg(b);
        return false;
    }
};
/// asymmetric binary predicate: detects swapped arguments
struct LessAsPred {
    static constexpr char const* name = "lt";
    bool operator()(E const& a, E const& b) const
    {
        arg(a);
        arg(b);
        return a.key < b.key;
    }
};
struct IsOne {
    static constexpr char const* name = "key==1";
    bool operator()(E const& a) const
    {
        arg(a);
        return a.key == 1;
    }
    static bool plain(E const& a) { return a.key == 1; }
};
struct IsEven {
    static constexpr char const* name = "even";
    bool operator()(E const& a) const
    {
        arg(a);
        return (a.key & 1) == 0;
    }
    static bool plain(E const& a) { return (a.key & 1) == 0; }
};
struct LtTwo {
    static constexpr char const* name = "key<2";
    bool operator()(E const& a) const
    {
        arg(a);
        return a.key < 2;
    }
    static bool plain(E const& a) { return a.key < 2; }
};
struct True1 {
    static constexpr char const* name = "true";
    bool operator()(E const& a) const
    {
        arg(a);
        return true;
    }
    static bool plain(E const&) { return true; }
};
struct False1 {
    static constexpr char const* name = "false";
    bool operator()(E const& a) const
    {
        arg(a);
        return false;
    }
    static bool plain(E const&) { return false; }
};

// predicates whose result type is int and whose truthy value is NOT 1 (the standard only requires the result to be
// contextually convertible to bool; an algorithm that adds or compares the raw value is wrong) - added after seeded
// breakage c06_count_if_sums_truthy (`result += p(*first)`)
struct TruthyInt1 {
    static constexpr char const* name = "key!=0 (returns 0/2/4)";
    int operator()(E const& a) const
    {
        arg(a);
        return a.key * 2;
    }
    static bool plain(E const& a) { return a.key != 0; }
};
struct TruthyInt2 {
    static constexpr char const* name = "eq (returns 0/-1)";
    int operator()(E const& a, E const& b) const
    {
        arg(a);
        arg(b);
        return a.key == b.key ? -1 : 0;
    }
};

template <typename... Ts>
struct List { };
template <typename... Ts, typename Fn>
void for_types(List<Ts...>, Fn&& fn)
{
    (fn(Ts{}), ...);
}

using Orders     = List<Less, Greater, Mod2Less>;
using BinPreds   = List<EqKey, EqMod2, True2, False2, LessAsPred, TruthyInt2>;
using EquivPreds = List<EqKey, EqMod2, True2>;
using UnPreds    = List<IsOne, IsEven, LtTwo, True1, False1, TruthyInt1>;

// ------------------------------------------------------------------------------------------
// iterator wrappers
// ------------------------------------------------------------------------------------------
struct in_tag : std::input_iterator_tag, etl::input_iterator_tag { };
struct fwd_tag : std::forward_iterator_tag, etl::forward_iterator_tag { };
struct bidi_tag : std::bidirectional_iterator_tag, etl::bidirectional_iterator_tag { };
struct ra_tag : std::random_access_iterator_tag, etl::random_access_iterator_tag { };
struct out_tag : std::output_iterator_tag, etl::output_iterator_tag { };

template <typename T>
T& outside()
{
    static T d{};
    if constexpr (std::is_constructible_v<T, E const&>) {
        d = T(E{-9, -9});
    } else {
        d = T(-999);
    }
    return d;
}

template <int Rank>
using tag_for = std::conditional_t<Rank == 1, fwd_tag, std::conditional_t<Rank == 2, bidi_tag, ra_tag>>;

/// multi-pass checked iterator; Rank 1 forward, 2 bidirectional, 3 random access
template <typename T, int Rank>
struct It {
    using iterator_category = tag_for<Rank>;
    using value_type        = T;
    using difference_type   = std::ptrdiff_t;
    using pointer           = T*;
    using reference         = T&;

    T* p{nullptr};
    T* lo{nullptr};
    T* hi{nullptr};

    reference operator*() const
    {
        if (p < lo || p >= hi) {
            ++g.oob_deref;
            return outside<T>();
        }
        return *p;
    }
    pointer operator->() const { return &**this; }
    It& operator++()
    {
        if (p >= hi) {
            ++g.oob_step;
        } else {
            ++p;
        }
        return *this;
    }
    It operator++(int)
    {
        It t = *this;
        ++*this;
        return t;
    }
    It& operator--()
        requires(Rank >= 2)
    {
        if (p <= lo) {
            ++g.oob_step;
        } else {
            --p;
        }
        return *this;
    }
    It operator--(int)
        requires(Rank >= 2)
    {
        It t = *this;
        --*this;
        return t;
    }
    It& operator+=(difference_type d)
        requires(Rank >= 3)
    {
        if (d > hi - p || d < lo - p) {
            ++g.oob_step; // the pointer is left where it is: nothing outside [lo,hi] is ever formed
        } else {
            p += d;
        }
        return *this;
    }
    It& operator-=(difference_type d)
        requires(Rank >= 3)
    {
        return *this += -d;
    }
    friend It operator+(It a, difference_type d)
        requires(Rank >= 3)
    {
        a += d;
        return a;
    }
    friend It operator+(difference_type d, It a)
        requires(Rank >= 3)
    {
        a += d;
        return a;
    }
    friend It operator-(It a, difference_type d)
        requires(Rank >= 3)
    {
        a += -d;
        return a;
    }
    friend difference_type operator-(It const& a, It const& b)
        requires(Rank >= 3)
    {
        return a.p - b.p;
    }
    reference operator[](difference_type d) const
        requires(Rank >= 3)
    {
        return *(*this + d);
    }
    friend bool operator==(It const& a, It const& b) { return a.p == b.p; }
    friend bool operator!=(It const& a, It const& b) { return a.p != b.p; }
    friend bool operator<(It const& a, It const& b)
        requires(Rank >= 3)
    {
        return a.p < b.p;
    }
    friend bool operator>(It const& a, It const& b)
        requires(Rank >= 3)
    {
        return a.p > b.p;
    }
    friend bool operator<=(It const& a, It const& b)
        requires(Rank >= 3)
    {
        return a.p <= b.p;
    }
    friend bool operator>=(It const& a, It const& b)
        requires(Rank >= 3)
    {
        return a.p >= b.p;
    }
};

/// single-pass input iterator: all copies share the furthest position reached; using a copy that
/// is behind that position (dereference or increment) is a re-read
template <typename T>
struct InIt {
    using iterator_category = in_tag;
    using value_type        = T;
    using difference_type   = std::ptrdiff_t;
    using pointer           = T*;
    using reference         = T&;

    T* p{nullptr};
    T* lo{nullptr};
    T* hi{nullptr};
    T** frontier{nullptr};

    struct Post {
        T* q;
        T& operator*() const { return q ? *q : outside<T>(); }
    };

    reference operator*() const
    {
        if (p < lo || p >= hi) {
            ++g.oob_deref;
            return outside<T>();
        }
        if (frontier != nullptr && p < *frontier) { ++g.reread; }
        return *p;
    }
    pointer operator->() const { return &**this; }
    InIt& operator++()
    {
        if (p >= hi) {
            ++g.oob_step;
            return *this;
        }
        if (frontier != nullptr && p < *frontier) { ++g.reread; }
        ++p;
        if (frontier != nullptr && p > *frontier) { *frontier = p; }
        return *this;
    }
    Post operator++(int)
    {
        Post t{nullptr};
        if (p >= lo && p < hi) {
            if (frontier != nullptr && p < *frontier) { ++g.reread; }
            t.q = p;
        } else {
            ++g.oob_deref;
        }
        ++*this;
        return t;
    }
    friend bool operator==(InIt const& a, InIt const& b) { return a.p == b.p; }
    friend bool operator!=(InIt const& a, InIt const& b) { return a.p != b.p; }
};

/// write-only output iterator
template <typename T>
struct OutIt {
    using iterator_category = out_tag;
    using value_type        = void;
    using difference_type   = std::ptrdiff_t;
    using pointer           = void;
    using reference         = void;

    T* p{nullptr};
    T* lo{nullptr};
    T* hi{nullptr};

    struct Slot {
        T* q;
        Slot const& operator=(T const& v) const
        {
            if (q != nullptr) { *q = v; }
            return *this;
        }
        Slot const& operator=(T&& v) const
        {
            if (q != nullptr) { *q = std::move(v); }
            return *this;
        }
    };
    Slot operator*() const
    {
        if (p < lo || p >= hi) {
            ++g.oob_write;
            return Slot{nullptr};
        }
        return Slot{p};
    }
    OutIt& operator++()
    {
        if (p >= hi) {
            ++g.oob_step;
        } else {
            ++p;
        }
        return *this;
    }
    OutIt operator++(int)
    {
        OutIt t = *this;
        ++*this;
        return t;
    }
};

// ------------------------------------------------------------------------------------------
// buffers
// ------------------------------------------------------------------------------------------
/// i-th sentinel element of sub-range mode (0,1 before the range, 2,3 after it).  The ones adjacent to the range
/// carry the middle key 1 (smaller and greater than something under every comparator, satisfies key==1, odd),
/// the outer ones the extreme keys; the tags 50..53 are never allowed as predicate arguments.
inline constexpr E sentinel_elem[4] = {E{0, 50}, E{1, 51}, E{1, 52}, E{2, 53}};
inline constexpr int sentinel_int[4] = {1000003, 1000033, 1000037, 1000039};

template <typename T>
T make_sentinel(std::size_t i)
{
    if constexpr (std::is_constructible_v<T, E const&>) {
        return T(sentinel_elem[i]);
    } else {
        return T(sentinel_int[i]);
    }
}
template <typename T>
bool is_sentinel(T const& x, std::size_t i)
{
    if constexpr (std::is_constructible_v<T, E const&>) {
        return x.same(sentinel_elem[i]);
    } else {
        return x == T(sentinel_int[i]);
    }
}

/// a caller-supplied range: an exact-size block, or (sub-range mode) the middle of a block with sentinels around it
template <typename T>
struct Buf {
    std::size_t pad;
    std::size_t len;
    mc::GuardedBlock<T> blk;
    T* front{nullptr}; // single-pass frontier

    template <typename U>
    [[gnu::noinline]] explicit Buf(std::vector<U> const& s) : pad(g_pad), len(s.size()), blk(s.size() + 2 * g_pad)
    {
        for (std::size_t i = 0; i < len; ++i) {
            ::new (static_cast<void*>(b() + i)) T(s[i]);
            if constexpr (std::is_same_v<U, E>) { allow(s[i]); }
        }
        sentinels();
    }
    template <typename U>
    [[gnu::noinline]] Buf(std::size_t n, U const& fill) : pad(g_pad), len(n), blk(n + 2 * g_pad)
    {
        for (std::size_t i = 0; i < n; ++i) { ::new (static_cast<void*>(b() + i)) T(fill); }
        sentinels();
    }
    /// the sentinels are checked whether or not the case looks at the buffer afterwards
    ~Buf() { check(); }

    void sentinels()
    {
        for (std::size_t i = 0; i < pad; ++i) {
            ::new (static_cast<void*>(blk.data() + i)) T(make_sentinel<T>(i));
            ::new (static_cast<void*>(e() + i)) T(make_sentinel<T>(2 + i));
        }
        front = b();
    }
    [[gnu::noinline]] void check()
    {
        for (std::size_t i = 0; i < pad; ++i) {
            if (!is_sentinel(blk.data()[i], i)) { ++g.sentinel_bad; }
            if (!is_sentinel(e()[i], 2 + i)) { ++g.sentinel_bad; }
        }
        for (std::size_t i = 0; i < pad; ++i) { // restore: one damaged sentinel is counted once
            blk.data()[i] = make_sentinel<T>(i);
            e()[i]        = make_sentinel<T>(2 + i);
        }
    }
    T* b() { return blk.data() + pad; }
    T* e() { return blk.data() + pad + len; }
    /// what the checked wrappers may touch: the range itself, in sub-range mode the whole block (the access is
    /// then executed, and judged by its effect)
    T* lo() { return blk.data(); }
    T* hi() { return blk.data() + blk.size(); }
    std::size_t size() const { return len; }
};

struct Std {
    static constexpr bool is_etl = false;
};
struct Etl {
    static constexpr bool is_etl = true;
};

// flavours: how a (buffer, index) pair becomes an iterator, and an iterator an offset
struct PtrF {
    static constexpr char const* name = "ptr";
    static constexpr int rank         = 3;
    static constexpr bool checked     = false;
    static constexpr bool reversed    = false;
    template <typename L, typename T>
    static T* at(L, Buf<T>& b, std::size_t i)
    {
        return b.b() + i;
    }
    template <typename T>
    static long off(Buf<T>& b, T* it)
    {
        return it - b.b();
    }
};
template <int Rank>
struct WrapF {
    static constexpr char const* name = Rank == 1 ? "fwd" : Rank == 2 ? "bidi" : "ra";
    static constexpr int rank         = Rank;
    static constexpr bool checked     = true;
    static constexpr bool reversed    = false;
    template <typename L, typename T>
    static It<T, Rank> at(L, Buf<T>& b, std::size_t i)
    {
        return It<T, Rank>{b.b() + i, b.lo(), b.hi()};
    }
    template <typename T>
    static long off(Buf<T>& b, It<T, Rank> it)
    {
        return it.p - b.b();
    }
};
using FwdF  = WrapF<1>;
using BidiF = WrapF<2>;
using RaF   = WrapF<3>;
struct InF {
    static constexpr char const* name = "input";
    static constexpr int rank         = 0;
    static constexpr bool checked     = true;
    static constexpr bool reversed    = false;
    template <typename L, typename T>
    static InIt<T> at(L, Buf<T>& b, std::size_t i)
    {
        return InIt<T>{b.b() + i, b.lo(), b.hi(), &b.front};
    }
    template <typename T>
    static long off(Buf<T>& b, InIt<T> it)
    {
        return it.p - b.b();
    }
};
struct OutF {
    static constexpr char const* name = "output";
    static constexpr int rank         = -1;
    static constexpr bool checked     = true;
    static constexpr bool reversed    = false;
    template <typename L, typename T>
    static OutIt<T> at(L, Buf<T>& b, std::size_t i)
    {
        return OutIt<T>{b.b() + i, b.lo(), b.hi()};
    }
    template <typename T>
    static long off(Buf<T>& b, OutIt<T> it)
    {
        return it.p - b.b();
    }
};
/// index i of the reversed view of the buffer, through the library's own reverse_iterator over the
/// checked random-access wrapper (so a walk outside the block is counted, not executed)
struct RevF {
    static constexpr char const* name = "reverse_iterator<ra>";
    static constexpr int rank         = 3;
    static constexpr bool checked     = true;
    static constexpr bool reversed    = true;
    template <typename L, typename T>
    static auto at(L, Buf<T>& b, std::size_t i)
    {
        auto const base = It<T, 3>{b.e() - i, b.lo(), b.hi()};
        if constexpr (L::is_etl) {
            return etl::reverse_iterator<It<T, 3>>(base);
        } else {
            return std::reverse_iterator<It<T, 3>>(base);
        }
    }
    template <typename T, typename R>
    static long off(Buf<T>& b, R it)
    {
        return b.e() - it.base().p;
    }
};

// ------------------------------------------------------------------------------------------
// observations
// ------------------------------------------------------------------------------------------
struct Obs {
    static constexpr int cap = 120;
    std::int32_t v[cap];
    int n{0};
    bool canary{true};
    bool overflow{false};

    static constexpr std::int32_t ebase = 10000000;
    void num(long x)
    {
        if (n < cap) {
            v[n++] = static_cast<std::int32_t>(x);
        } else {
            overflow = true;
        }
    }
    void sep() { num(-77777); }
    void elem(E const& e) { num(ebase + (int(e.key) + 50) * 200 + (int(e.tag) + 50)); }
    void elem(M const& e) { num(ebase + (int(e.key) + 50) * 200 + (int(e.tag) + 50)); }
    /// arithmetic elements (c06_misc.cpp, c06_trivial.cpp): 64-bit and floating-point values keep every bit
    template <typename T>
        requires std::is_arithmetic_v<T>
    void elem(T x)
    {
        if constexpr (std::is_floating_point_v<T>) {
            dbl(static_cast<double>(x));
        } else if constexpr (sizeof(T) > 4) {
            wide(static_cast<long long>(x));
        } else {
            num(static_cast<long>(x));
        }
    }
    /// any other element type provides observe(Obs&, T const&) (found by ADL)
    template <typename T>
        requires requires(Obs& o, T const& t) { observe(o, t); }
    void elem(T const& t)
    {
        observe(*this, t);
    }
    /// 64-bit results (init types wider than the element type): two slots, never mistaken for an element
    void wide(long long x)
    {
        auto const u = static_cast<std::uint64_t>(x);
        num(-88888); // marker (only for show())
        num(static_cast<std::int32_t>(static_cast<std::uint32_t>(u >> 32)));
        num(static_cast<std::int32_t>(static_cast<std::uint32_t>(u & 0xffffffffu)));
    }
    /// floating-point results are compared bit for bit
    void dbl(double d)
    {
        std::uint64_t u = 0;
        std::memcpy(&u, &d, sizeof u);
        wide(static_cast<long long>(u));
    }
    template <typename T>
    [[gnu::noinline]] void buf(Buf<T>& b, std::size_t from = 0, std::size_t to = std::size_t(-1))
    {
        if (to > b.size()) { to = b.size(); }
        sep();
        for (std::size_t i = from; i < to; ++i) { elem(b.b()[i]); }
        if (!b.blk.intact()) { canary = false; }
    }
    /// content as a multiset (order masked)
    template <typename T>
    [[gnu::noinline]] void bag(Buf<T>& b, std::size_t from = 0, std::size_t to = std::size_t(-1))
    {
        if (to > b.size()) { to = b.size(); }
        sep();
        int const start = n;
        for (std::size_t i = from; i < to; ++i) { elem(b.b()[i]); }
        std::sort(v + start, v + n);
        if (!b.blk.intact()) { canary = false; }
    }
    /// content of positions [from,to) counted in the iteration order of flavour F (reversed for RevF)
    template <typename F, typename T>
    void view(Buf<T>& b, std::size_t from, std::size_t to)
    {
        if (to > b.size()) { to = b.size(); }
        sep();
        for (std::size_t i = from; i < to; ++i) { elem(F::reversed ? b.b()[b.size() - 1 - i] : b.b()[i]); }
        if (!b.blk.intact()) { canary = false; }
    }
    template <typename F, typename T>
    void bagv(Buf<T>& b, std::size_t from, std::size_t to)
    {
        if (to > b.size()) { to = b.size(); }
        sep();
        int const start = n;
        for (std::size_t i = from; i < to; ++i) { elem(F::reversed ? b.b()[b.size() - 1 - i] : b.b()[i]); }
        std::sort(v + start, v + n);
        if (!b.blk.intact()) { canary = false; }
    }
    template <typename T>
    void vec(std::vector<T> const& s)
    {
        sep();
        for (auto const& x : s) { elem(x); }
    }
    bool operator==(Obs const& o) const { return n == o.n && std::equal(v, v + n, o.v); }
    std::string show() const
    {
        std::string s;
        for (int i = 0; i < n; ++i) {
            if (v[i] == -77777) {
                s += " |";
            } else if (v[i] == -88888 && i + 2 < n) {
                auto const u = (static_cast<std::uint64_t>(static_cast<std::uint32_t>(v[i + 1])) << 32) | static_cast<std::uint32_t>(v[i + 2]);
                double d     = 0;
                std::memcpy(&d, &u, sizeof d);
                s += cat(" ", static_cast<long long>(u), "(as double ", d, ")");
                i += 2;
            } else if (v[i] >= ebase) {
                int const k = (v[i] - ebase) / 200 - 50;
                int const t = (v[i] - ebase) % 200 - 50;
                s += " " + c06::show(E{k, t});
            } else {
                s += " " + std::to_string(v[i]);
            }
        }
        return s;
    }
    std::uint64_t hash() const { return mc::fnv1a(v, sizeof(v[0]) * static_cast<std::size_t>(n)); }
};

// ------------------------------------------------------------------------------------------
// the runner
// ------------------------------------------------------------------------------------------
/// non-owning reference to a callable returning std::string (keeps Ctx::run's template part small)
struct TextFn {
    void* obj;
    std::string (*fn)(void*);
    template <typename F>
    explicit TextFn(F& f) : obj(static_cast<void*>(&f)), fn([](void* p) { return std::string((*static_cast<F*>(p))()); })
    {
    }
    std::string operator()() const { return fn(obj); }
};

struct Exec {
    Obs os;
    Obs oe;
    Probe ps;
    Probe pe;
    mc::Trap trap{mc::Trap::none};
    std::uint64_t san0{0};
    std::uint64_t san1{0};
};

struct Ctx {
    mc::Reporter& r;
    std::uint64_t evals{0};
    std::uint64_t nontrivial{0};
    std::map<char const*, bool> wanted;
    std::map<char const*, std::uint64_t> per_subject;
    bool stop{false};

    explicit Ctx(mc::Reporter& rep) : r(rep) { }
    ~Ctx()
    {
        r.count("evaluations", evals);
        r.count("distinct_nontrivial", nontrivial);
        std::map<std::string, std::uint64_t> merged;
        for (auto const& [k, n] : per_subject) { merged[k] += n; }
        r.count("subjects", merged.size());
        std::string s;
        for (auto const& [k, n] : merged) { s += cat(k, " x", n, "; "); }
        r.note("calls compared per subject: " + s);
    }

    [[gnu::noinline]] bool want(char const* subject)
    {
        auto it = wanted.find(subject);
        if (it == wanted.end()) { it = wanted.emplace(subject, r.want(subject)).first; }
        return it->second;
    }
    /// call in outer loops
    bool out_of_time()
    {
        if (!stop && r.deadline_passed()) {
            r.not_exhaustive("deadline");
            stop = true;
        }
        return stop;
    }

    /// body(lib, obs) performs the call with `lib` (Std{} or Etl{}) on fresh buffers and records
    /// everything the standard specifies; cls()/kase() are only evaluated for a report.
    template <typename Body, typename Cls, typename Case>
    void run(char const* subject, bool is_nontrivial, Body&& body, Cls&& cls, Case&& kase)
    {
        Exec x;
        g.begin();
        body(Std{}, x.os);
        x.ps = g;
        g.begin();
        x.san0 = mc::san_hits();
        // the barriers keep the guard's bookkeeping stores (mc::guarded) from being optimised away or moved
        // across a body that the compiler can see through completely
        x.trap = mc::guarded([&] {
            asm volatile("" ::: "memory");
            body(Etl{}, x.oe);
            asm volatile("" ::: "memory");
        });
        x.pe   = g;
        x.san1 = mc::san_hits();
        judge(subject, is_nontrivial, x, TextFn(cls), TextFn(kase));
    }

    [[gnu::noinline]] void judge(char const* subject, bool is_nontrivial, Exec const& x, TextFn cls, TextFn kase)
    {
        auto const& os = x.os;
        auto const& oe = x.oe;
        auto const& ps = x.ps;
        auto const& pe = x.pe;
        auto const t   = x.trap;
        ++evals;
        if (is_nontrivial) { ++nontrivial; }
        ++per_subject[subject];
        if (r.outcome_set.size() < (1u << 17)) { r.outcome(mc::hash_mix(mc::fnv1a(subject, std::strlen(subject)), oe.hash())); }
        // the overloads that take a predicate/comparator must not fall back on the element's own operators
        bool const ops_forbidden = std::strstr(subject, ",pred") != nullptr || std::strstr(subject, ",comp") != nullptr;
        bool const ops_ok        = !ops_forbidden || (ps.op_calls == 0 && pe.op_calls == 0);
        if (ps.clean() && os.canary && !os.overflow && !oe.overflow && t == mc::Trap::none && os == oe && pe.clean() && oe.canary
            && x.san0 == x.san1 && ops_ok) {
            return;
        }

        if (!ps.clean() || !os.canary || os.overflow || oe.overflow || (ops_forbidden && ps.op_calls != 0)) {
            // the reference run itself tripped a probe: the case is not a valid input or the harness is wrong
            r.violation("C06", cat("harness-self-check:", subject), cls(), kase(),
                cat("reference run tripped a probe: pred_bad=", ps.pred_bad, " oob_deref=", ps.oob_deref, " oob_step=", ps.oob_step,
                    " oob_write=", ps.oob_write, " reread=", ps.reread, " sentinel_bad=", ps.sentinel_bad, " op_calls=", ps.op_calls,
                    " canary=", os.canary, " obs_overflow=", os.overflow || oe.overflow));
            return;
        }
        if (t != mc::Trap::none) {
            r.violation(t == mc::Trap::assert_fired ? "C05" : "C02", subject, cat(cls(), "/", mc::trap_name(t)), kase(), mc::describe_trap(t));
            return;
        }
        if (!(os == oe)) { r.violation("C06", subject, cls(), kase(), cat("tetl:", oe.show(), "   std:", os.show())); }
        if (pe.pred_bad != 0) {
            r.violation("C06", subject, cat(cls(), "/foreign_argument"), kase(),
                cat(pe.pred_bad, " of ", pe.pred_calls, " arguments of the predicate/comparison/operation are not elements of the given ranges; first: ",
                    show(E{pe.first_bad_key, pe.first_bad_tag})));
        }
        if (pe.sentinel_bad != 0) {
            r.violation("C06", subject, cat(cls(), "/outside_modified"), kase(),
                cat(pe.sentinel_bad, " of the elements next to (but outside) the given ranges were assigned to or moved from"));
        }
        if (ops_forbidden && pe.op_calls != 0) {
            r.violation("C06", subject, cat(cls(), "/own_operator_used"), kase(),
                cat("the element type's operator== / operator< was called ", pe.op_calls, " times although a predicate/comparator was passed"));
        }
        if (pe.reread != 0) {
            r.violation("C06", subject, cat(cls(), "/single_pass_reread"), kase(),
                cat(pe.reread, " uses of an input iterator position that had already been passed"));
        }
        if (pe.oob_deref != 0 || pe.oob_step != 0 || pe.oob_write != 0) {
            r.violation("C02", subject, cat(cls(), "/outside_range"), kase(),
                cat("iterator used outside its range: dereference x", pe.oob_deref, " step x", pe.oob_step, " write x", pe.oob_write));
        }
        if (!oe.canary) { r.violation("C02", subject, cat(cls(), "/canary"), kase(), "bytes outside a caller-supplied range were modified"); }
        if (x.san1 != x.san0) { r.violation("C02", subject, cat(cls(), "/sanitizer"), kase(), "ASan/UBSan report (see job log)"); }
    }
};

// destinations: exact-size block pre-filled with the filler element, or a vector behind back_inserter
struct BackInsF {
    static constexpr char const* name = "back_inserter";
    static constexpr int rank         = -1;
};

template <typename G>
struct Dst {
    Buf<E> buf;
    explicit Dst(std::size_t k) : buf(k, filler) { }
    template <typename L>
    auto begin(L lib)
    {
        return G::at(lib, buf, 0);
    }
    template <typename L>
    auto end(L lib)
    {
        return G::at(lib, buf, buf.size());
    }
    template <typename I>
    long off(I it)
    {
        return G::off(buf, it);
    }
    void observe(Obs& o) { o.buf(buf); }
};
template <>
struct Dst<BackInsF> {
    std::vector<E> v;
    explicit Dst(std::size_t k) { v.reserve(k + 8); }
    template <typename L>
    auto begin(L)
    {
        if constexpr (L::is_etl) {
            return etl::back_inserter(v);
        } else {
            return std::back_inserter(v);
        }
    }
    template <typename I>
    long off(I)
    {
        return static_cast<long>(v.size());
    }
    void observe(Obs& o) { o.vec(v); }
};

/// the memory image whose iteration order under flavour F is `a` (so every precondition and expectation
/// written in terms of `a` holds for the range the algorithm sees)
template <typename F, typename T>
decltype(auto) mem(std::vector<T> const& a)
{
    if constexpr (F::reversed) {
        return std::vector<T>(a.rbegin(), a.rend());
    } else {
        return (a);
    }
}

/// i-th element in the iteration order of flavour F
template <typename F, typename T>
T& at_view(Buf<T>& b, std::size_t i)
{
    return F::reversed ? b.b()[b.size() - 1 - i] : b.b()[i];
}
template <typename F, typename Cm, typename T>
bool sorted_view(Buf<T>& b, std::size_t from, std::size_t to)
{
    for (std::size_t i = from; i + 1 < to; ++i) {
        if (Cm::plain(at_view<F>(b, i + 1), at_view<F>(b, i))) { return false; }
    }
    return true;
}

// picks the library inside a generic lambda: C06_ALG(find)(lib, first, last, value)
#define C06_ALG(name)                                                                                                           \
    [](auto lib_, auto&&... a_) -> decltype(auto) {                                                                             \
        if constexpr (decltype(lib_)::is_etl) {                                                                                 \
            return etl::name(static_cast<decltype(a_)&&>(a_)...);                                                               \
        } else {                                                                                                                \
            return std::name(static_cast<decltype(a_)&&>(a_)...);                                                               \
        }                                                                                                                       \
    }

inline std::string len_class(std::size_t n)
{
    if (n == 0) { return "empty"; }
    if (n == 1) { return "single"; }
    return "general";
}

template <typename Cmp>
bool sorted_by(Seq const& s)
{
    return std::is_sorted(s.begin(), s.end(), [](E const& a, E const& b) { return Cmp::plain(a, b); });
}

struct Bounds {
    int L; // primary sequences: length 0..L
    int M; // second ranges / needles: length 0..M
};
inline Bounds bounds(mc::Reporter& r, int qL, int qM, int tL, int tM, int sanL = 0, int sanM = 0)
{
    if (!r.thorough()) { return {qL, qM}; }
#if defined(MC_FLAVOUR_SAN)
    if (sanL != 0) { return {sanL, sanM}; }
#endif
    (void)sanL;
    (void)sanM;
    return {tL, tM};
}

/// wraps a job body: the same enumeration in sub-range mode (see the top of this file)
template <typename Fn>
auto sub(Fn fn)
{
    return [fn](mc::Reporter& r) {
        g_pad = 2;
        fn(r);
        r.sample("sub-range mode: every range above is the middle of a larger block, sentinels 0#50 1#51 | range | 1#52 2#53 "
                 "(ints: 1000003 1000033 | range | 1000037 1000039); wrappers may reach the sentinels");
    };
}

} // namespace c06
