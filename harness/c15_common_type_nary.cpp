// C15, common_type with THREE arguments (added after seeded breakage c15_common_type_right_fold: the n-ary
// fold was turned from a left fold into a right fold; "has a common type" is not associative, so the two folds
// differ for e.g. <int*, char*, void*> (std: no type, right fold: void*) and <Base*, Left*, Right*>).
// Enumerated: every ordered triple over an 11-type zoo (arithmetic types, object/void pointers, pointers into a
// small class hierarchy, a class with one-way conversions) = 1331 cells + every ordered 4-tuple over a 5-type
// sub-zoo = 625 cells.  Each cell is computed at compile time as {std has ::type, etl has ::type, same type};
// disagreement is a reported case (the cells are table entries, not static_asserts).
#include "mc.hpp"

#include <etl/type_traits.hpp>

#include <array>
#include <string>
#include <type_traits>
#include <utility>

using mc::cat;

namespace {

struct Base { };
struct Left : Base { };
struct Right : Base { };
struct FromInt {
    FromInt(int) { } // int -> FromInt, but not back
};

template <typename... Ts>
struct TL {
    static constexpr std::size_t size = sizeof...(Ts);
};
template <std::size_t I, typename L>
struct At;
template <std::size_t I, typename T, typename... Ts>
struct At<I, TL<T, Ts...>> : At<I - 1, TL<Ts...>> { };
template <typename T, typename... Ts>
struct At<0, TL<T, Ts...>> {
    using type = T;
};

using Zoo3 = TL<int, long, char, double, int*, char*, void*, Base*, Left*, Right*, FromInt>;
using Zoo4 = TL<int, char*, void*, Base*, Left*>;
constexpr char const* names3[] = {"int", "long", "char", "double", "int*", "char*", "void*", "Base*", "Left*", "Right*", "FromInt"};
constexpr char const* names4[] = {"int", "char*", "void*", "Base*", "Left*"};

template <template <typename...> class CT, typename... Ts>
concept has_type = requires { typename CT<Ts...>::type; };

struct Cell {
    bool std_has, etl_has, same;
};

template <typename... Ts>
constexpr Cell cell()
{
    constexpr bool s = has_type<std::common_type, Ts...>;
    constexpr bool e = has_type<etl::common_type, Ts...>;
    bool same        = true;
    if constexpr (s && e) { same = std::is_same_v<typename std::common_type<Ts...>::type, typename etl::common_type<Ts...>::type>; }
    return {s, e, same};
}

// one table per FIRST argument (keeps each fold expression at N*N resp. N*N*N elements)
template <std::size_t I>
constexpr auto table3_first()
{
    constexpr std::size_t N = Zoo3::size;
    std::array<Cell, N * N> t{};
    [&]<std::size_t... K>(std::index_sequence<K...>) {
        ((t[K] = cell<typename At<I, Zoo3>::type, typename At<K / N, Zoo3>::type, typename At<K % N, Zoo3>::type>()), ...);
    }(std::make_index_sequence<N * N>{});
    return t;
}
template <std::size_t I>
constexpr auto table4_first()
{
    constexpr std::size_t N = Zoo4::size;
    std::array<Cell, N * N * N> t{};
    [&]<std::size_t... K>(std::index_sequence<K...>) {
        ((t[K] = cell<typename At<I, Zoo4>::type, typename At<K / (N * N), Zoo4>::type, typename At<(K / N) % N, Zoo4>::type, typename At<K % N, Zoo4>::type>()), ...);
    }(std::make_index_sequence<N * N * N>{});
    return t;
}

void judge(mc::Reporter& r, Cell const& c, std::string const& kase, std::uint64_t& ev, std::uint64_t& nt)
{
    ++ev;
    if (c.std_has) { ++nt; }
    r.outcome(mc::hash_str(cat(c.std_has, c.etl_has, c.same)));
    char const* cls = nullptr;
    if (c.std_has && !c.etl_has) { cls = "std_has_type_etl_not"; }
    if (!c.std_has && c.etl_has) { cls = "etl_has_type_std_not"; }
    if (c.std_has && c.etl_has && !c.same) { cls = "different_type"; }
    if (cls != nullptr) { r.violation("C15", "common_type<T1,T2,T3...>", cls, kase, cat("std has ::type: ", c.std_has, ", etl has ::type: ", c.etl_has, ", same: ", c.same)); }
}

} // namespace

int main(int argc, char** argv)
{
    mc::Main m(argc, argv);
    m.job("common_type/three-arguments", {"quick", "thorough"}, [](mc::Reporter& r) {
        constexpr std::size_t N = Zoo3::size;
        std::uint64_t ev = 0, nt = 0;
        [&]<std::size_t... I>(std::index_sequence<I...>) {
            (([&] {
                static constexpr auto t = table3_first<I>();
                for (std::size_t k = 0; k < t.size(); ++k) { judge(r, t[k], cat("common_type<", names3[I], ", ", names3[k / N], ", ", names3[k % N], ">"), ev, nt); }
            }()),
                ...);
        }(std::make_index_sequence<N>{});
        r.sample("common_type<int*, char*, void*> (std: no ::type), common_type<Base*, Left*, Right*> (std: Base*), ... all 11^3 ordered triples");
        r.count("evaluations", ev);
        r.count("distinct_nontrivial", nt);
    });
    m.job("common_type/four-arguments", {"quick", "thorough"}, [](mc::Reporter& r) {
        constexpr std::size_t N = Zoo4::size;
        std::uint64_t ev = 0, nt = 0;
        [&]<std::size_t... I>(std::index_sequence<I...>) {
            (([&] {
                static constexpr auto t = table4_first<I>();
                for (std::size_t k = 0; k < t.size(); ++k) {
                    judge(r, t[k], cat("common_type<", names4[I], ", ", names4[k / (N * N)], ", ", names4[(k / N) % N], ", ", names4[k % N], ">"), ev, nt);
                }
            }()),
                ...);
        }(std::make_index_sequence<N>{});
        r.sample("all 5^4 ordered 4-tuples over {int, char*, void*, Base*, Left*}");
        r.count("evaluations", ev);
        r.count("distinct_nontrivial", nt);
    });
    return m.run();
}
