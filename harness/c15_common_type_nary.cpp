// C15, common_type with THREE arguments (added after seeded breakage c15_common_type_right_fold: the n-ary
// fold was turned from a left fold into a right fold; "has a common type" is not associative, so the two folds
// differ for e.g. <int*, char*, void*> (std: no type, right fold: void*) and <Base*, Left*, Right*>).
// Enumerated: every ordered triple over an 11-type zoo (arithmetic types, object/void pointers, pointers into a
// small class hierarchy, a class with one-way conversions) = 1331 cells + every ordered 4-tuple over a 5-type
// sub-zoo = 625 cells.  Each cell is computed at compile time as {std has ::type, etl has ::type, same type};
// disagreement is a reported case (the cells are table entries, not static_asserts).
#include "mc.hpp"

#include <etl/type_traits.hpp>

#include <array>
#include <string>
#include <type_traits>
#include <utility>

using mc::cat;

namespace {

struct Base { };
struct Left : Base { };
struct Right : Base { };
struct FromInt {
    FromInt(int) { } // int -> FromInt, but not back
};

// round 2: program-defined specialisations.  [meta.trans.other]/3.3.1 routes common_type<T1, T2> through
// common_type<decay_t<T1>, decay_t<T2>> whenever decay changes a type, so a specialisation for <UA, UB> must be found
// for every cv/ref flavour of the arguments (this is how chrono::duration gets its common type); UD/UE are specialised
// in ONE order only, UC is the common type and converts from both.
struct UA { };
struct UB { };
struct UC {
    UC() = default;
    UC(UA);
    UC(UB);
};
struct UD { };
struct UE { };
} // namespace
template <> struct std::common_type<UA, UB> { using type = UC; };
template <> struct std::common_type<UB, UA> { using type = UC; };
template <> struct etl::common_type<UA, UB> { using type = UC; };
template <> struct etl::common_type<UB, UA> { using type = UC; };
template <> struct std::common_type<UD, UE> { using type = UC; };
template <> struct etl::common_type<UD, UE> { using type = UC; };
namespace {

template <typename... Ts>
struct TL {
    static constexpr std::size_t size = sizeof...(Ts);
};
template <std::size_t I, typename L>
struct At;
template <std::size_t I, typename T, typename... Ts>
struct At<I, TL<T, Ts...>> : At<I - 1, TL<Ts...>> { };
template <typename T, typename... Ts>
struct At<0, TL<T, Ts...>> {
    using type = T;
};

using Zoo3 = TL<int, long, char, double, int*, char*, void*, Base*, Left*, Right*, FromInt>;
using Zoo4 = TL<int, char*, void*, Base*, Left*>;
constexpr char const* names3[] = {"int", "long", "char", "double", "int*", "char*", "void*", "Base*", "Left*", "Right*", "FromInt"};
constexpr char const* names4[] = {"int", "char*", "void*", "Base*", "Left*"};

template <template <typename...> class CT, typename... Ts>
concept has_type = requires { typename CT<Ts...>::type; };

struct Cell {
    bool std_has, etl_has, same;
};

template <typename... Ts>
constexpr Cell cell()
{
    constexpr bool s = has_type<std::common_type, Ts...>;
    constexpr bool e = has_type<etl::common_type, Ts...>;
    bool same        = true;
    if constexpr (s && e) { same = std::is_same_v<typename std::common_type<Ts...>::type, typename etl::common_type<Ts...>::type>; }
    return {s, e, same};
}

// one table per FIRST argument (keeps each fold expression at N*N resp. N*N*N elements)
template <std::size_t I>
constexpr auto table3_first()
{
    constexpr std::size_t N = Zoo3::size;
    std::array<Cell, N * N> t{};
    [&]<std::size_t... K>(std::index_sequence<K...>) {
        ((t[K] = cell<typename At<I, Zoo3>::type, typename At<K / N, Zoo3>::type, typename At<K % N, Zoo3>::type>()), ...);
    }(std::make_index_sequence<N * N>{});
    return t;
}
template <std::size_t I>
constexpr auto table4_first()
{
    constexpr std::size_t N = Zoo4::size;
    std::array<Cell, N * N * N> t{};
    [&]<std::size_t... K>(std::index_sequence<K...>) {
        ((t[K] = cell<typename At<I, Zoo4>::type, typename At<K / (N * N), Zoo4>::type, typename At<(K / N) % N, Zoo4>::type, typename At<K % N, Zoo4>::type>()), ...);
    }(std::make_index_sequence<N * N * N>{});
    return t;
}

// cv/ref flavours of an argument
template <typename T, std::size_t V>
struct Flavour;
template <typename T> struct Flavour<T, 0> { using type = T; };
template <typename T> struct Flavour<T, 1> { using type = T&; };
template <typename T> struct Flavour<T, 2> { using type = T const&; };
template <typename T> struct Flavour<T, 3> { using type = T&&; };
template <typename T> struct Flavour<T, 4> { using type = T const; };
template <typename T> struct Flavour<T, 5> { using type = T volatile&; };
template <typename T> struct Flavour<T, 6> { using type = T const volatile; };
constexpr std::size_t NFL = 7;
constexpr char const* flavour_names[NFL] = {"", "&", " const&", "&&", " const", " volatile&", " const volatile"};
using UserFirst  = TL<UA, UB, UD, UE, UA, UC>;
using UserSecond = TL<UB, UA, UE, UD, UC, UB>;
constexpr char const* user_first[]  = {"UA", "UB", "UD", "UE", "UA", "UC"};
constexpr char const* user_second[] = {"UB", "UA", "UE", "UD", "UC", "UB"};
template <std::size_t P>
constexpr auto table_user_pair()
{
    std::array<Cell, NFL * NFL> t{};
    [&]<std::size_t... K>(std::index_sequence<K...>) {
        ((t[K] = cell<typename Flavour<typename At<P, UserFirst>::type, K / NFL>::type, typename Flavour<typename At<P, UserSecond>::type, K % NFL>::type>()), ...);
    }(std::make_index_sequence<NFL * NFL>{});
    return t;
}
// three arguments: <UA flavour, UB flavour, third> and <third, UA flavour, UB flavour>
using Thirds = TL<UC, UC&, UC const, int, UA, UB&>;
constexpr char const* third_names[] = {"UC", "UC&", "UC const", "int", "UA", "UB&"};
template <std::size_t Th, bool ThirdFirst>
constexpr auto table_user_triple()
{
    std::array<Cell, NFL * NFL> t{};
    [&]<std::size_t... K>(std::index_sequence<K...>) {
        if constexpr (ThirdFirst) {
            ((t[K] = cell<typename At<Th, Thirds>::type, typename Flavour<UA, K / NFL>::type, typename Flavour<UB, K % NFL>::type>()), ...);
        } else {
            ((t[K] = cell<typename Flavour<UA, K / NFL>::type, typename Flavour<UB, K % NFL>::type, typename At<Th, Thirds>::type>()), ...);
        }
    }(std::make_index_sequence<NFL * NFL>{});
    return t;
}

void judge(mc::Reporter& r, Cell const& c, std::string const& kase, std::uint64_t& ev, std::uint64_t& nt, char const* subject = "common_type<T1,T2,T3...>", char const* cls_suffix = "");
void judge(mc::Reporter& r, Cell const& c, std::string const& kase, std::uint64_t& ev, std::uint64_t& nt, char const* subject, char const* cls_suffix)
{
    ++ev;
    if (c.std_has) { ++nt; }
    r.outcome(mc::hash_str(cat(c.std_has, c.etl_has, c.same)));
    char const* cls = nullptr;
    if (c.std_has && !c.etl_has) { cls = "std_has_type_etl_not"; }
    if (!c.std_has && c.etl_has) { cls = "etl_has_type_std_not"; }
    if (c.std_has && c.etl_has && !c.same) { cls = "different_type"; }
    if (cls != nullptr) { r.violation("C15", subject, cat(cls, cls_suffix), kase, cat("std has ::type: ", c.std_has, ", etl has ::type: ", c.etl_has, ", same: ", c.same)); }
}

} // namespace

int main(int argc, char** argv)
{
    mc::Main m(argc, argv);
    m.job("common_type/three-arguments", {"quick", "thorough"}, [](mc::Reporter& r) {
        constexpr std::size_t N = Zoo3::size;
        std::uint64_t ev = 0, nt = 0;
        [&]<std::size_t... I>(std::index_sequence<I...>) {
            (([&] {
                static constexpr auto t = table3_first<I>();
                for (std::size_t k = 0; k < t.size(); ++k) { judge(r, t[k], cat("common_type<", names3[I], ", ", names3[k / N], ", ", names3[k % N], ">"), ev, nt); }
            }()),
                ...);
        }(std::make_index_sequence<N>{});
        r.sample("common_type<int*, char*, void*> (std: no ::type), common_type<Base*, Left*, Right*> (std: Base*), ... all 11^3 ordered triples");
        r.count("evaluations", ev);
        r.count("distinct_nontrivial", nt);
    });
    m.job("common_type/four-arguments", {"quick", "thorough"}, [](mc::Reporter& r) {
        constexpr std::size_t N = Zoo4::size;
        std::uint64_t ev = 0, nt = 0;
        [&]<std::size_t... I>(std::index_sequence<I...>) {
            (([&] {
                static constexpr auto t = table4_first<I>();
                for (std::size_t k = 0; k < t.size(); ++k) {
                    judge(r, t[k], cat("common_type<", names4[I], ", ", names4[k / (N * N)], ", ", names4[(k / N) % N], ", ", names4[k % N], ">"), ev, nt);
                }
            }()),
                ...);
        }(std::make_index_sequence<N>{});
        r.sample("all 5^4 ordered 4-tuples over {int, char*, void*, Base*, Left*}");
        r.count("evaluations", ev);
        r.count("distinct_nontrivial", nt);
    });
    m.job("common_type/user-specialisations", {"quick", "thorough"}, [](mc::Reporter& r) {
        std::uint64_t ev = 0, nt = 0;
        [&]<std::size_t... P>(std::index_sequence<P...>) {
            (([&] {
                static constexpr auto t = table_user_pair<P>();
                for (std::size_t k = 0; k < t.size(); ++k) {
                    bool const decays = (k / NFL) != 0 || (k % NFL) != 0;
                    judge(r, t[k], cat("common_type<", user_first[P], flavour_names[k / NFL], ", ", user_second[P], flavour_names[k % NFL], ">"), ev, nt,
                        "common_type<T,U> (program-defined specialisation)", decays ? "+cvref_arguments" : "");
                }
            }()),
                ...);
        }(std::make_index_sequence<UserFirst::size>{});
        [&]<std::size_t... Th>(std::index_sequence<Th...>) {
            (([&] {
                static constexpr auto t1 = table_user_triple<Th, false>();
                static constexpr auto t2 = table_user_triple<Th, true>();
                for (std::size_t k = 0; k < t1.size(); ++k) {
                    bool const decays = (k / NFL) != 0 || (k % NFL) != 0;
                    judge(r, t1[k], cat("common_type<UA", flavour_names[k / NFL], ", UB", flavour_names[k % NFL], ", ", third_names[Th], ">"), ev, nt,
                        "common_type<T1,T2,T3> (program-defined specialisation)", decays ? "+cvref_arguments" : "");
                    judge(r, t2[k], cat("common_type<", third_names[Th], ", UA", flavour_names[k / NFL], ", UB", flavour_names[k % NFL], ">"), ev, nt,
                        "common_type<T1,T2,T3> (program-defined specialisation)", decays ? "+cvref_arguments" : "");
                }
            }()),
                ...);
        }(std::make_index_sequence<Thirds::size>{});
        r.sample("common_type<UA&, UB const> with common_type<UA, UB> specialised as UC ... 6 pairs x 7 x 7 cv/ref flavours + 6 third arguments x 2 positions x 49");
        r.count("evaluations", ev);
        r.count("distinct_nontrivial", nt);
    });
    return m.run();
}
