// C07 (and the variant part of C03; C02/C05 ride along): etl::variant<Ts...> explored to a fixed
// point in lock-step with std::variant<twin<Ts>...>.
//
// State  = (active index, value or "moved-from", object bytes when no alternative is tracked).
// Unary  = value-init, in_place_index/in_place_type construction, converting construction from
//          every alternative type (rvalue and lvalue) and from one extra convertible type,
//          copy/move construction, emplace<I>/emplace<T>, converting assignment (rvalue, lvalue,
//          extra type, and the aliasing v = unchecked_get<I>(v)), self copy/move assignment,
//          self swap, "move out", visit with a by-value visitor on an rvalue.
// Binary = copy/move assignment, etl::swap, six relational operators, visit and
//          visit_with_index with two (and for <= 3 alternatives three) variants, over all pairs.
// Observers (every new state): index, holds_alternative, get_if<I>/get_if<T> (const and not, all I,
//          null pointer argument), unchecked_get<I> and operator[] on the active alternative in
//          all four value categories, visit / visit_with_index with one variant in all four
//          categories and with an additional non-variant argument.
//
// Round 2 (extra configurations in MC_PART 1-3, MC_PART 5): alternative lists with DUPLICATE types (variant<int,int>,
// variant<int,float,int>, variant<Tracked,Tracked>, ...) and with 5-8 alternatives.  With a duplicate
// type everything that names an alternative by type is ill-formed in std and in tetl alike
// (in_place_type, emplace<T>, get_if<T>, holds_alternative, converting construction/assignment), so
// those configurations run the index-only menu (in_place_index, emplace<I>, get_if<I>, index(),
// unchecked_get<I>, operator[], copy/move construction and assignment, swap, relational operators,
// visit / visit_with_index with one, two and - up to three alternatives - three variants).
#include "c07_common.hpp"

#include <etl/variant.hpp>

#include <variant>

using namespace c07;

namespace {

enum Kind : int {
    v_value_init,
    v_in_place_index,
    v_in_place_type,
    v_conv_r,
    v_conv_l,
    v_conv_x,
    v_copy,
    v_move,
    m_emplace_index,
    m_emplace_type,
    a_conv_r,
    a_conv_l,
    a_conv_x,
    a_alias,
    self_copy_assign,
    self_move_assign,
    self_swap,
    move_out,
    visit_r_byvalue,
    b_copy_assign,
    b_move_assign,
    b_swap,
    b_relational,
    b_visit2,
    kind_count
};

char const* kind_subject(int k)
{
    static char const* names[] = {"variant::variant() value-init", "variant::variant(in_place_index_t<I>,args)",
        "variant::variant(in_place_type_t<T>,args)", "variant::variant(T&&)", "variant::variant(T const&)",
        "variant::variant(T&&) converting", "variant::variant(variant const&)", "variant::variant(variant&&)", "variant::emplace<I>",
        "variant::emplace<T>", "variant::operator=(T&&)", "variant::operator=(T const&)", "variant::operator=(T&&) converting",
        "variant::operator=(own alternative)", "variant::operator=(variant const&) self", "variant::operator=(variant&&) self",
        "etl::swap(variant,self)", "variant::variant(variant&&) source", "visit(F,variant&&) by-value", "variant::operator=(variant const&)",
        "variant::operator=(variant&&)", "etl::swap(variant,variant)", "variant relational operators", "visit(F,variant,variant)"};
    static_assert(sizeof(names) / sizeof(names[0]) == kind_count);
    return names[k];
}

// visitor that logs which alternative(s), value category and value it was called with
struct LogV {
    std::string* log;
    template <typename... X>
    int operator()(X&&... x) const
    {
        int r = 1;
        ((*log += cat(aname<std::remove_cvref_t<X>>(), catname<X&&>(), ":", val(x), " ")), ...);
        ((r = r * 7 + val(x) + 2), ...);
        *log += "|";
        return r;
    }
};
// visitor taking its argument by value (moves out of an rvalue variant)
struct LogByValue {
    std::string* log;
    template <typename X>
    int operator()(X x) const
    {
        *log += cat(aname<X>(), ":", val(x), "|");
        return val(x);
    }
};
// visit_with_index visitor: logs index constant and value
struct LogVI {
    std::string* log;
    template <typename... P>
    int operator()(P... p) const
    {
        int r = 1;
        ((*log += cat("#", static_cast<std::size_t>(p.index), "=", val(p.value()), " ")), ...);
        ((r = r * 7 + val(p.value()) + 2), ...);
        return r;
    }
};

struct NoExtra { };

template <typename T, typename... Us>
inline constexpr std::size_t count_of = (std::size_t(0) + ... + (std::is_same_v<T, Us> ? 1 : 0));

// Bytes: make the object representation part of the state key (only sensible when all alternatives
// have one size; with overlapping alternatives of different sizes the stale-byte residue multiplies
// the state count by three orders of magnitude without reaching new code)
template <int K, bool Bytes, typename X, typename... Ts>
struct VariantSys {
    using V      = etl::variant<Ts...>;
    using M      = std::variant<twin_t<Ts>...>;
    using State  = Box<V, M>;
    using Action = c07::Action;
    static constexpr std::size_t N = sizeof...(Ts);
    static constexpr bool tracked  = any_tracked_v<Ts...>;
    static constexpr bool copyable = (std::is_copy_constructible_v<Ts> && ...);
    static constexpr bool has_x    = !std::is_same_v<X, NoExtra>;
    /// every alternative type occurs once: the by-type API (and converting construction/assignment) is well-formed
    static constexpr bool unique = ((count_of<Ts, Ts...> == 1) && ...);
    template <std::size_t I>
    using EA = std::tuple_element_t<I, std::tuple<Ts...>>;
    template <std::size_t I>
    using MA = twin_t<EA<I>>;

    static constexpr bool tracked_at(std::size_t i)
    {
        bool const t[] = {mc::is_tracked_v<Ts>...};
        return t[i];
    }
    static constexpr bool unit_at(std::size_t i)
    {
        bool const t[] = {std::is_same_v<Ts, etl::monostate>...};
        return t[i];
    }
    // (with a duplicate alternative type the traits below must not even be instantiated: tetl's alternative
    // selector inherits from one functor per alternative, and a duplicate base class is a hard error)
    template <typename VV, typename MM, typename A, typename B>
    static constexpr bool both_constructible()
    {
        if constexpr (unique) {
            return std::is_constructible_v<VV, A> && std::is_constructible_v<MM, B>;
        } else {
            return false;
        }
    }
    template <typename VV, typename MM, typename A, typename B>
    static constexpr bool both_assignable()
    {
        if constexpr (unique) {
            return std::is_assignable_v<VV&, A> && std::is_assignable_v<MM&, B>;
        } else {
            return false;
        }
    }
    template <std::size_t I>
    static constexpr bool conv_r_ok = both_constructible<V, M, EA<I>, MA<I>>();
    template <std::size_t I>
    static constexpr bool conv_l_ok = both_constructible<V, M, EA<I> const&, MA<I> const&>();
    template <std::size_t I>
    static constexpr bool asg_r_ok = both_assignable<V, M, EA<I>, MA<I>>();
    template <std::size_t I>
    static constexpr bool asg_l_ok = both_assignable<V, M, EA<I> const&, MA<I> const&>();

    std::string name() const
    {
        std::string s = "variant<";
        bool first    = true;
        ((s += (first ? "" : ","), s += aname<Ts>(), first = false), ...);
        return s + ">";
    }
    std::string family() const { return "variant"; }
    std::string show(Action const& a) const { return cat(kind_subject(a.k), "[", a.a, ",", a.b, "]"); }
    std::string subject(Action const& a) const { return kind_subject(a.k); }

    static int mval(M const& m)
    {
        return std::visit([](auto const& x) { return val(x); }, m);
    }
    static int ival(V const& v)
    {
        int r = -99;
        with_index<N>(v.index(), [&](auto I) {
            auto const* p = etl::get_if<decltype(I)::value>(&v);
            r             = p != nullptr ? val(*p) : -98;
        });
        return r;
    }
    // class predicates: relation between the alternatives involved (not their numbers), moved-from flags
    static std::string st(M const& m) { return mval(m) < 0 ? "moved-from" : "live"; }
    static std::string rel(std::size_t from, std::size_t to) { return from == to ? "same_alt" : (from < to ? "to_higher_alt" : "to_lower_alt"); }
    static std::string mshow(M const& m) { return cat(m.index(), ":", mval(m)); }

    void unary(State const& s, std::vector<Action>& out) const
    {
        out.push_back({v_value_init, 0, 0});
        for (int i = 0; i < int(N); ++i) {
            for (int k = 0; k < (unit_at(std::size_t(i)) ? 1 : K); ++k) {
                out.push_back({v_in_place_index, i, k});
                out.push_back({m_emplace_index, i, k});
                if constexpr (unique) {
                    out.push_back({v_in_place_type, i, k});
                    out.push_back({v_conv_r, i, k});
                    if constexpr (copyable) { out.push_back({v_conv_l, i, k}); }
                    out.push_back({m_emplace_type, i, k});
                    out.push_back({a_conv_r, i, k});
                    if constexpr (copyable) { out.push_back({a_conv_l, i, k}); }
                }
            }
        }
        if constexpr (has_x) {
            for (int k = 0; k < K; ++k) {
                out.push_back({v_conv_x, 0, k});
                out.push_back({a_conv_x, 0, k});
            }
        }
        if constexpr (copyable) {
            out.push_back({v_copy, 0, 0});
            out.push_back({self_copy_assign, 0, 0});
            if constexpr (unique) { out.push_back({a_alias, int(s.m.index()), 0}); }
        }
        out.push_back({v_move, 0, 0});
        out.push_back({self_move_assign, 0, 0});
        out.push_back({self_swap, 0, 0});
        out.push_back({move_out, 0, 0});
        out.push_back({visit_r_byvalue, 0, 0});
    }

    void binary(std::vector<Action>& out) const
    {
        if constexpr (copyable) { out.push_back({b_copy_assign, 0, 0}); }
        out.push_back({b_move_assign, 0, 0});
        out.push_back({b_swap, 0, 0});
        out.push_back({b_relational, 0, 0});
        out.push_back({b_visit2, 0, 0});
    }

    bool same(Cx& cx, std::string const& subj, std::string const& cls, V const& v, M const& m, char const* what) const
    {
        cx.r.count("comparisons");
        auto const ie = v.index();
        if (ie >= N) {
            cx.fail("C07", subj, cls, cat(what, ": index() = ", ie, " is not a valid alternative index"));
            return false;
        }
        if (ie != m.index()) {
            cx.fail("C07", subj, cls, cat(what, ": index() tetl=", ie, " std=", m.index()));
            return false;
        }
        int const a = ival(v);
        int const b = mval(m);
        if (a != b) {
            cx.fail("C07", subj, cls, cat(what, ": value of alternative ", ie, " tetl=", a, " std=", b));
            return false;
        }
        return true;
    }

    void lifetimes(Cx& cx, std::string const& subj, std::string const& cls, State const& s, char const* what) const
    {
        if constexpr (tracked) {
            drain_lifetimes(cx, subj, cls);
            check_live(cx, subj, cls, s.lo(), s.hi(), tracked_at(s.m.index()) ? 1U : 0U, what);
        }
    }

    void apply(State& s, Action const& a, State* p, Cx& cx)
    {
        V& v            = *s.v;
        M& m            = s.m;
        auto const subj = subject(a);
        std::string cls = st(m);
        if (p != nullptr) { cls = cat(rel(p->m.index(), m.index()), "/", st(m), "+", st(p->m)); }
        note_case(cx, name(), mshow(m), a, p != nullptr ? mshow(p->m) : std::string());
        bool check_other = false;
        switch (a.k) {
        case v_value_init: {
            cls = "general";
            v.~V();
            std::memset(s.buf, s.poison, sizeof s.buf);
            s.v = ::new (static_cast<void*>(s.buf)) V{};
            m   = M{};
            break;
        }
        case v_in_place_index: {
            cls = "general";
            with_index<N>(std::size_t(a.a), [&](auto I) {
                constexpr std::size_t i = decltype(I)::value;
                s.recreate(etl::in_place_index<i>, make<EA<i>>(a.b));
                m = M(std::in_place_index<i>, make<MA<i>>(a.b));
            });
            break;
        }
        case v_in_place_type: {
            cls = "general";
            with_index<N>(std::size_t(a.a), [&](auto I) {
                constexpr std::size_t i = decltype(I)::value;
                if constexpr (unique) {
                    s.recreate(etl::in_place_type<EA<i>>, make<EA<i>>(a.b));
                    m = M(std::in_place_type<MA<i>>, make<MA<i>>(a.b));
                }
            });
            break;
        }
        case v_conv_r: {
            cls = "general";
            with_index<N>(std::size_t(a.a), [&](auto I) {
                constexpr std::size_t i = decltype(I)::value;
                if constexpr (conv_r_ok<i>) {
                    s.recreate(make<EA<i>>(a.b));
                    m = M(make<MA<i>>(a.b));
                }
            });
            break;
        }
        case v_conv_l: {
            cls = "general";
            with_index<N>(std::size_t(a.a), [&](auto I) {
                constexpr std::size_t i = decltype(I)::value;
                if constexpr (conv_l_ok<i>) {
                    EA<i> const x(make<EA<i>>(a.b));
                    MA<i> const y(make<MA<i>>(a.b));
                    s.recreate(x);
                    m = M(y);
                    ceq(cx, "C07", subj, cls, "const source unchanged", val(x), val(y));
                }
            });
            break;
        }
        case v_conv_x: {
            cls = "general";
            if constexpr (has_x) {
                s.recreate(make<X>(a.b));
                m = M(make<X>(a.b));
            }
            break;
        }
        case v_copy: {
            if constexpr (copyable) {
                alignas(V) unsigned char tmp[sizeof(V)];
                std::memset(tmp, 0x5A, sizeof tmp);
                V* t = ::new (static_cast<void*>(tmp)) V(static_cast<V const&>(v));
                same(cx, subj, cls, *t, m, "copy");
                same(cx, subj, cls, v, m, "source after copy construction");
                t->template emplace<0>();
                same(cx, subj, cls, v, m, "source after changing its copy");
                t->~V();
                V* t2 = ::new (static_cast<void*>(tmp)) V(static_cast<V const&>(v));
                s.recreate(std::move(*t2));
                t2->~V();
                M m2(static_cast<M const&>(m));
                m = M(std::move(m2));
            }
            break;
        }
        case v_move: {
            alignas(V) unsigned char tmp[sizeof(V)];
            std::memset(tmp, 0x5A, sizeof tmp);
            V* t = ::new (static_cast<void*>(tmp)) V(std::move(v));
            M mt(std::move(m));
            same(cx, subj, cls, *t, mt, "moved-to object");
            same(cx, subj, cls, v, m, "moved-from source");
            v.template emplace<0>(); // the moved-from source must stay usable
            s.recreate(std::move(*t));
            t->~V();
            m = M(std::move(mt));
            break;
        }
        case m_emplace_index: {
            cls = cat(rel(m.index(), std::size_t(a.a)), "/", cls);
            with_index<N>(std::size_t(a.a), [&](auto I) {
                constexpr std::size_t i = decltype(I)::value;
                auto& ret               = v.template emplace<i>(make<EA<i>>(a.b));
                m.template emplace<i>(make<MA<i>>(a.b));
                static_assert(std::is_same_v<decltype(ret), EA<i>&>);
                ceq(cx, "C07", subj, cls, "returned reference is the new alternative", &ret == etl::get_if<i>(&v), true);
            });
            break;
        }
        case m_emplace_type: {
            cls = cat(rel(m.index(), std::size_t(a.a)), "/", cls);
            with_index<N>(std::size_t(a.a), [&](auto I) {
                constexpr std::size_t i = decltype(I)::value;
                if constexpr (unique) {
                    auto& ret = v.template emplace<EA<i>>(make<EA<i>>(a.b));
                    m.template emplace<MA<i>>(make<MA<i>>(a.b));
                    ceq(cx, "C07", subj, cls, "returned reference is the new alternative", &ret == etl::get_if<i>(&v), true);
                }
            });
            break;
        }
        case a_conv_r: {
            cls = cat(rel(m.index(), std::size_t(a.a)), "/", cls);
            with_index<N>(std::size_t(a.a), [&](auto I) {
                constexpr std::size_t i = decltype(I)::value;
                if constexpr (asg_r_ok<i>) {
                    V& ret = (v = make<EA<i>>(a.b));
                    m      = make<MA<i>>(a.b);
                    if (&ret != &v) { cx.fail("C07", subj, cls, "operator= did not return *this"); }
                }
            });
            break;
        }
        case a_conv_l: {
            cls = cat(rel(m.index(), std::size_t(a.a)), "/", cls);
            with_index<N>(std::size_t(a.a), [&](auto I) {
                constexpr std::size_t i = decltype(I)::value;
                if constexpr (asg_l_ok<i>) {
                    EA<i> const x(make<EA<i>>(a.b));
                    MA<i> const y(make<MA<i>>(a.b));
                    v = x;
                    m = y;
                    ceq(cx, "C07", subj, cls, "const source unchanged", val(x), val(y));
                }
            });
            break;
        }
        case a_conv_x: {
            if constexpr (has_x) {
                v = make<X>(a.b);
                m = make<X>(a.b);
            }
            break;
        }
        case a_alias: {
            cls = "own_alternative/" + cls;
            // v = <reference to v's own active alternative>; std::variant assigns through (same index)
            if constexpr (copyable) {
                with_index<N>(std::size_t(a.a), [&](auto I) {
                    constexpr std::size_t i = decltype(I)::value;
                    if constexpr (asg_l_ok<i>) {
                        if (v.index() == i) { v = etl::unchecked_get<i>(static_cast<V const&>(v)); }
                    }
                });
                // model unchanged
            }
            break;
        }
        case self_copy_assign: {
            if constexpr (copyable) {
                V const& self = v;
                v             = self;
                // model unchanged: self copy-assignment must leave the value unchanged (C03)
            }
            break;
        }
        case self_move_assign: {
            V& self = v;
            v       = std::move(self);
            // only required to leave a valid object: bring the model to whatever tetl holds
            if constexpr (tracked) { drain_lifetimes(cx, subj, cls); }
            auto const ie = v.index();
            if (ie < N) {
                int const now = ival(v);
                with_index<N>(ie, [&](auto I) {
                    constexpr std::size_t i = decltype(I)::value;
                    if constexpr (std::is_same_v<EA<i>, etl::monostate>) {
                        m.template emplace<i>();
                    } else if constexpr (std::is_floating_point_v<EA<i>>) {
                        m.template emplace<i>(static_cast<EA<i>>(now) / 2);
                    } else {
                        m.template emplace<i>(static_cast<std::conditional_t<std::is_arithmetic_v<EA<i>>, EA<i>, int>>(now));
                    }
                });
            }
            break;
        }
        case self_swap: {
            using etl::swap;
            swap(v, v);
            break; // model unchanged
        }
        case move_out: {
            V t(std::move(v));
            M mt(std::move(m));
            same(cx, subj, cls, t, mt, "moved-to object");
            break;
        }
        case visit_r_byvalue: {
            std::string le, lm;
            int const re = etl::visit(LogByValue{&le}, std::move(v));
            int const rm = std::visit(LogByValue{&lm}, std::move(m));
            ceq(cx, "C07", subj, cls, "visitor invocations", le, lm);
            ceq(cx, "C07", subj, cls, "result", re, rm);
            break;
        }
        case b_copy_assign: {
            if constexpr (copyable) {
                V& ret = (v = static_cast<V const&>(*p->v));
                if (&ret != &v) { cx.fail("C07", subj, cls, "operator= did not return *this"); }
                m           = static_cast<M const&>(p->m);
                check_other = true;
            }
            break;
        }
        case b_move_assign: {
            v           = std::move(*p->v);
            m           = std::move(p->m);
            check_other = true;
            break;
        }
        case b_swap: {
            using etl::swap;
            swap(v, *p->v);
            using std::swap;
            swap(m, p->m);
            check_other = true;
            break;
        }
        case b_relational: {
            V const& x  = v;
            V const& y  = *p->v;
            M const& mx = m;
            M const& my = p->m;
            ceq(cx, "C07", subj, cls, "==", x == y, mx == my);
            ceq(cx, "C07", subj, cls, "!=", x != y, mx != my);
            ceq(cx, "C07", subj, cls, "<", x < y, mx < my);
            ceq(cx, "C07", subj, cls, "<=", x <= y, mx <= my);
            ceq(cx, "C07", subj, cls, ">", x > y, mx > my);
            ceq(cx, "C07", subj, cls, ">=", x >= y, mx >= my);
            break;
        }
        case b_visit2: {
            V& x        = v;
            V const& cy = *p->v;
            M& mx       = m;
            M const& my = p->m;
            {
                std::string le, lm;
                int const re = etl::visit(LogV{&le}, x, cy);
                int const rm = std::visit(LogV{&lm}, mx, my);
                ceq(cx, "C07", subj, cls, "visit(f, v&, w const&) invocations", le, lm);
                ceq(cx, "C07", subj, cls, "visit(f, v&, w const&) result", re, rm);
            }
            {
                std::string le, lm;
                int const re = etl::visit(LogV{&le}, std::move(cy), std::move(x)); // reference visitor: nothing is moved
                int const rm = std::visit(LogV{&lm}, std::move(my), std::move(mx));
                ceq(cx, "C07", subj, cls, "visit(f, w const&&, v&&) invocations", le, lm);
                ceq(cx, "C07", subj, cls, "visit(f, w const&&, v&&) result", re, rm);
            }
            {
                // visit_with_index has no std counterpart: the visitor must see exactly the active (index, value) pairs
                std::string le;
                int const re     = etl::visit_with_index(LogVI{&le}, x, cy);
                std::string want = cat("#", mx.index(), "=", mval(mx), " #", my.index(), "=", mval(my), " ");
                ceq(cx, "C07", "visit_with_index(F,variant,variant)", cls, "invocations", le, want);
                ceq(cx, "C07", "visit_with_index(F,variant,variant)", cls, "result", re, (1 * 7 + mval(mx) + 2) * 7 + mval(my) + 2);
            }
            if constexpr (N <= 3) {
                std::string le, lm;
                int const re = etl::visit(LogV{&le}, cy, x, cy);
                int const rm = std::visit(LogV{&lm}, my, mx, my);
                ceq(cx, "C07", "visit(F,variant,variant,variant)", cls, "invocations", le, lm);
                ceq(cx, "C07", "visit(F,variant,variant,variant)", cls, "result", re, rm);
                std::string li;
                int const ri     = etl::visit_with_index(LogVI{&li}, cy, x, cy);
                std::string want = cat("#", my.index(), "=", mval(my), " #", mx.index(), "=", mval(mx), " #", my.index(), "=", mval(my), " ");
                ceq(cx, "C07", "visit_with_index(F,variant,variant,variant)", cls, "invocations", li, want);
                ceq(cx, "C07", "visit_with_index(F,variant,variant,variant)", cls, "result", ri, ((1 * 7 + mval(my) + 2) * 7 + mval(mx) + 2) * 7 + mval(my) + 2);
            }
            break;
        }
        default: break;
        }
        same(cx, subj, cls, *s.v, s.m, "after the operation");
        lifetimes(cx, subj, cls, s, "after the operation");
        if (check_other && p != nullptr) {
            same(cx, subj, cls, *p->v, p->m, "other operand after the operation");
            lifetimes(cx, subj, cls, *p, "other operand");
        }
    }

    void observe(State const& s, Cx& cx) const
    {
        V& v        = *s.v;
        V const& cv = *s.v;
        M& m        = const_cast<M&>(s.m);
        M const& cm = s.m;
        // class: position of the active alternative in the list (dispatch bugs are positional) + moved-from flag
        std::string const cls = cat(cm.index() == 0 ? "first_alt" : (cm.index() + 1 == N ? "last_alt" : "middle_alt"), "/", st(cm));
        if (!ceq(cx, "C07", "variant::index", cls, "index()", cv.index(), cm.index())) { return; }
        std::size_t const act = cm.index();
        with_index<N>(act, [&](auto A) {
            constexpr std::size_t ai = decltype(A)::value;
            // accessors of the active alternative, four value categories
            int const want = val(std::get<ai>(cm));
            ceq(cx, "C07", "unchecked_get<I>(variant)", cls, "unchecked_get &", val(etl::unchecked_get<ai>(v)), want);
            ceq(cx, "C07", "unchecked_get<I>(variant)", cls, "unchecked_get const&", val(etl::unchecked_get<ai>(cv)), want);
            ceq(cx, "C07", "unchecked_get<I>(variant)", cls, "unchecked_get &&", val(etl::unchecked_get<ai>(std::move(v))), want);
            ceq(cx, "C07", "unchecked_get<I>(variant)", cls, "unchecked_get const&&", val(etl::unchecked_get<ai>(std::move(cv))), want);
            static_assert(std::is_same_v<decltype(etl::unchecked_get<ai>(v)), EA<ai>&>);
            static_assert(std::is_same_v<decltype(etl::unchecked_get<ai>(cv)), EA<ai> const&>);
            static_assert(std::is_same_v<decltype(etl::unchecked_get<ai>(std::move(v))), EA<ai>&&>);
            static_assert(std::is_same_v<decltype(etl::unchecked_get<ai>(std::move(cv))), EA<ai> const&&>);
            ceq(cx, "C07", "variant::operator[](index_constant<I>)", cls, "v[index_v<I>] &", val(v[etl::index_v<ai>]), want);
            ceq(cx, "C07", "variant::operator[](index_constant<I>)", cls, "v[index_v<I>] const&", val(cv[etl::index_v<ai>]), want);
            ceq(cx, "C07", "variant::operator[](index_constant<I>)", cls, "v[index_v<I>] &&", val(std::move(v)[etl::index_v<ai>]), want);
            ceq(cx, "C07", "variant::operator[](index_constant<I>)", cls, "v[index_v<I>] const&&", val(std::move(cv)[etl::index_v<ai>]), want);
        });
        // holds_alternative / get_if for every alternative
        [&]<std::size_t... I>(std::index_sequence<I...>) {
            auto one = [&](auto Ic) {
                constexpr std::size_t i = decltype(Ic)::value;
                auto* pi        = etl::get_if<i>(&v);
                auto const* pci = etl::get_if<i>(&cv);
                static_assert(std::is_same_v<decltype(pi), EA<i>*> && std::is_same_v<decltype(pci), EA<i> const*>);
                auto const* pm = std::get_if<i>(&cm);
                ceq(cx, "C07", "get_if<I>(variant*)", cls, cat("get_if<", i, "> null-ness"), pi == nullptr, pm == nullptr);
                ceq(cx, "C07", "get_if<I>(variant*)", cls, cat("get_if<", i, "> const null-ness"), pci == nullptr, pm == nullptr);
                if (pm != nullptr && pi != nullptr && pci != nullptr) {
                    ceq(cx, "C07", "get_if<I>(variant*)", cls, "value", val(*pi), val(*pm));
                    ceq(cx, "C07", "get_if<I>(variant*)", cls, "all accessors refer to one object", pi == pci && pi == &etl::unchecked_get<i>(v), true);
                }
                V* nv        = nullptr;
                V const* ncv = nullptr;
                ceq(cx, "C07", "get_if<I>(variant*)", "null_pointer", "get_if<I>(nullptr)", etl::get_if<i>(nv) == nullptr && etl::get_if<i>(ncv) == nullptr, true);
                if constexpr (unique) {
                    ceq(cx, "C07", "holds_alternative<T>(variant)", cls, cat("holds_alternative<", aname<EA<i>>(), ">"), etl::holds_alternative<EA<i>>(cv),
                        std::holds_alternative<MA<i>>(cm));
                    auto* pt        = etl::get_if<EA<i>>(&v);
                    auto const* pct = etl::get_if<EA<i>>(&cv);
                    static_assert(std::is_same_v<decltype(pt), EA<i>*> && std::is_same_v<decltype(pct), EA<i> const*>);
                    ceq(cx, "C07", "get_if<T>(variant*)", cls, cat("get_if<", aname<EA<i>>(), "> null-ness"), pt == nullptr, pm == nullptr);
                    ceq(cx, "C07", "get_if<T>(variant*)", cls, cat("get_if<", aname<EA<i>>(), "> const null-ness"), pct == nullptr, pm == nullptr);
                    if (pm != nullptr && pt != nullptr && pct != nullptr) {
                        ceq(cx, "C07", "get_if<T>(variant*)", cls, "all accessors refer to one object", pt == pct && pt == pi, true);
                    }
                    ceq(cx, "C07", "get_if<T>(variant*)", "null_pointer", "get_if<T>(nullptr)", etl::get_if<EA<i>>(nv) == nullptr && etl::get_if<EA<i>>(ncv) == nullptr, true);
                }
            };
            (one(std::integral_constant<std::size_t, I>{}), ...);
        }(std::make_index_sequence<N>{});
        // visit with one variant, four value categories (reference visitor: nothing is moved)
        {
            std::string const sj = "visit(F,variant)";
            {
                std::string le, lm;
                int const re = etl::visit(LogV{&le}, v);
                int const rm = std::visit(LogV{&lm}, m);
                ceq(cx, "C07", sj, cls + "/&", "invocations", le, lm);
                ceq(cx, "C07", sj, cls + "/&", "result", re, rm);
            }
            {
                std::string le, lm;
                int const re = etl::visit(LogV{&le}, cv);
                int const rm = std::visit(LogV{&lm}, cm);
                ceq(cx, "C07", sj, cls + "/const&", "invocations", le, lm);
                ceq(cx, "C07", sj, cls + "/const&", "result", re, rm);
            }
            {
                std::string le, lm;
                int const re = etl::visit(LogV{&le}, std::move(v));
                int const rm = std::visit(LogV{&lm}, std::move(m));
                ceq(cx, "C07", sj, cls + "/&&", "invocations", le, lm);
                ceq(cx, "C07", sj, cls + "/&&", "result", re, rm);
            }
            {
                std::string le, lm;
                int const re = etl::visit(LogV{&le}, std::move(cv));
                int const rm = std::visit(LogV{&lm}, std::move(cm));
                ceq(cx, "C07", sj, cls + "/const&&", "invocations", le, lm);
                ceq(cx, "C07", sj, cls + "/const&&", "result", re, rm);
            }
        }
        {
            // visit_with_index and the tetl extension "non-variant arguments are passed through": closed form
            std::string le;
            int const re = etl::visit_with_index(LogVI{&le}, cv);
            ceq(cx, "C07", "visit_with_index(F,variant)", cls, "invocations", le, cat("#", act, "=", mval(cm), " "));
            ceq(cx, "C07", "visit_with_index(F,variant)", cls, "result", re, 1 * 7 + mval(cm) + 2);
            std::string l2;
            int const seven = 7;
            int const r2    = etl::visit(LogV{&l2}, cv, seven);
            std::string want;
            std::visit([&](auto const& x) { want = cat(aname<std::remove_cvref_t<decltype(x)>>(), "const&:", val(x), " intconst&:7 |"); }, cm);
            ceq(cx, "C07", "visit(F,variant,non-variant)", cls, "invocations", l2, want);
            ceq(cx, "C07", "visit(F,variant,non-variant)", cls, "result", r2, (1 * 7 + mval(cm) + 2) * 7 + 7 + 2);
        }
        same(cx, "variant::<observers>", cls, cv, cm, "after the observers");
        if constexpr (tracked) { drain_lifetimes(cx, "variant::<observers>", cls); }
    }

    std::string key(State const& s) const
    {
        std::string k = mshow(s.m);
        k += '|';
        k += obs(s);
        if constexpr (Bytes && State::keyed_bytes) {
            k += '|';
            k += s.bytes();
        }
        return k;
    }
    std::string obs(State const& s) const
    {
        auto const i = s.v->index();
        if (i >= N) { return cat("bad-index ", i); }
        return cat(i, ":", ival(*s.v));
    }

    void retire(State& s, Cx& cx) const
    {
        if (s.dead) { return; }
        s.v->~V();
        s.dead = true;
        if constexpr (tracked) {
            drain_lifetimes(cx, "variant::~variant", st(s.m));
            auto const live = registry().live_in(s.lo(), s.hi());
            if (live != 0) {
                cx.fail("C03", "variant::~variant", st(s.m) + "/leak", cat(live, " object(s) still alive after the owner was destroyed"));
                registry().forget_range(s.lo(), s.hi());
            }
        }
    }
};

using TA  = mc::Tracked<mc::copy_move, 0>;
using TB  = mc::Tracked<mc::copy_move, 1>;
using TMO = mc::Tracked<mc::move_only, 0>;
using TR  = mc::Tracked<mc::rule3, 0>; // trivial copy assignment, user-provided copy constructor + destructor
using TRB = mc::Tracked<mc::rule3, 1>;

} // namespace

int main(int argc, char** argv)
{
    mc::Main m(argc, argv);
    std::vector<std::string> const both{"quick", "thorough"};
    std::vector<std::string> const th{"thorough"};
#if !defined(MC_PART) || MC_PART == 1
    m.job("variant<int,float>/k3", both, [](mc::Reporter& r) { explore<VariantSys<3, true, short, int, float>>(r); });
    m.job("variant<int,short,char>/k3", both, [](mc::Reporter& r) { explore<VariantSys<3, true, NoExtra, int, short, char>>(r); });
    // round 2: duplicate alternative types (index-only menu), 5 alternatives
    m.job("variant<int,int>/k3", both, [](mc::Reporter& r) { explore<VariantSys<3, true, NoExtra, int, int>>(r); });
    m.job("variant<int,float,int>/k3", both, [](mc::Reporter& r) { explore<VariantSys<3, true, NoExtra, int, float, int>>(r); });
    m.job("variant<char,short,int,long,float>/k2", both, [](mc::Reporter& r) { explore<VariantSys<2, false, NoExtra, char, short, int, long, float>>(r); });
#endif
#if !defined(MC_PART) || MC_PART == 2
    m.job("variant<int,Tracked>/k3", both, [](mc::Reporter& r) { explore<VariantSys<3, false, short, int, TA>>(r); });
    m.job("variant<TrackedMoveOnly,int>/k3", both, [](mc::Reporter& r) { explore<VariantSys<3, false, NoExtra, TMO, int>>(r); });
    m.job("variant<Tracked,Tracked>/k3", both, [](mc::Reporter& r) { explore<VariantSys<3, false, NoExtra, TA, TA>>(r); }); // round 2
    m.job("variant<TrackedRule3,TrackedRule3B>/k3", both, [](mc::Reporter& r) { explore<VariantSys<3, false, NoExtra, TR, TRB>>(r); });
    m.job("variant<int,TrackedRule3>/k3", both, [](mc::Reporter& r) { explore<VariantSys<3, false, NoExtra, int, TR>>(r); });
#endif
#if !defined(MC_PART) || MC_PART == 3
    m.job("variant<monostate,Tracked,TrackedB,short>/k3", both, [](mc::Reporter& r) { explore<VariantSys<3, false, NoExtra, etl::monostate, TA, TB, short>>(r); });
    // round 2: 6 alternatives, a duplicate type among non-trivial ones
    m.job("variant<monostate,int,Tracked,short,TrackedB,int>/k2", both,
        [](mc::Reporter& r) { explore<VariantSys<2, false, NoExtra, etl::monostate, int, TA, short, TB, int>>(r); });
#endif
#if !defined(MC_PART) || MC_PART == 4
    m.job("variant<int,float>/k4", th, [](mc::Reporter& r) { explore<VariantSys<4, true, short, int, float>>(r); });
    m.job("variant<int,Tracked>/k4", th, [](mc::Reporter& r) { explore<VariantSys<4, false, short, int, TA>>(r); });
#endif
#if !defined(MC_PART) || MC_PART == 5
    // 7-8 alternatives (both ends of the union recursion and of the visit dispatch chain), move-only duplicates
    m.job("variant<char,short,int,long,float,double,unsigned,longlong>/k2", th,
        [](mc::Reporter& r) { explore<VariantSys<2, false, NoExtra, char, short, int, long, float, double, unsigned, long long>>(r); });
    m.job("variant<int x8>/k2", th, [](mc::Reporter& r) { explore<VariantSys<2, true, NoExtra, int, int, int, int, int, int, int, int>>(r); });
    m.job("variant<TrackedMoveOnly,int,TrackedMoveOnly>/k3", th, [](mc::Reporter& r) { explore<VariantSys<3, false, NoExtra, TMO, int, TMO>>(r); });
    m.job("variant<short,Tracked,monostate,int,TrackedB,short,Tracked>/k2", th,
        [](mc::Reporter& r) { explore<VariantSys<2, false, NoExtra, short, TA, etl::monostate, int, TB, short, TA>>(r); });
    m.job("variant<int,int>/k4", th, [](mc::Reporter& r) { explore<VariantSys<4, true, NoExtra, int, int>>(r); });
#endif
    return m.run();
}
