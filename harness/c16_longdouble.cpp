// C16, long double overloads of the exactly specified cmath functions against libm's *l functions.
// The main C16 sweeps cover float and double; for long double most tetl functions have no compiler
// builtin behind them and run the library's own code at run time, a path nothing else compares with
// libm (C13 only compares constant evaluation with run time, which can be wrong alike).  Added after
// seeded breakage c16_hypot_inf_nan showed that a non-main code path can hide a special-case bug.
// Enumerated: the boundary set BL (signed zeros, denormals, powers of two +- 1 ulp over the whole
// exponent range in steps, halfway cases n+0.5 and neighbours, 2^63/2^64 neighbours, limits, infinities,
// NaNs) for unary functions and BL' x BL' (a 60-value subset) for binary ones.  Oracle: bit identity with
// floorl, ceill, ... (NaN == NaN; the sign of a NaN result is not compared).
#include "mc.hpp"

#include <etl/cmath.hpp>

#include "c16_ldsets.hpp"

#include <array>
#include <cfloat>
#include <cmath>
#include <cstring>
#include <limits>
#include <string>
#include <vector>

using mc::cat;
using LD = long double;
using c16ld::boundary;
using c16ld::boundary_binary;

namespace {

std::string show(LD v)
{
    char b[64];
    std::snprintf(b, sizeof b, "%La", v);
    return b;
}
char const* coarse(LD v)
{
    if (v != v) { return "nan"; }
    if (std::isinf(v)) { return v > 0 ? "+inf" : "-inf"; }
    if (v == 0) { return std::signbit(v) ? "-0" : "+0"; }
    LD const a = std::fabs(v);
    if (a < LDBL_MIN) { return v < 0 ? "-denorm" : "+denorm"; }
    if (a >= 0x1p63L) { return v < 0 ? "-huge" : "+huge"; }
    if (a < 1) { return v < 0 ? "-frac" : "+frac"; }
    return (std::floor(a) == a) ? (v < 0 ? "-int" : "+int") : (v < 0 ? "-fin" : "+fin");
}
bool same(LD a, LD b)
{
    if (a != a || b != b) { return (a != a) && (b != b); }
    return a == b && std::signbit(a) == std::signbit(b);
}

struct Ctx {
    mc::Reporter& r;
    std::uint64_t evals{0}, nontrivial{0};
};

template <typename FE, typename FS>
void unary(Ctx& c, char const* name, std::vector<LD> const& B, FE fe, FS fs)
{
    std::string const subject = cat("etl::", name, "(long double)");
    for (LD x : B) {
        volatile LD vx = x;
        LD const a     = vx;
        LD got{}, want{};
        mc::Trap t = mc::guarded([&] {
            got  = static_cast<LD>(fe(a));
            want = static_cast<LD>(fs(a));
        });
        ++c.evals;
        if (a == a && !std::isinf(a) && a != 0) { ++c.nontrivial; }
        if (t != mc::Trap::none) {
            c.r.violation("C02", subject, cat(coarse(a), "/", mc::trap_name(t)), cat(name, "(", show(a), ")"), mc::describe_trap(t));
            continue;
        }
        c.r.outcome(mc::hash_str(cat(name, show(want))));
        if (!same(got, want)) { c.r.violation("C16", subject, coarse(a), cat(name, "(", show(a), ")"), cat("tetl=", show(got), " libm=", show(want))); }
    }
    c.r.sample(cat(subject, " over ", B.size(), " boundary values, e.g. ", name, "(", show(B[B.size() / 2]), ")"));
}

template <typename FE, typename FS>
void binary(Ctx& c, char const* name, std::vector<LD> const& B, FE fe, FS fs)
{
    std::string const subject = cat("etl::", name, "(long double,long double)");
    for (LD x : B) {
        for (LD y : B) {
            volatile LD vx = x, vy = y;
            LD const a = vx, b = vy;
            LD got{}, want{};
            mc::Trap t = mc::guarded([&] {
                got  = static_cast<LD>(fe(a, b));
                want = static_cast<LD>(fs(a, b));
            });
            ++c.evals;
            if (a == a && b == b && !std::isinf(a) && !std::isinf(b) && a != 0 && b != 0) { ++c.nontrivial; }
            if (t != mc::Trap::none) {
                c.r.violation("C02", subject, cat(coarse(a), ",", coarse(b), "/", mc::trap_name(t)), cat(name, "(", show(a), ", ", show(b), ")"), mc::describe_trap(t));
                continue;
            }
            if (!same(got, want)) {
                c.r.violation("C16", subject, cat(coarse(a), ",", coarse(b)), cat(name, "(", show(a), ", ", show(b), ")"), cat("tetl=", show(got), " libm=", show(want)));
            }
        }
    }
    c.r.sample(cat(subject, " over ", B.size(), "^2 boundary pairs"));
}

// fmod / remainder in the gradual-underflow range on the CONSTANT-EVALUATION path of float and double (at run time
// these two types go to the compiler builtin, so only a constexpr table reaches the library's own code)
constexpr std::size_t NG = 22;
template <typename T>
constexpr auto subnormal_grid() -> std::array<T, NG>
{
    std::array<T, NG> g{};
    T const dm = std::numeric_limits<T>::denorm_min();
    T const mn = std::numeric_limits<T>::min();
    for (std::size_t k = 0; k < 13; ++k) { g[k] = T(k + 1) * dm; }
    for (std::size_t k = 0; k < 5; ++k) { g[13 + k] = mn + T(k) * dm; }
    g[18] = mn / 2;
    g[19] = mn * T(1.5);
    g[20] = mn * 2 + dm;
    g[21] = mn * 3;
    return g;
}
template <typename T, bool Rem>
constexpr auto subnormal_table() -> std::array<T, NG * NG * 2>
{
    std::array<T, NG * NG * 2> r{};
    auto const g = subnormal_grid<T>();
    for (std::size_t i = 0; i < NG; ++i) {
        for (std::size_t j = 0; j < NG; ++j) {
            if constexpr (Rem) {
                r[(i * NG + j) * 2]     = etl::remainder(g[i], g[j]);
                r[(i * NG + j) * 2 + 1] = etl::remainder(-g[i], g[j]);
            } else {
                r[(i * NG + j) * 2]     = etl::fmod(g[i], g[j]);
                r[(i * NG + j) * 2 + 1] = etl::fmod(-g[i], g[j]);
            }
        }
    }
    return r;
}
template <typename T>
bool same_bits(T a, T b)
{
    if (a != a || b != b) { return (a != a) && (b != b); }
    return a == b && std::signbit(a) == std::signbit(b);
}
template <typename T, bool Rem>
void constexpr_subnormal(mc::Reporter& r, char const* tn)
{
    static constexpr auto tbl = subnormal_table<T, Rem>();
    auto const g              = subnormal_grid<T>();
    std::string const subject = cat("etl::", Rem ? "remainder" : "fmod", " (constant evaluation)");
    std::uint64_t ev = 0;
    for (std::size_t i = 0; i < NG; ++i) {
        for (std::size_t j = 0; j < NG; ++j) {
            for (int neg = 0; neg < 2; ++neg) {
                volatile T vx = neg ? -g[i] : g[i];
                volatile T vy = g[j];
                T const x = vx, y = vy;
                T const want = Rem ? std::remainder(x, y) : std::fmod(x, y);
                T const got  = tbl[(i * NG + j) * 2 + std::size_t(neg)];
                ++ev;
                if (!same_bits(got, want)) {
                    r.violation("C16", subject, "subnormal_range", cat(Rem ? "remainder" : "fmod", "(", tn, " ", show(LD(x)), ", ", show(LD(y)), ")"),
                        cat("constant-evaluated ", show(LD(got)), " libm ", show(LD(want))));
                }
                r.outcome(mc::hash_str(show(LD(want))));
            }
        }
    }
    r.count("evaluations", ev);
    r.count("distinct_nontrivial", ev);
    r.sample(cat(subject, " ", tn, ": x,y in {k*denorm_min (k=1..13), min+k*denorm_min (k=0..4), min/2, 1.5min, 2min+dm, 3min}, both signs of x"));
}

// lrint/llrint are only defined by C when the rounded value is representable
// (the ROUNDED value: 2^63 - 0.5 exists in long double and rounds to 2^63)
bool fits_ll(LD x) { return x == x && x >= -0x1p63L && x < 0x1p63L - 0.5L; }

} // namespace

int main(int argc, char** argv)
{
    mc::Main m(argc, argv);
    m.job("long double/unary", {"quick", "thorough"}, [](mc::Reporter& r) {
        Ctx c{r};
        auto const B = boundary(!r.thorough());
        unary(c, "floor", B, [](LD x) { return etl::floor(x); }, [](LD x) { return std::floor(x); });
        unary(c, "ceil", B, [](LD x) { return etl::ceil(x); }, [](LD x) { return std::ceil(x); });
        unary(c, "trunc", B, [](LD x) { return etl::trunc(x); }, [](LD x) { return std::trunc(x); });
        unary(c, "round", B, [](LD x) { return etl::round(x); }, [](LD x) { return std::round(x); });
        if constexpr (requires(LD x) { etl::rint(x); }) {
            unary(c, "rint", B, [](LD x) { return etl::rint(x); }, [](LD x) { return std::rint(x); });
        }
        if constexpr (requires(LD x) { etl::lrint(x); }) {
            std::vector<LD> F;
            for (LD x : B) {
                if (fits_ll(x)) { F.push_back(x); }
            }
            unary(c, "lrint", F, [](LD x) { return etl::lrint(x); }, [](LD x) { return std::lrint(x); });
            unary(c, "llrint", F, [](LD x) { return etl::llrint(x); }, [](LD x) { return std::llrint(x); });
        }
        unary(c, "fabs", B, [](LD x) { return etl::fabs(x); }, [](LD x) { return std::fabs(x); });
        unary(c, "abs", B, [](LD x) { return etl::abs(x); }, [](LD x) { return std::fabs(x); });
        unary(c, "signbit", B, [](LD x) { return LD(etl::signbit(x)); }, [](LD x) { return LD(std::signbit(x)); });
        unary(c, "isnan", B, [](LD x) { return LD(etl::isnan(x)); }, [](LD x) { return LD(std::isnan(x)); });
        unary(c, "isinf", B, [](LD x) { return LD(etl::isinf(x)); }, [](LD x) { return LD(std::isinf(x)); });
        unary(c, "isfinite", B, [](LD x) { return LD(etl::isfinite(x)); }, [](LD x) { return LD(std::isfinite(x)); });
        r.count("evaluations", c.evals);
        r.count("distinct_nontrivial", c.nontrivial);
    });
    m.job("long double/binary", {"quick", "thorough"}, [](mc::Reporter& r) {
        Ctx c{r};
        auto const B = boundary_binary();
        binary(c, "copysign", B, [](LD x, LD y) { return etl::copysign(x, y); }, [](LD x, LD y) { return std::copysign(x, y); });
        // the sign of fmin/fmax of two zeros of opposite sign is unspecified by C: compared as magnitude only
        auto zz = [](LD x, LD y, LD r) { return (x == 0 && y == 0) ? std::fabs(r) : r; };
        binary(c, "fmin", B, [zz](LD x, LD y) { return zz(x, y, etl::fmin(x, y)); }, [zz](LD x, LD y) { return zz(x, y, std::fmin(x, y)); });
        binary(c, "fmax", B, [zz](LD x, LD y) { return zz(x, y, etl::fmax(x, y)); }, [zz](LD x, LD y) { return zz(x, y, std::fmax(x, y)); });
        binary(c, "fdim", B, [](LD x, LD y) { return etl::fdim(x, y); }, [](LD x, LD y) { return std::fdim(x, y); });
        binary(c, "fmod", B, [](LD x, LD y) { return etl::fmod(x, y); }, [](LD x, LD y) { return std::fmod(x, y); });
        binary(c, "remainder", B, [](LD x, LD y) { return etl::remainder(x, y); }, [](LD x, LD y) { return std::remainder(x, y); });
        r.count("evaluations", c.evals);
        r.count("distinct_nontrivial", c.nontrivial);
    });
    m.job("constexpr-subnormal/fmod+remainder", {"quick", "thorough"}, [](mc::Reporter& r) {
        constexpr_subnormal<float, false>(r, "float");
        constexpr_subnormal<float, true>(r, "float");
        constexpr_subnormal<double, false>(r, "double");
        constexpr_subnormal<double, true>(r, "double");
    });
    return m.run();
}
