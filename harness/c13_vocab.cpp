// C13, vocabulary types and fixed-capacity containers replayed at compile time (round 2): every
// operation history of a bounded length over an explicit operation alphabet, from every listed
// initial state, is executed once by the compiler's abstract machine (which also rejects reads of
// inactive union members, of uninitialised storage, out-of-bounds accesses, shifts by the width,
// signed overflow) and once at run time from volatile-laundered codes at -O0 and -O2.  The state is
// hashed after every step.
//
// Groups (one or more per translation unit, chosen by MC_PART):
//   OPT   optional<int>, optional<NT>, optional<int&>
//   VAR   variant<int,M,u8> (assignment between all pairs of alternatives, converting assignment,
//         emplace, visit with one variant and with two variants of different arity, visit_with_index,
//         relational operators, get_if, holds_alternative) for M = NT and M = short
//   EXP   expected<int,Err>, expected<NT,NT>, expected<int,NT>
//   BIT   bitset<N> for every N around the word sizes; basic_bitset<N, u8 / u16 / u32>
//   SPAN  span first / last / subspan (dynamic and static extent), pair and tuple comparisons
//   MD    extents / layout_left / layout_right / layout_stride mappings, mdspan element access
//   SETS  static_set<int,4> and flat_set<int, static_vector<int,4>> histories
// quick build:    MC_PART 1 = OPT+VAR+EXP (short histories), 2 = BIT+SPAN+MD+SETS
// thorough build: MC_PART 1 OPT, 2 VAR, 3 EXP, 4 BIT, 5 SPAN, 6 MD, 7 SETS, 8 BIT (more widths); history tables are cut into
//                 MC_SLICES slices (MC_SLICE selects one) because the constant evaluator needs up to
//                 500 KB of compiler memory per history.
//
// NT is a literal type with user-provided copy/move/destructor: it sends optional / variant /
// expected down their non-trivial paths (destroy + construct_at instead of defaulted members).
#include "mc.hpp"

#include <etl/array.hpp>
#include <etl/bitset.hpp>
#include <etl/expected.hpp>
#include <etl/flat_set.hpp>
#include <etl/functional.hpp>
#include <etl/mdspan.hpp>
#include <etl/optional.hpp>
#include <etl/set.hpp>
#include <etl/span.hpp>
#include <etl/string.hpp>
#include <etl/string_view.hpp>
#include <etl/tuple.hpp>
#include <etl/utility.hpp>
#include <etl/variant.hpp>
#include <etl/vector.hpp>

#include "c13_common.hpp"

#ifndef MC_PART
    #define MC_PART 1
#endif
#ifndef MC_SLICES
    #define MC_SLICES 1
#endif
#ifndef MC_SLICE
    #define MC_SLICE 0
#endif

#if defined(C13_GROUP) // development aid: exactly one group, quick table sizes
    #define G_IS(n) (C13_GROUP == n)
#elif defined(C13_THOROUGH)
    #define G_IS(n) (MC_PART == n)
#else
    #define G_IS(n) ((MC_PART == 1 && n <= 3) || (MC_PART == 2 && n >= 4))
#endif
#define G_OPT G_IS(1)
#define G_VAR G_IS(2)
#define G_EXP G_IS(3)
#define G_BIT G_IS(4)
#define G_SPAN G_IS(5)
#define G_MD G_IS(6)
#define G_SETS G_IS(7)
#if defined(C13_THOROUGH) && !defined(C13_GROUP)
    #define G_BIT2 (MC_PART == 8) // the additional bitset widths of the thorough tier
#else
    #define G_BIT2 0
#endif

namespace {
using namespace c13;

#if defined(C13_THOROUGH)
constexpr bool thorough_tables = true;
#else
constexpr bool thorough_tables = false;
#endif

using ll = long long;

constexpr std::size_t ipow_sz(std::size_t b, int e)
{
    std::size_t r = 1;
    for (int i = 0; i < e; ++i) { r *= b; }
    return r;
}
constexpr ll mix(ll h, ll v) { return static_cast<ll>((static_cast<u64>(h) ^ static_cast<u64>(v)) * 1099511628211ULL + 0x9e37ULL); }

/// table of all operation sequences of length exactly Len over an alphabet of K operations, started
/// from each of Inits initial states: code = init + Inits * (op_0 + K * (op_1 + ...)).  The table is cut
/// into MC_SLICES contiguous slices; this translation unit holds slice MC_SLICE.
template <int K, int Len, int Inits = 1>
struct History {
    using In = u32;
    static constexpr int alphabet      = K;
    static constexpr int length        = Len;
    static constexpr std::size_t total = ipow_sz(K, Len) * std::size_t(Inits);
    static constexpr std::size_t N     = (total + MC_SLICES - 1) / MC_SLICES;
    static constexpr In in(std::size_t i) { return static_cast<In>(i + std::size_t(MC_SLICE) * N); }
    static constexpr bool valid(In const& code) { return code < total; }
    static constexpr int init_of(In code) { return int(code % u32(Inits)); }
    static constexpr u32 ops_of(In code) { return code / u32(Inits); }
    static std::string show(In const& code)
    {
        std::string s = Inits > 1 ? "init=" + std::to_string(init_of(code)) + " ops=" : std::string("ops=");
        u32 c         = ops_of(code);
        for (int i = 0; i < Len; ++i) {
            int const op = int(c % K);
            s += op < 10 ? char('0' + op) : char('a' + op - 10);
            c /= K;
        }
        return s;
    }
    static bool nontrivial(In const& code) { return code != 0; }
    /// class = the last operation of the history (the one whose effect is observed last)
    static std::string cls(In const& code)
    {
        u32 c = ops_of(code);
        for (int i = 0; i + 1 < Len; ++i) { c /= K; }
        return "last_op_" + std::to_string(c % K);
    }
};

/// literal type with user-provided special members (not trivially anything)
struct NT {
    int v{0};
    constexpr NT() noexcept { }
    constexpr explicit NT(int x) noexcept
        : v{x}
    {
    }
    constexpr NT(NT const& o) noexcept
        : v{o.v}
    {
    }
    constexpr NT(NT&& o) noexcept
        : v{o.v}
    {
        o.v = -7; // moved-from marker: never observed (masked, DESIGN section 8)
    }
    constexpr auto operator=(NT const& o) noexcept -> NT&
    {
        v = o.v;
        return *this;
    }
    constexpr auto operator=(NT&& o) noexcept -> NT&
    {
        v   = o.v;
        o.v = -7;
        return *this;
    }
    constexpr ~NT() { v = -99; }
    friend constexpr auto operator==(NT const& a, NT const& b) noexcept -> bool { return a.v == b.v; }
    friend constexpr auto operator<(NT const& a, NT const& b) noexcept -> bool { return a.v < b.v; }
    friend constexpr auto operator<=(NT const& a, NT const& b) noexcept -> bool { return a.v <= b.v; }
    friend constexpr auto operator>(NT const& a, NT const& b) noexcept -> bool { return a.v > b.v; }
    friend constexpr auto operator>=(NT const& a, NT const& b) noexcept -> bool { return a.v >= b.v; }
};
constexpr int val_of(int x) { return x; }
constexpr int val_of(NT const& x) { return x.v; }
template <typename M>
constexpr M make(int v)
{
    return M(static_cast<std::conditional_t<std::is_same_v<M, NT>, int, M>>(v));
}

#if G_OPT
// ------------------------------------------------------------------------------ optional
// initial states: (a, b) in {empty, engaged}^2
constexpr int opt_len = thorough_tables ? 3 : 2;
template <typename T>
struct k_optional : History<12, opt_len, 4> {
    using R = std::array<ll, 6>;
    static std::string subject() { return std::string("optional<") + (std::is_same_v<T, int> ? "int" : "NT") + "> history"; }
    static constexpr ll obs(etl::optional<T> const& o) { return o.has_value() ? ll(val_of(*o)) + 1000 : -1; }
    static constexpr R call(In const& code)
    {
        etl::optional<T> a;
        etl::optional<T> b;
        if (init_of(code) % 2 == 1) { a = T{3}; }
        if (init_of(code) / 2 == 1) { b = T{5}; }
        ll h  = 0;
        u32 c = ops_of(code);
        for (int step = 0; step < opt_len; ++step) {
            int const op = int(c % 12);
            c /= 12;
            switch (op) {
            case 0: a = T{10 + step}; break;                 // operator=(U&&)
            case 1: a.reset(); break;
            case 2: a.emplace(20 + step); break;
            case 3: a = b; break;                            // copy assignment (all four engaged/empty combinations)
            case 4: a = etl::move(b); break;                 // move assignment: b keeps its engagement, value masked
            case 5: a.swap(b); break;
            case 6: b = etl::nullopt; break;
            case 7: b = T{30 + step}; break;
            case 8: {
                etl::optional<T> t{a}; // copy construction, then relational operators against the source
                h = mix(h, ll(t == a) + 2 * ll(t < b) + 4 * ll(t > b) + 8 * ll(t <= b) + 16 * ll(t >= b));
                b = t;
                break;
            }
            case 9: {
                auto t = a.and_then([](T const& x) { return etl::optional<int>{val_of(x) + 1}; });
                h      = mix(h, t.has_value() ? ll(*t) : -3);
                break;
            }
            case 10: {
                auto t = a.or_else([] { return etl::optional<T>{T{77}}; });
                h      = mix(h, obs(t));
                break;
            }
            default: {
                etl::optional<T> t{etl::move(a)}; // move construction; a's value is masked afterwards
                h = mix(h, obs(t));
                if (a.has_value()) { a = T{40 + step}; }
                break;
            }
            }
            if (op == 4 && b.has_value()) { b = T{50 + step}; } // overwrite the moved-from value before it is observed
            h = mix(h, obs(a));
            h = mix(h, obs(b));
            h = mix(h, ll(a == b) + 2 * ll(a < b) + 4 * ll(a == etl::nullopt) + 8 * ll(a < T{25}) + 16 * ll(T{25} < a) + 32 * ll(a == T{5}));
            h = mix(h, ll(val_of(a.value_or(T{-5}))));
        }
        return R{h, obs(a), obs(b), ll(bool(a)), ll(a.has_value() ? val_of(*a.operator->()) : 0), ll(val_of(etl::move(b).value_or(T{9})))};
    }
};
struct k_optional_ref : History<7, opt_len + 1> {
    using R = std::array<ll, 5>;
    static std::string subject() { return "optional<int&> history"; }
    static constexpr R call(In const& code)
    {
        int x[3] = {1, 2, 3};
        etl::optional<int&> a;
        etl::optional<int&> b{x[2]};
        ll h  = 0;
        u32 c = ops_of(code);
        auto obs = [&](etl::optional<int&> const& o) { return o.has_value() ? ll(&*o - x) * 100 + ll(*o) : -1; };
        for (int step = 0; step < opt_len + 1; ++step) {
            int const op = int(c % 7);
            c /= 7;
            switch (op) {
            case 0: a = x[0]; break; // rebinds
            case 1: a.emplace(x[1]); break;
            case 2: a.reset(); break;
            case 3: a = b; break;
            case 4: a.swap(b); break;
            case 5:
                if (a.has_value()) { *a += 10; } // writes through
                break;
            default: b = etl::nullopt; break;
            }
            h = mix(h, obs(a));
            h = mix(h, obs(b));
        }
        return R{h, obs(a), obs(b), ll(x[0]) * 10000 + ll(x[1]) * 100 + ll(x[2]), ll(bool(a))};
    }
};
#endif

#if G_VAR || G_EXP
constexpr int var_len = thorough_tables ? 3 : 2;
#endif
#if G_VAR
// ------------------------------------------------------------------------------- variant
// initial states: (a.index(), b.index()) in {0,1,2}^2
/// M = NT: copy/move/assignment/destruction go through visit_with_index + construct_at;
/// M = short: every special member is defaulted (trivial union copy)
template <typename M>
struct k_variant : History<12, var_len, 9> {
    using V = etl::variant<int, M, u8>;
    using W = etl::variant<u8, int>; // a second variant type of different arity for visit(f, V, W)
    using R = std::array<ll, 6>;
    static std::string subject() { return std::string("variant<int,") + (std::is_same_v<M, NT> ? "NT" : "short") + ",u8> history"; }
    static constexpr ll val(V const& v)
    {
        return etl::visit([](auto const& x) { return ll(val_of(x)); }, v);
    }
    static constexpr ll obs(V const& v)
    {
        ll h = ll(v.index()) * 1000 + val(v);
        h    = mix(h, ll(etl::holds_alternative<int>(v)) + 2 * ll(etl::holds_alternative<M>(v)) + 4 * ll(etl::holds_alternative<u8>(v)));
        auto const* p0 = etl::get_if<0>(&v);
        auto const* p1 = etl::get_if<1>(&v);
        auto const* p2 = etl::get_if<u8>(&v);
        h = mix(h, p0 != nullptr ? ll(*p0) : -1);
        h = mix(h, p1 != nullptr ? ll(val_of(*p1)) : -1);
        h = mix(h, p2 != nullptr ? ll(*p2) : -1);
        return h;
    }
    static constexpr R call(In const& code)
    {
        auto start = [](int k, int v) {
            return k == 0 ? V{etl::in_place_index<0>, v} : k == 1 ? V{etl::in_place_index<1>, make<M>(v + 1)} : V{etl::in_place_index<2>, u8(v + 2)};
        };
        V a = start(init_of(code) % 3, 1);
        V b = start(init_of(code) / 3, 5);
        ll h  = 0;
        u32 c = ops_of(code);
        for (int step = 0; step < var_len; ++step) {
            int const op = int(c % 12);
            c /= 12;
            bool b_moved = false;
            switch (op) {
            case 0: a = 10 + step; break;                  // converting assignment: same alternative -> assign, else emplace
            case 1: a = make<M>(20 + step); break;
            case 2: a = u8(30 + step); break;
            case 3: a.template emplace<0>(40 + step); break;
            case 4: a.template emplace<M>(make<M>(50)); break;
            case 5: a = b; break;                          // copy assignment over all 9 (index, index) combinations
            case 6:
                a       = etl::move(b);
                b_moved = true;
                break;
            case 7: b = a; break;
            case 8: b.template emplace<2>(u8(60 + step)); break;
            case 9: b = make<M>(70); break;
            case 10: {
                V t{a}; // copy construction
                h = mix(h, obs(t));
                b = etl::move(t);
                break;
            }
            default: {
                V t{etl::move(a)}; // move construction; a keeps its alternative, value masked
                h = mix(h, obs(t));
                a.template emplace<1>(make<M>(80));
                break;
            }
            }
            if (b_moved) { // overwrite the moved-from value (same alternative) before it is observed
                etl::visit([](auto& x) { x = etl::remove_cvref_t<decltype(x)>{}; }, b);
            }
            h = mix(h, obs(a));
            h = mix(h, obs(b));
            h = mix(h, ll(a == b) + 2 * ll(a < b) + 4 * ll(a <= b) + 8 * ll(a > b) + 16 * ll(a >= b) + 32 * ll(a != b));
            W const w = (step % 2 == 0) ? W{u8(3)} : W{int(4)};
            h = mix(h, etl::visit([](auto const& x, auto const& y) { return ll(val_of(x)) * 7 + ll(y) * (sizeof(y) == 1 ? 3 : 5); }, a, w));
            h = mix(h, etl::visit([](auto const& y, auto const& x) { return ll(val_of(x)) * 11 + ll(y) * (sizeof(y) == 1 ? 13 : 17); }, w, b));
            h = mix(h, etl::visit_with_index([](auto x) { return ll(x.index.value) * 100 + ll(val_of(x.value())); }, a));
        }
        return R{h, obs(a), obs(b), ll(a.index()), ll(b.index()), val(a) * 1000 + val(b)};
    }
};
#endif

#if G_EXP
// ------------------------------------------------------------------------------ expected
// initial states: (a, b) in {value, error}^2
enum struct Err : unsigned char { none, a, b };
constexpr int val_of(Err e) { return int(e); }
template <typename T, typename E>
struct k_expected : History<10, var_len, 4> {
    using X = etl::expected<T, E>;
    using R = std::array<ll, 5>;
    static std::string subject()
    {
        return std::string("expected<") + (std::is_same_v<T, int> ? "int" : "NT") + "," + (std::is_same_v<E, Err> ? "Err" : "NT") + "> history";
    }
    static constexpr ll obs(X const& x) { return x.has_value() ? 1000 + ll(val_of(*x)) : -1000 - ll(val_of(x.error())); }
    static constexpr E err(int k)
    {
        if constexpr (std::is_same_v<E, Err>) {
            return k % 2 == 0 ? Err::a : Err::b;
        } else {
            return E{k};
        }
    }
    static constexpr R call(In const& code)
    {
        X a = init_of(code) % 2 == 0 ? X{etl::in_place, 1} : X{etl::unexpect, err(0)};
        X b = init_of(code) / 2 == 0 ? X{etl::in_place, 5} : X{etl::unexpect, err(1)};
        ll h  = 0;
        u32 c = ops_of(code);
        for (int step = 0; step < var_len; ++step) {
            int const op = int(c % 10);
            c /= 10;
            switch (op) {
            case 0: a.emplace(10 + step); break;
            case 1: a = X{etl::unexpect, err(step)}; break; // move assignment from a temporary
            case 2: a = b; break;
            case 3: b = X{etl::in_place, 20 + step}; break;
            case 4: b = X{etl::unexpect, err(step + 1)}; break;
            case 5: {
                auto t = a.and_then([](T const& v) { return etl::expected<long, E>{etl::in_place, long(val_of(v)) * 2}; });
                h      = mix(h, t.has_value() ? ll(*t) : -ll(val_of(t.error())) - 500);
                break;
            }
            case 6: {
                auto t = a.or_else([](E const& e) { return etl::expected<T, int>{etl::unexpect, val_of(e) + 300}; });
                h      = mix(h, t.has_value() ? ll(val_of(*t)) : -ll(t.error()));
                break;
            }
            case 7: {
                X t{a}; // copy construction
                h = mix(h, obs(t));
                h = mix(h, ll(val_of(t.value_or(T{-4}))));
                b = t;
                break;
            }
            case 8: {
                X t{etl::move(b)}; // move construction, then b is overwritten
                h = mix(h, obs(t));
                b = X{etl::in_place, 60 + step};
                break;
            }
            default:
                if (a.has_value()) {
                    *a = T{90 + step}; // write through operator*
                } else {
                    a.error() = err(step + 2);
                }
                break;
            }
            h = mix(h, obs(a));
            h = mix(h, obs(b));
            h = mix(h, ll(bool(a)) + 2 * ll(b.has_value()) + 4 * ll(a.operator->() != nullptr));
            h = mix(h, ll(val_of(a.value_or(T{-5}))));
        }
        return R{h, obs(a), obs(b), ll(a.has_value()), ll(val_of(etl::move(b).value_or(T{9})))};
    }
};
#endif

#if G_BIT || G_BIT2
// -------------------------------------------------------------------------------- bitset
/// 64-bit patterns: bits at and around every word boundary of 8/16/32/64-bit words
constexpr u64 bit_patterns[] = {0ULL, 1ULL, ~0ULL, 0x80ULL, 0x100ULL, 0x8000ULL, 0x10000ULL, 0x80000000ULL, 0x100000000ULL,
    0x8000000000000000ULL, 0x5555555555555555ULL, 0xAAAAAAAAAAAAAAAAULL, 0x00FF00FF00FF00FFULL, 0x7FFFFFFFFFFFFFFFULL, 0xFFFFFFFF00000000ULL,
    0x0123456789ABCDEFULL, 0xFFFFFFFFFFFFFFFEULL, 0x00000000FFFFFFFFULL, 0x8000000000000001ULL, 0x0000000180000000ULL};
constexpr std::size_t n_bit_patterns = sizeof(bit_patterns) / sizeof(bit_patterns[0]);
struct BitIn {
    u64 a;
    u64 b;
};
template <typename BS, bool Std>
struct k_bitset_base {
    using In = BitIn;
    using R  = std::array<ll, 8>;
    static constexpr std::size_t NB = thorough_tables ? 2 : 1; // second operands per first operand
    static constexpr std::size_t N  = n_bit_patterns * NB;
    static constexpr In in(std::size_t i) { return In{bit_patterns[i / NB], bit_patterns[(i / NB * 7 + 3 + (i % NB) * 5) % n_bit_patterns]}; }
    static constexpr bool valid(In const&) { return true; }
    static constexpr bool get(BS const& s, std::size_t pos)
    {
        if constexpr (Std) {
            return s.test(pos);
        } else {
            return s.unchecked_test(pos);
        }
    }
    static constexpr ll fold(BS const& s)
    {
        ll h = ll(s.count()) * 8 + ll(s.all()) * 4 + ll(s.any()) * 2 + ll(s.none());
        for (std::size_t i = 0; i < s.size(); ++i) { h = mix(h, ll(get(s, i)) + 2 * ll(s[i])); }
        return h;
    }
    static constexpr R call(In const& x)
    {
        BS const a{x.a};
        BS const b{x.b};
        constexpr std::size_t n = BS{}.size();
        R out{};
        out[0] = fold(a);
        out[1] = mix(fold(a & b), mix(fold(a | b), fold(a ^ b)));
        out[2] = ll(a == b) + 2 * ll(a == a) + 4 * ll(a != b);
        ll h   = 0;
        auto light = [](BS const& t, std::size_t pos) { return ll(t.count()) * 4 + ll(get(t, pos)) * 2 + ll(t[pos]); };
        for (std::size_t pos = 0; pos < n; ++pos) { // every position: set / reset / flip / reference write
            BS t = a;
            if constexpr (Std) {
                t.set(pos);
                h = mix(h, light(t, pos));
                t.reset(pos);
                h = mix(h, light(t, pos));
                t.flip(pos);
                h = mix(h, light(t, pos));
                t.set(pos, get(b, pos));
            } else {
                t.unchecked_set(pos);
                h = mix(h, light(t, pos));
                t.unchecked_reset(pos);
                h = mix(h, light(t, pos));
                t.unchecked_flip(pos);
                h = mix(h, light(t, pos));
                t.unchecked_set(pos, get(b, pos));
            }
            h      = mix(h, light(t, pos));
            t[pos] = !get(b, pos);
            t[pos].flip();
            h = mix(h, ll(bool(t[pos])) + 2 * ll(~t[pos]));
            h = mix(h, light(t, pos) + 8 * ll(t == a));
        }
        out[3] = h;
        BS t   = a;
        t.flip();
        out[4] = fold(t);
        t.set();
        out[5] = fold(t);
        t &= b;
        t ^= a;
        t |= BS{1ULL};
        out[6] = fold(t);
        t.reset();
        out[7] = fold(t);
        if constexpr (Std) {
            out[7] = mix(out[7], fold(~a));
            if constexpr (n <= 64) { out[7] = mix(out[7], mix(ll(a.to_ullong()), ll(a.to_ulong()))); }
            auto const str = a.template to_string<n>();          // and back through the string constructors
            BS const back{etl::string_view{str.data(), str.size()}};
            BS const back2{str.c_str(), n > 2 ? n - 2 : n, '0', '1'};
            out[7] = mix(out[7], mix(ll(back == a), fold(back2)));
            for (auto ch : str) { out[7] = mix(out[7], ll(ch)); }
        }
        return out;
    }
    static std::string cls(In const& x)
    {
        constexpr std::size_t n = BS{}.size();
        bool const above        = n < 64 && (x.a >> n) != 0;
        return std::string(x.a == 0 ? "zero" : above ? "value_wider_than_bitset" : "fits");
    }
    static std::string show(In const& x) { return "a=" + show_val(x.a) + " b=" + show_val(x.b); }
    static bool nontrivial(In const& x) { return x.a != 0 || x.b != 0; }
};
template <std::size_t Bits>
struct k_bitset : k_bitset_base<etl::bitset<Bits>, true> {
    static std::string subject() { return "bitset<" + std::to_string(Bits) + ">"; }
};
template <std::size_t Bits, typename Word>
struct k_basic_bitset : k_bitset_base<etl::basic_bitset<Bits, Word>, false> {
    static std::string subject() { return "basic_bitset<" + std::to_string(Bits) + ",u" + std::to_string(sizeof(Word) * 8) + ">"; }
};
#endif

#if G_SPAN
// ---------------------------------------------------------------------------------- span
struct SpanIn {
    int len; // 0..span_max
    int off; // 0..len
    int cnt; // -1 = dynamic_extent, else 0..len-off
};
constexpr int span_max = thorough_tables ? 7 : 5;
struct k_span_dynamic {
    using In = SpanIn;
    using R  = std::array<ll, 8>;
    static constexpr std::size_t M = std::size_t(span_max) + 1;
    static constexpr std::size_t N = M * M * (M + 1);
    static std::string subject() { return "span<int>::first/last/subspan(offset,count)"; }
    static constexpr In in(std::size_t i) { return In{int(i / (M * (M + 1))), int((i / (M + 1)) % M), int(i % (M + 1)) - 1}; }
    static constexpr bool valid(In const& a) { return a.off <= a.len && a.cnt <= a.len - a.off; }
    template <typename S>
    static constexpr ll fold(S const& s, int const* base)
    {
        ll h = ll(s.size()) * 4 + ll(s.empty()) + 2 * ll(s.size_bytes() == s.size() * sizeof(int));
        h    = mix(h, s.data() == nullptr ? -1 : ll(s.data() - base));
        for (auto it = s.begin(); it != s.end(); ++it) { h = mix(h, ll(*it)); }
        for (auto it = s.rbegin(); it != s.rend(); ++it) { h = mix(h, ll(*it) * 3); }
        for (std::size_t i = 0; i < s.size(); ++i) { h = mix(h, ll(s[i]) * 5); }
        if (!s.empty()) { h = mix(h, ll(s.front()) * 100 + ll(s.back())); }
        return h;
    }
    static constexpr R call(In const& a)
    {
        // exact-size allocation: the compiler rejects any pointer arithmetic / read outside it
        int* buf = a.len > 0 ? new int[std::size_t(a.len)] : nullptr;
        for (int i = 0; i < a.len; ++i) { buf[i] = 3 * i + 1; }
        etl::span<int> const s       = buf != nullptr ? etl::span<int>{buf, std::size_t(a.len)} : etl::span<int>{};
        etl::span<int const> const c = s; // converting constructor
        auto const count             = a.cnt < 0 ? std::size_t(a.len - a.off) : std::size_t(a.cnt);
        auto const sub  = a.cnt < 0 ? s.subspan(std::size_t(a.off)) : s.subspan(std::size_t(a.off), count);
        auto const sub2 = a.cnt < 0 ? c.subspan(std::size_t(a.off), etl::dynamic_extent) : c.subspan(std::size_t(a.off), count);
        R out{fold(s, buf), fold(s.first(count), buf), fold(s.last(count), buf), fold(sub, buf), fold(sub2, buf),
            fold(sub.subspan(sub.size() / 2), buf), fold(sub.first(sub.size() / 2), buf), fold(sub.last(sub.size() - sub.size() / 2), buf)};
        delete[] buf;
        return out;
    }
    static std::string cls(In const& a)
    {
        return std::string(a.len == 0 ? "empty" : "nonempty") + (a.off == a.len ? ",offset_eq_size" : a.off == 0 ? ",offset_zero" : ",offset")
             + (a.cnt < 0 ? ",count_dynamic" : a.cnt == a.len - a.off ? ",count_to_end" : a.cnt == 0 ? ",count_zero" : ",count");
    }
    static std::string show(In const& a)
    {
        return "size=" + std::to_string(a.len) + " offset=" + std::to_string(a.off) + " count=" + (a.cnt < 0 ? std::string("dynamic_extent") : std::to_string(a.cnt));
    }
    static bool nontrivial(In const& a) { return a.len > 0; }
};
/// static extents: every (Offset, Count) template argument pair of span<int, E>, E = 0..4
struct k_span_static {
    using In = int; // fill pattern
    using R  = std::array<ll, 5>;
    static constexpr std::size_t N = 4;
    static std::string subject() { return "span<int,E>::first<C>/last<C>/subspan<O,C>"; }
    static constexpr In in(std::size_t i) { return int(i) * 7 - 3; }
    static constexpr bool valid(In const&) { return true; }
    template <std::size_t E, std::size_t O, std::size_t C>
    static constexpr ll one(etl::span<int, E> s, int const* base)
    {
        ll h = 0;
        if constexpr (O == 0) {
            h = mix(h, k_span_dynamic::fold(s.template first<C>(), base));
            h = mix(h, k_span_dynamic::fold(s.template last<C>(), base));
            static_assert(decltype(s.template first<C>())::extent == C);
        }
        auto const sub = s.template subspan<O, C>();
        static_assert(decltype(sub)::extent == C);
        h = mix(h, k_span_dynamic::fold(sub, base));
        if constexpr (C == E - O) {
            auto const rest = s.template subspan<O>();
            static_assert(decltype(rest)::extent == E - O);
            h = mix(h, k_span_dynamic::fold(rest, base));
        }
        h = mix(h, k_span_dynamic::fold(s.subspan(O, C), base));
        return h;
    }
    template <std::size_t E, std::size_t O, std::size_t... Cs>
    static constexpr ll counts(etl::span<int, E> s, int const* base, std::index_sequence<Cs...>)
    {
        ll h = 0;
        ((h = mix(h, one<E, O, Cs>(s, base))), ...);
        return h;
    }
    template <std::size_t E, std::size_t... Os>
    static constexpr ll offsets(etl::span<int, E> s, int const* base, std::index_sequence<Os...>)
    {
        ll h = 0;
        ((h = mix(h, counts<E, Os>(s, base, std::make_index_sequence<E - Os + 1>{}))), ...);
        return h;
    }
    template <std::size_t E>
    static constexpr ll extent(int fill)
    {
        etl::array<int, E + 1> arr{}; // one spare element: E == 0 still has an object to point at
        for (std::size_t i = 0; i < E + 1; ++i) { arr[i] = fill + int(i) * 11; }
        etl::span<int, E> const s{arr.data(), E};
        return offsets<E>(s, arr.data(), std::make_index_sequence<E + 1>{});
    }
    static constexpr R call(In const& fill) { return R{extent<0>(fill), extent<1>(fill), extent<2>(fill), extent<3>(fill), extent<4>(fill)}; }
    static std::string cls(In const&) { return "general"; }
    static std::string show(In const& fill) { return "fill=" + std::to_string(fill); }
    static bool nontrivial(In const&) { return true; }
};

// ---------------------------------------------------------------------------- pair, tuple
struct k_pair {
    using In = std::array<int, 4>;
    using R  = std::array<ll, 3>;
    static constexpr std::size_t N = 81;
    static std::string subject() { return "pair<int,u8> comparisons / swap / assignment"; }
    static constexpr In in(std::size_t i) { return In{int(i % 3), int(i / 3 % 3), int(i / 9 % 3), int(i / 27)}; }
    static constexpr bool valid(In const&) { return true; }
    static constexpr R call(In const& a)
    {
        etl::pair<int, u8> x{a[0] - 1, u8(a[1])};
        etl::pair<int, u8> y = etl::make_pair(a[2] - 1, u8(a[3]));
        ll const rel = ll(x == y) + 2 * ll(x != y) + 4 * ll(x < y) + 8 * ll(x <= y) + 16 * ll(x > y) + 32 * ll(x >= y);
        etl::pair<long, int> w{7L, 7};
        w = x; // converting assignment
        x.swap(y);
        ll const sw = ll(etl::get<0>(x)) * 1000 + ll(etl::get<1>(x)) * 100 + ll(y.first) * 10 + ll(y.second);
        etl::swap(x, y);
        auto [p, q] = x;
        return R{rel, sw, ll(w.first) * 100 + ll(w.second) * 10 + ll(p) + ll(q)};
    }
    static std::string cls(In const& a) { return a[0] == a[2] ? (a[1] == a[3] ? "equal" : "first_equal") : "first_differs"; }
    static std::string show(In const& a)
    {
        return "x=(" + std::to_string(a[0] - 1) + "," + std::to_string(a[1]) + ") y=(" + std::to_string(a[2] - 1) + "," + std::to_string(a[3]) + ")";
    }
    static bool nontrivial(In const& a) { return a[0] != 1 || a[1] != 0 || a[2] != 1 || a[3] != 0; }
};
struct k_tuple {
    using In = std::array<int, 6>;
    using R  = std::array<ll, 4>;
    static constexpr std::size_t N = 729;
    static std::string subject() { return "tuple<int,u8,long> ==, swap, get, tie, tuple_cat, apply"; }
    static constexpr In in(std::size_t i) { return In{int(i % 3), int(i / 3 % 3), int(i / 9 % 3), int(i / 27 % 3), int(i / 81 % 3), int(i / 243)}; }
    static constexpr bool valid(In const&) { return true; }
    static constexpr R call(In const& a)
    {
        etl::tuple<int, u8, long> x{a[0] - 1, u8(a[1]), long(a[2])};
        auto y       = etl::make_tuple(a[3] - 1, u8(a[4]), long(a[5]));
        ll const rel = ll(x == y) + 2 * ll(x != y) + 4 * ll(x == x);
        x.swap(y);
        ll const sw = ll(etl::get<0>(x)) * 100000 + ll(etl::get<1>(x)) * 10000 + ll(etl::get<2>(x)) * 1000 + ll(etl::get<0>(y)) * 100 + ll(etl::get<1>(y)) * 10 + ll(etl::get<2>(y));
        int i0  = 0;
        u8 i1   = 0;
        long i2 = 0;
        auto const refs = etl::tie(i0, i1, i2); // tuple<T&...> has no converting assignment (API gap): write through get
        etl::get<0>(refs) = etl::get<0>(y);
        etl::get<1>(refs) = etl::get<1>(y);
        etl::get<2>(refs) = etl::get<2>(y);
        auto const cat   = etl::tuple_cat(x, etl::tuple<short>{short(9)}, y);
        ll const applied = etl::apply([](auto... v) { ll h = 0; ((h = h * 7 + ll(v)), ...); return h; }, cat);
        return R{rel, sw, ll(i0) * 100 + ll(i1) * 10 + ll(i2), applied};
    }
    static std::string cls(In const& a) { return (a[0] == a[3] && a[1] == a[4] && a[2] == a[5]) ? "equal" : (a[0] == a[3] && a[1] == a[4]) ? "last_differs" : "differs"; }
    static std::string show(In const& a)
    {
        std::string s = "x,y=";
        for (auto v : a) { s += std::to_string(v) + " "; }
        return s;
    }
    static bool nontrivial(In const& a) { return a != In{1, 0, 0, 1, 0, 0}; }
};
#endif

#if G_MD
// -------------------------------------------------------------------------------- mdspan
/// E: an extents type; the dynamic extents take every value in [0, md_max]
constexpr int md_max = thorough_tables ? 4 : 3;
template <typename E, int Id>
struct k_mdspan {
    using In = std::array<int, 3>; // values of the dynamic extents (unused slots 0)
    using R  = std::array<ll, 8>;
    static constexpr std::size_t V  = std::size_t(md_max) + 1;
    static constexpr std::size_t RD = E::rank_dynamic();
    static constexpr std::size_t RK = E::rank();
    static constexpr std::size_t N  = ipow_sz(V, int(RD));
    static std::string subject()
    {
        std::string s = "extents<";
        for (std::size_t r = 0; r < RK; ++r) { s += (r ? "," : "") + (E::static_extent(r) == etl::dynamic_extent ? std::string("dyn") : std::to_string(E::static_extent(r))); }
        return s + "> #" + std::to_string(Id) + ": layout_left/right/stride mapping, mdspan";
    }
    static constexpr In in(std::size_t i)
    {
        In a{};
        for (std::size_t d = 0; d < RD; ++d) {
            a[d] = int(i % V);
            i /= V;
        }
        return a;
    }
    static constexpr bool valid(In const&) { return true; }
    using IT = typename E::index_type;
    static constexpr E make(In const& a)
    {
        if constexpr (RD == 0) {
            return E{};
        } else if constexpr (RD == 1) {
            return E{IT(a[0])};
        } else if constexpr (RD == 2) {
            return E{IT(a[0]), IT(a[1])};
        } else {
            return E{IT(a[0]), IT(a[1]), IT(a[2])};
        }
    }
    template <typename M, typename F>
    static constexpr void for_each_index(M const& m, F f)
    {
        auto const& e = m.extents();
        if constexpr (RK == 1) {
            for (IT i = 0; i < e.extent(0); ++i) { f(m(i), i, IT(0), IT(0)); }
        } else if constexpr (RK == 2) {
            for (IT i = 0; i < e.extent(0); ++i) {
                for (IT j = 0; j < e.extent(1); ++j) { f(m(i, j), i, j, IT(0)); }
            }
        } else {
            for (IT i = 0; i < e.extent(0); ++i) {
                for (IT j = 0; j < e.extent(1); ++j) {
                    for (IT k = 0; k < e.extent(2); ++k) { f(m(i, j, k), i, j, k); }
                }
            }
        }
    }
    template <typename M>
    static constexpr ll fold_mapping(M const& m)
    {
        ll h = ll(m.required_span_size());
        for (std::size_t r = 0; r < RK; ++r) { h = mix(h, ll(m.stride(r)) * 16 + ll(m.extents().extent(r))); }
        for_each_index(m, [&](auto off, auto, auto, auto) { h = mix(h, ll(off)); });
        h = mix(h, ll(m.is_unique()) + 2 * ll(m.is_exhaustive()) + 4 * ll(m.is_strided()));
        return h;
    }
    static constexpr R call(In const& a)
    {
        E const e = make(a);
        R out{};
        ll h = 0;
        for (std::size_t r = 0; r < RK; ++r) { h = mix(h, ll(e.extent(r)) * 8 + ll(E::static_extent(r) == etl::dynamic_extent)); }
        h      = mix(h, ll(e == e) + 2 * ll(e == etl::dextents<std::size_t, RK>{e}));
        out[0] = h;
        typename etl::layout_left::template mapping<E> const left{e};
        typename etl::layout_right::template mapping<E> const right{e};
        out[1] = fold_mapping(left);
        out[2] = fold_mapping(right);
        out[3] = ll(left == left) + 2 * ll(right == right);
        // layout_stride with the strides of layout_right, every stride doubled (a padded layout)
        etl::array<IT, RK> strides{};
        for (std::size_t r = 0; r < RK; ++r) { strides[r] = IT(right.stride(r) * 2); }
        typename etl::layout_stride::template mapping<E> const strided{e, strides};
        ll hs = 0;
        for (std::size_t r = 0; r < RK; ++r) { hs = mix(hs, ll(strided.stride(r)) * 16 + ll(strided.strides()[r])); }
        for_each_index(strided, [&](auto off, auto, auto, auto) { hs = mix(hs, ll(off)); });
        out[4] = hs;
        // element access through mdspan over an exact-size allocation
        auto const need = std::size_t(left.required_span_size());
        int* buf        = need > 0 ? new int[need] : nullptr;
        for (std::size_t i = 0; i < need; ++i) { buf[i] = int(i) * 3 + 1; }
        if (buf != nullptr) {
            etl::mdspan<int, E, etl::layout_left> const ml{buf, left};
            etl::mdspan<int, E> const mr{buf, e}; // layout_right by default
            ll hm = ll(ml.size()) * 2 + ll(ml.empty());
            for_each_index(left, [&](auto, auto i, auto j, auto k) {
                if constexpr (RK == 1) {
                    hm = mix(hm, ll(ml(i)) * 1000 + ll(mr(i)));
                } else if constexpr (RK == 2) {
                    hm = mix(hm, ll(ml(i, j)) * 1000 + ll(mr(i, j)));
                } else {
                    hm = mix(hm, ll(ml(i, j, k)) * 1000 + ll(mr(i, j, k)));
                }
            });
            for (std::size_t r = 0; r < RK; ++r) { hm = mix(hm, ll(ml.stride(r)) * 100 + ll(mr.stride(r)) * 10 + ll(ml.extent(r))); }
            out[5] = hm;
        }
        delete[] buf;
        if constexpr (RD > 0) { // the default constructor requires rank_dynamic() > 0
            etl::mdspan<int, E> const none{};
            out[6] = ll(none.size()) + 2 * ll(none.empty()) + 4 * ll(none.rank()) + 32 * ll(none.rank_dynamic());
        }
        return out;
    }
    static std::string cls(In const& a)
    {
        bool zero = false;
        for (std::size_t d = 0; d < RD; ++d) { zero = zero || a[d] == 0; }
        return zero ? "zero_extent" : "general";
    }
    static std::string show(In const& a)
    {
        std::string s = "dynamic extents=";
        for (std::size_t d = 0; d < RD; ++d) { s += std::to_string(a[d]) + " "; }
        return s;
    }
    static bool nontrivial(In const& a) { return a != In{}; }
};
#endif

#if G_SETS
// ---------------------------------------------------------------------- static_set, flat_set
constexpr int set_len = thorough_tables ? 4 : 3;
/// Initial states: empty, or full ({1,2,3,4} in a capacity of 4).  Operations: insert of an ascending / a descending key,
/// emplace, erase of a key, iterator erase, range erase + clear, copy + compare + swap, range insert with a duplicate.
template <bool Flat>
struct k_set : History<8, set_len, 2> {
    using S = std::conditional_t<Flat, etl::flat_set<int, etl::static_vector<int, 4>>, etl::static_set<int, 4>>;
    using R = std::array<ll, 8>;
    static std::string subject() { return Flat ? "flat_set<int,static_vector<int,4>> history" : "static_set<int,4> history"; }
    static constexpr ll fold(S const& s)
    {
        ll h = ll(s.size()) * 2 + ll(s.empty());
        for (auto it = s.begin(); it != s.end(); ++it) { h = mix(h, ll(*it)); }
        for (auto it = s.rbegin(); it != s.rend(); ++it) { h = mix(h, ll(*it) * 3); }
        for (int k = 0; k <= 5; ++k) {
            auto const f = s.find(k);
            h            = mix(h, f == s.end() ? -1 : ll(f - s.begin()));
            h            = mix(h, ll(s.count(k)) + 2 * ll(s.contains(k)));
            h            = mix(h, ll(s.lower_bound(k) - s.begin()) * 8 + ll(s.upper_bound(k) - s.begin()));
        }
        return h;
    }
    static constexpr R call(In const& code)
    {
        S s;
        if (init_of(code) == 1) {
            for (int k : {3, 1, 4, 2}) { s.insert(k); }
        }
        S other;
        other.insert(2);
        other.insert(5);
        ll h  = 0;
        u32 c = ops_of(code);
        for (int step = 0; step < set_len; ++step) {
            int const op  = int(c % 8);
            int const key = 1 + (step + op) % 4;
            c /= 8;
            bool const room = s.size() < s.max_size();
            switch (op) {
            case 0:
            case 1: {
                // flat_set over a full static_vector: only a present key may be inserted; static_set reports
                // {nullptr, false} for a new key when it is full (a valid call)
                int const k2 = op == 0 ? 1 + step % 4 : 5 - step % 5; // ascending 1,2,3,4 / descending 5,4,3,2
                if (!Flat || room || s.contains(k2)) {
                    auto const r = s.insert(k2);
                    h            = mix(h, (r.first == nullptr ? ll(-1) : ll(r.first - s.begin())) * 2 + ll(r.second));
                }
                break;
            }
            case 3:
                if (!Flat || room || s.contains(key)) {
                    auto const r = s.emplace(key);
                    h            = mix(h, (r.first == nullptr ? ll(-1) : ll(r.first - s.begin())) * 2 + ll(r.second));
                }
                break;
            case 2:
                if (s.size() >= 2) {
                    auto const it = s.erase(s.begin() + 1, s.end());
                    h             = mix(h, ll(it - s.begin()));
                } else {
                    s.clear();
                }
                break;
            case 4: h = mix(h, ll(s.erase(key))); break;
            case 5:
                if (!s.empty()) {
                    auto const it = s.erase(s.begin());
                    h             = mix(h, ll(it - s.begin()));
                }
                break;
            case 6: {
                S t = s; // copy, relational operators, swap with the second set
                h   = mix(h, ll(t == s) + 2 * ll(t < other) + 4 * ll(t <= other) + 8 * ll(t > other) + 16 * ll(t >= other) + 32 * ll(t != other));
                t.swap(other);
                s = t;
                break;
            }
            default: {
                int const keys[3] = {key, 2, key}; // range insert with a duplicate; flat_set needs room for two new keys
                if (!Flat || s.size() + 2 <= s.max_size()) { s.insert(keys, keys + 3); }
                break;
            }
            }
            h = mix(h, ll(s.size()) * 2 + ll(s.empty()));
            for (auto v : s) { h = mix(h, ll(v)); }
        }
        h = mix(h, fold(s)); // every lookup on the final state
        R out{};
        out[0] = h;
        out[1] = ll(s.size());
        std::size_t i = 0;
        for (auto v : s) { out[2 + i++] = ll(v); }
        out[6] = ll(other.size());
        out[7] = fold(other);
        return out;
    }
};
#endif

} // namespace

int main(int argc, char** argv)
{
    mc::Main m(argc, argv);
    std::vector<std::string> const both{"quick", "thorough"};
    std::string const sl = MC_SLICES > 1 ? "-slice" + std::to_string(MC_SLICE) + "of" + std::to_string(MC_SLICES) : std::string();
#if G_OPT
    m.job("optional" + sl, both, run_all<k_optional<int>, k_optional<NT>, k_optional_ref>);
#endif
#if G_VAR
    m.job("variant" + sl, both, run_all<k_variant<NT>, k_variant<short>>);
#endif
#if G_EXP
    m.job("expected" + sl, both, run_all<k_expected<int, Err>, k_expected<NT, NT>, k_expected<int, NT>>);
#endif
#if G_BIT
    // widths around the word sizes: bitset<N> stores size_t words; basic_bitset<N, Word> words of 8 / 16 / 32 / 64 bits
    m.job("bitset", both, run_all<k_bitset<1>, k_bitset<8>, k_bitset<9>, k_bitset<33>, k_bitset<63>, k_bitset<64>, k_bitset<65>, k_bitset<128>, k_bitset<129>>);
    m.job("basic_bitset", both, run_all<k_basic_bitset<7, u8>, k_basic_bitset<8, u8>, k_basic_bitset<9, u8>, k_basic_bitset<15, u16>,
        k_basic_bitset<16, u16>, k_basic_bitset<17, u16>, k_basic_bitset<33, u32>>);
#endif
#if G_BIT2
    m.job("bitset-more-widths", {"thorough"}, run_all<k_bitset<2>, k_bitset<7>, k_bitset<15>, k_bitset<16>, k_bitset<17>, k_bitset<31>, k_bitset<32>,
        k_bitset<62>, k_bitset<66>, k_bitset<127>, k_bitset<192>, k_bitset<193>>);
    m.job("basic_bitset-more-widths", {"thorough"}, run_all<k_basic_bitset<1, u8>, k_basic_bitset<31, u32>, k_basic_bitset<32, u32>, k_basic_bitset<63, u64>,
        k_basic_bitset<64, u64>, k_basic_bitset<65, u64>, k_basic_bitset<64, u32>, k_basic_bitset<65, u8>, k_basic_bitset<64, u8>, k_basic_bitset<65, u16>>);
#endif
#if G_SPAN
    m.job("span", both, run_all<k_span_dynamic, k_span_static>);
    m.job("pair-tuple", both, run_all<k_pair, k_tuple>);
#endif
#if G_MD
    m.job("mdspan", both, run_all<k_mdspan<etl::extents<int, etl::dynamic_extent, etl::dynamic_extent>, 1>,
        k_mdspan<etl::extents<u8, 2, etl::dynamic_extent, 3>, 2>, k_mdspan<etl::dextents<std::size_t, 3>, 3>,
        k_mdspan<etl::extents<short, etl::dynamic_extent, 2, etl::dynamic_extent>, 4>, k_mdspan<etl::extents<u32, etl::dynamic_extent>, 5>,
        k_mdspan<etl::extents<long, 3, 2>, 6>>);
#endif
#if G_SETS
    m.job("static_set" + sl, both, run_kernel<k_set<false>>);
    m.job("flat_set" + sl, both, run_kernel<k_set<true>>);
#endif
    return m.run();
}
