// C19, mdspan half: etl::mdspan<int, E, Layout> over an exact-size guarded heap block of
// required_span_size() elements, for every extents type E (generation as in c19_extents.cpp),
// every assignment of the dynamic extents, Layout in {layout_right, layout_left, layout_stride
// (row-major, column-major, padded, permuted strides), linalg::layout_transpose<left|right>
// (rank 2)}, constructed through every constructor (pointer + rank_dynamic()/rank() values as
// pack / etl::array / etl::span, extents, mapping, mapping + accessor, converting, copy).
// On EVERY in-range multi-index: the address of operator()(i...), operator[](array),
// operator[](span) (and operator[](i...) when the language has it) minus data_handle() equals
// the closed-form offset, lies inside the block, and the element read there is the one stored
// at that slot.  size(), empty(), extent(r), stride(r), extents(), rank observers, is_*.
//
// Compiled per (MC_ITYPE index type, MC_SLICE part of the extents-type list), see main().
#include "c19_common.hpp"

#include <etl/linalg.hpp>

#include <algorithm>

using namespace c19;

#ifndef MC_ITYPE
    #define MC_ITYPE 1
#endif
#ifndef MC_SLICE
    #define MC_SLICE 0
#endif

namespace {

// MC_ITYPE: index type; MC_SLICE: 0 = rank 0..2, 1/2 = the two halves of rank 3, 3/4 = the two halves of rank 4, 5 = rank 5-6 (12 patterns)
#if MC_ITYPE == 1
using PartIndex = int;
#elif MC_ITYPE == 2
using PartIndex = unsigned long;
#elif MC_ITYPE == 3
using PartIndex = signed char;
#elif MC_ITYPE == 4
using PartIndex = unsigned char;
#elif MC_ITYPE == 5
using PartIndex = short;
#elif MC_ITYPE == 6
using PartIndex = unsigned short;
#elif MC_ITYPE == 7
using PartIndex = unsigned;
#elif MC_ITYPE == 8
using PartIndex = long;
#endif

using A5 = alpha<2, 3, DC, 1, 0>;
using A3 = alpha<2, 3, DC>;

enum class Kind { left, right, stride, transpose };

struct Indices {
    std::size_t rank{0};
    std::size_t n{0};
    std::vector<ll> flat;
};

struct MdObs {
    ll handle_off{0};
    std::size_t rank{0}, rank_dynamic{0};
    std::size_t st[MAXR]{};
    ll ext[MAXR]{};      // extent(r)
    ll ext2[MAXR]{};     // extents().extent(r)
    ll size{0};
    int empty{-1};
    bool has_stride{false};
    ll stride[MAXR]{};
    bool has_map_span{false};
    ll map_span{0};
    int forms{0};             // number of access forms observed
    std::vector<ll> off[4];   // element offsets per access form, in index order
    int is_unique{-1}, is_exhaustive{-1}, is_strided{-1}, always_unique{-1}, always_exhaustive{-1}, always_strided{-1};
    char const* volatile phase{"construction"};
};
char const* const form_name[4] = {"operator()(indices...)", "operator[](array)", "operator[](span)", "operator[](indices...)"};

template <typename T, typename MD, std::size_t... Is>
auto& at_call(MD const& s, ll const* idx, std::index_sequence<Is...> /*q*/)
{
    return s(static_cast<T>(idx[Is])...);
}
#if defined(__cpp_multidimensional_subscript)
template <typename T, typename MD, std::size_t... Is>
auto& at_subscript(MD const& s, ll const* idx, std::index_sequence<Is...> /*q*/)
{
    return s[static_cast<T>(idx[Is])...];
}
#endif

template <Kind K, typename MD>
[[gnu::noinline]] void observe_md(MD const& s, int const* base, Indices const& ix, MdObs& o)
{
    using E          = typename MD::extents_type;
    using I          = typename E::index_type;
    using J          = other_t<I>;
    constexpr auto R = E::rank();
    auto const seq   = std::make_index_sequence<R>{};
    o.phase          = "construction"; // data_handle()/extent(r): attributed to the constructor
    o.handle_off     = s.data_handle() - base;
    o.rank           = MD::rank();
    o.rank_dynamic   = MD::rank_dynamic();
    for (std::size_t r = 0; r < R; ++r) {
        o.st[r]   = MD::static_extent(r);
        o.ext[r]  = static_cast<ll>(s.extent(r));
        o.ext2[r] = static_cast<ll>(s.extents().extent(r));
    }
    o.phase = "size()";
    o.size  = static_cast<ll>(s.size());
    o.empty = s.empty();
    if constexpr (K != Kind::stride) {
        o.phase        = "mapping()";
        o.has_map_span = true;
        o.map_span     = static_cast<ll>(s.mapping().required_span_size());
    }
    o.forms = 3;
    for (auto& v : o.off) { v.reserve(ix.n); }
    for (std::size_t k = 0; k < ix.n; ++k) {
        ll const* idx = ix.flat.data() + k * R;
        o.phase       = "operator()(indices...)";
        o.off[0].push_back(&at_call<I>(s, idx, seq) - base);
        o.phase       = "operator[](array)";
        auto const aj = to_etl_array<J, R>(idx);
        o.off[1].push_back(&s[aj] - base);
        o.phase = "operator[](span)";
        auto ai = to_etl_array<I, R>(idx);
        o.off[2].push_back(&s[etl::span<I, R>(ai)] - base);
#if defined(__cpp_multidimensional_subscript)
        if constexpr (R > 0) {
            o.phase = "operator[](indices...)";
            o.forms = 4;
            o.off[3].push_back(&at_subscript<J>(s, idx, seq) - base);
        }
#endif
    }
    if constexpr (R > 0) {
        o.phase      = "stride(r)";
        o.has_stride = true;
        for (std::size_t r = 0; r < R; ++r) { o.stride[r] = static_cast<ll>(s.stride(r)); }
    }
    o.phase          = "is_unique()/is_strided()";
    o.is_unique      = s.is_unique();
    o.is_strided     = s.is_strided();
    o.always_unique  = MD::is_always_unique();
    o.always_strided = MD::is_always_strided();
    if constexpr (K == Kind::left || K == Kind::right) {
        o.is_exhaustive     = s.is_exhaustive();
        o.always_exhaustive = MD::is_always_exhaustive();
    }
    o.phase = "construction";
}

struct Expect {
    std::vector<ll> ext;
    std::vector<ll> strides;
    ll span{0};
};

void verify_md(Ctx& c, MdObs const& o, Indices const& ix, Expect const& x, TypeInfo const& ti, int const* base)
{
    std::size_t const R = x.ext.size();
    // the constructor decides data handle and extents; everything else follows from them
    bool ok = c.eq("data_handle()-ptr", o.handle_off, 0LL);
    ok      = c.eq("extent(r) for all r", show(std::vector<ll>(o.ext, o.ext + R)), show(x.ext)) && ok;
    ok      = c.eq("extents().extent(r) for all r", show(std::vector<ll>(o.ext2, o.ext2 + R)), show(x.ext)) && ok;
    if (!ok) { return; }
    c.eq_o("rank()", o.rank, R);
    c.eq_o("rank_dynamic()", o.rank_dynamic, ti.rank_dynamic);
    c.eq_o("static_extent(r)", show_statics(std::vector<std::size_t>(o.st, o.st + R)), show_statics(ti.statics()));
    c.eq_o("size()", o.size, product(x.ext));
    c.eq_o("empty()", o.empty, int(product(x.ext) == 0));
    if (o.has_map_span) { c.eq_o("mapping()", cat("required_span_size ", o.map_span), cat("required_span_size ", x.span)); }
    for (int f = 0; f < o.forms; ++f) {
        std::vector<unsigned char> hit(static_cast<std::size_t>(x.span), 0);
        bool reported = false;
        for (std::size_t k = 0; k < ix.n && k < o.off[f].size(); ++k) {
            ll ref = 0;
            for (std::size_t r = 0; r < R; ++r) { ref += ix.flat[k * R + r] * x.strides[r]; }
            ll const got = o.off[f][k];
            ++c.evals;
            bool const inside = got >= 0 && got < x.span;
            if (got != ref || !inside) {
                if (!reported) {
                    std::vector<ll> const idx(ix.flat.begin() + static_cast<std::ptrdiff_t>(k * R), ix.flat.begin() + static_cast<std::ptrdiff_t>((k + 1) * R));
                    c.fail_o(form_name[f], cat("index ", show(idx), ": element offset tetl=", got, " reference=", ref, inside ? " (inside" : " (OUTSIDE", " the block of ", x.span, " elements)"));
                    reported = true;
                }
                continue;
            }
            if (hit[static_cast<std::size_t>(got)]++ && !reported) {
                c.fail_o(form_name[f], cat("two indices refer to the same element (offset ", got, ")"));
                reported = true;
            }
            if (base[got] != 1000 + static_cast<int>(got)) { c.fail(cat("harness: block content changed at ", got)); }
        }
        if (o.off[f].size() != ix.n) { c.fail_o(form_name[f], cat("observed ", o.off[f].size(), " of ", ix.n, " indices")); }
    }
    if (o.has_stride) { c.eq_o("stride(r)", show(std::vector<ll>(o.stride, o.stride + R)), show(x.strides)); }
    c.eq_o("is_unique()", o.is_unique, 1);
    c.eq_o("is_strided()", o.is_strided, 1);
    c.eq_o("is_always_unique()", o.always_unique, 1);
    c.eq_o("is_always_strided()", o.always_strided, 1);
    if (o.is_exhaustive != -1) { c.eq_o("is_exhaustive()", o.is_exhaustive, 1); }
    if (o.always_exhaustive != -1) { c.eq_o("is_always_exhaustive()", o.always_exhaustive, 1); }
    c.r.outcome(mc::hash_str(cat(show(x.ext), show(x.strides), show(o.off[0]))));
}

/// a = dynamic extents of E, w = all extents, s = strides (layout_stride)
using MdFn = void (*)(int* p, ll const* a, ll const* w, ll const* s, Indices const& ix, MdObs& o);

void run_md(Ctx& c, MdFn fn, mc::GuardedBlock<int>& blk, ll const* a, ll const* w, ll const* s, Indices const& ix, Expect const& x, TypeInfo const& ti)
{
    MdObs o;
    auto const t = mc::guarded([&] { fn(blk.data(), a, w, s, ix, o); });
    if (t == mc::Trap::none) {
        verify_md(c, o, ix, x, ti, blk.data());
    } else {
        c.trap_o(t, o.phase);
    }
    if (!blk.intact()) { c.c02("wrote outside the element block"); }
    c.san_check();
}

template <typename E>
E make_ext(ll const* dv)
{
    return E(to_etl_array<typename E::index_type, E::rank_dynamic()>(dv));
}
template <typename MD, typename T, std::size_t... Is>
MD md_pack(int* p, ll const* v, std::index_sequence<Is...> /*q*/)
{
    return MD(p, static_cast<T>(v[Is])...);
}

// makers for layout_left / layout_right ----------------------------------------------------------
template <Kind K, typename L, typename E, typename T, bool All>
void mk_pack(int* p, ll const* a, ll const* w, ll const* /*s*/, Indices const& ix, MdObs& o)
{
    using MD           = etl::mdspan<int, E, L>;
    constexpr auto N   = All ? E::rank() : E::rank_dynamic();
    auto const s       = md_pack<MD, T>(p, All ? w : a, std::make_index_sequence<N>{});
    observe_md<K>(s, p, ix, o);
}
template <Kind K, typename L, typename E, typename T, bool All>
void mk_array(int* p, ll const* a, ll const* w, ll const* /*s*/, Indices const& ix, MdObs& o)
{
    constexpr auto N = All ? E::rank() : E::rank_dynamic();
    auto const arr   = to_etl_array<T, N>(All ? w : a);
    etl::mdspan<int, E, L> const s(p, arr);
    observe_md<K>(s, p, ix, o);
}
template <Kind K, typename L, typename E, typename T, bool All>
void mk_span(int* p, ll const* a, ll const* w, ll const* /*s*/, Indices const& ix, MdObs& o)
{
    constexpr auto N = All ? E::rank() : E::rank_dynamic();
    auto arr         = to_etl_array<T, N>(All ? w : a);
    etl::mdspan<int, E, L> const s(p, etl::span<T, N>(arr));
    observe_md<K>(s, p, ix, o);
}
template <Kind K, typename L, typename E>
void mk_extents(int* p, ll const* a, ll const* /*w*/, ll const* /*s*/, Indices const& ix, MdObs& o)
{
    etl::mdspan<int, E, L> const s(p, make_ext<E>(a));
    observe_md<K>(s, p, ix, o);
}
template <Kind K, typename L, typename E>
void mk_mapping(int* p, ll const* a, ll const* /*w*/, ll const* /*s*/, Indices const& ix, MdObs& o)
{
    typename L::template mapping<E> const m(make_ext<E>(a));
    etl::mdspan<int, E, L> const s(p, m);
    observe_md<K>(s, p, ix, o);
}
template <Kind K, typename L, typename E>
void mk_mapping_accessor(int* p, ll const* a, ll const* /*w*/, ll const* /*s*/, Indices const& ix, MdObs& o)
{
    typename L::template mapping<E> const m(make_ext<E>(a));
    etl::mdspan<int, E, L> const s(p, m, etl::default_accessor<int>{});
    auto const copy = s;
    auto moved      = etl::mdspan<int, E, L>(copy);
    observe_md<K>(moved, p, ix, o);
}
template <Kind K, typename L, typename E>
void mk_converting(int* p, ll const* /*a*/, ll const* w, ll const* /*s*/, Indices const& ix, MdObs& o)
{
    using J  = other_t<typename E::index_type>;
    using DE = etl::dextents<J, E::rank()>;
    etl::mdspan<int, DE, L> const src(p, make_ext<DE>(w));
    etl::mdspan<int const, E, L> const s(src);
    observe_md<K>(s, static_cast<int const*>(p), ix, o);
}
// layout_stride ------------------------------------------------------------------------------------
template <typename E>
void mk_stride(int* p, ll const* a, ll const* /*w*/, ll const* st, Indices const& ix, MdObs& o)
{
    using I = typename E::index_type;
    etl::layout_stride::mapping<E> const m(make_ext<E>(a), to_etl_array<I, E::rank()>(st));
    etl::mdspan<int, E, etl::layout_stride> const s(p, m);
    observe_md<Kind::stride>(s, p, ix, o);
}
// layout_transpose ---------------------------------------------------------------------------------
template <typename L, typename E>
void mk_transpose(int* p, ll const* /*a*/, ll const* w, ll const* /*s*/, Indices const& ix, MdObs& o)
{
    using NE     = etl::linalg::detail::transpose_extents_t<E>;
    using LT     = etl::linalg::layout_transpose<L>;
    using Nested = typename L::template mapping<NE>;
    ll nd[2]{};
    std::size_t n = 0;
    if (NE::static_extent(0) == dyn) { nd[n++] = w[1]; }
    if (NE::static_extent(1) == dyn) { nd[n++] = w[0]; }
    Nested const nested(make_ext<NE>(nd));
    typename LT::template mapping<E> const m(nested);
    etl::mdspan<int, E, LT> const s(p, m);
    observe_md<Kind::transpose>(s, p, ix, o);
}

struct MdFns {
    // per layout (0 right, 1 left): pack dyn, pack all, array dyn, array all, span dyn, span all, extents, mapping, mapping+accessor(copy/move), converting
    MdFn lr[2][10];
    MdFn stride;
    MdFn transpose[2]; // over left, over right
};
template <Kind K, typename L, typename E>
constexpr void fill_lr(MdFn (&f)[10])
{
    using I = typename E::index_type;
    using J = other_t<I>;
    f[0]    = &mk_pack<K, L, E, I, false>;
    f[2]    = &mk_array<K, L, E, J, false>;
    f[4]    = &mk_span<K, L, E, I, false>;
    if constexpr (E::rank() != E::rank_dynamic()) {
        f[1] = &mk_pack<K, L, E, J, true>;
        f[3] = &mk_array<K, L, E, I, true>;
        f[5] = &mk_span<K, L, E, J, true>;
    }
    f[6] = &mk_extents<K, L, E>;
    f[7] = &mk_mapping<K, L, E>;
    f[8] = &mk_mapping_accessor<K, L, E>;
    f[9] = &mk_converting<K, L, E>;
}
template <typename E>
constexpr MdFns make_md_fns()
{
    MdFns f{};
    fill_lr<Kind::right, etl::layout_right, E>(f.lr[0]);
    fill_lr<Kind::left, etl::layout_left, E>(f.lr[1]);
    if constexpr (E::rank() >= 1) { f.stride = &mk_stride<E>; }
    if constexpr (E::rank() == 2) {
        f.transpose[0] = &mk_transpose<etl::layout_left, E>;
        f.transpose[1] = &mk_transpose<etl::layout_right, E>;
    }
    return f;
}
template <typename E>
inline constexpr MdFns md_fns = make_md_fns<E>();

// ---------------------------------------------------------------------------------------
Indices make_indices(std::vector<ll> const& e)
{
    Indices ix;
    ix.rank        = e.size();
    auto const all = all_indices(e);
    ix.n           = all.size();
    for (auto const& v : all) { ix.flat.insert(ix.flat.end(), v.begin(), v.end()); }
    return ix;
}

/// next nesting order of the dimensions: every permutation up to rank 4; at rank 5-6 only the
/// rotations of the identity and of the reversed order (2*R orders)
bool next_nesting_order(std::vector<std::size_t>& perm)
{
    std::size_t const R = perm.size();
    while (std::next_permutation(perm.begin(), perm.end())) {
        if (R < 5) { return true; }
        bool rot = true, rev = true;
        for (std::size_t k = 0; k + 1 < R; ++k) {
            rot = rot && (perm[k + 1] == (perm[k] + 1) % R);
            rev = rev && (perm[k] == (perm[k + 1] + 1) % R);
        }
        if (rot || rev) { return true; }
    }
    return false;
}

std::vector<std::vector<ll>> stride_sets(std::vector<ll> const& e, bool thorough)
{
    std::vector<std::vector<ll>> out;
    std::size_t const R = e.size();
    std::vector<std::size_t> perm(R);
    for (std::size_t i = 0; i < R; ++i) { perm[i] = i; }
    std::vector<ll> const pads = thorough ? std::vector<ll>{0, 1, 3} : std::vector<ll>{0, 1};
    do {
        for (ll pad : pads) {
            std::vector<ll> s(R, 0);
            ll cur = 1;
            for (std::size_t k = 0; k < R; ++k) {
                s[perm[k]] = cur;
                cur        = cur * std::max<ll>(e[perm[k]], 1) + pad;
            }
            if (std::find(out.begin(), out.end(), s) == out.end()) { out.push_back(s); }
        }
    } while (next_nesting_order(perm));
    return out;
}

struct Limits {
    ull index_max, other_max;
};

struct Buffer {
    mc::GuardedBlock<int> blk;
    explicit Buffer(ll n) : blk(static_cast<std::size_t>(n))
    {
        for (ll i = 0; i < n; ++i) { blk.data()[i] = 1000 + static_cast<int>(i); }
    }
};

void run_md_case(Ctx& c, TypeInfo const& ti, MdFns const& f, Limits lim, ll maxDyn)
{
    auto const st        = ti.statics();
    std::string const en = ti.name();
    std::string const pc = pattern_class(st);
    std::size_t const R  = ti.rank;
    char const* const lname[2] = {"layout_right", "layout_left"};
    char const* const subj[10] = {"mdspan::mdspan(ptr,IndexTypes...)", "mdspan::mdspan(ptr,IndexTypes...)", "mdspan::mdspan(ptr,array<T,N>)", "mdspan::mdspan(ptr,array<T,N>)",
        "mdspan::mdspan(ptr,span<T,N>)", "mdspan::mdspan(ptr,span<T,N>)", "mdspan::mdspan(ptr,extents)", "mdspan::mdspan(ptr,mapping)", "mdspan::mdspan(ptr,mapping,accessor)+copy/move",
        "mdspan::mdspan(mdspan<OtherElement,OtherExtents,...>)"};
    char const* const how[10]  = {"ptr, dynamic extents as pack", "ptr, all extents as pack", "ptr, etl::array of the dynamic extents", "ptr, etl::array of all extents",
        "ptr, etl::span of the dynamic extents", "ptr, etl::span of all extents", "ptr, extents", "ptr, mapping", "ptr, mapping, accessor; then copied and moved",
        "converted from mdspan<int,dextents<other index>> to mdspan<int const,E>"};

    std::vector<ll> dv(ti.rank_dynamic, 0);
    do {
        auto const e        = full_extents(st, dv);
        auto const ix       = make_indices(e);
        bool const has_zero = std::find(e.begin(), e.end(), 0) != e.end();
        std::string const zc = R == 0 ? "rank0" : (has_zero ? "zero_extent" : "general");
        c.ocls               = zc;
        ll const prod        = product(e);
        // with a zero extent the size is 0 but stride(r) is still the product of the other extents: it must be representable as well
        ull largest = static_cast<ull>(prod);
        for (auto v : strides_left(e)) { largest = std::max(largest, static_cast<ull>(v)); }
        for (auto v : strides_right(e)) { largest = std::max(largest, static_cast<ull>(v)); }
        if (largest > lim.index_max || largest > lim.other_max) {
            ++c.skipped;
            continue;
        }
        {
            Buffer buf(prod);
            for (int side = 0; side < 2; ++side) {
                Expect x{e, side == 0 ? strides_right(e) : strides_left(e), prod};
                c.base = cat("mdspan<", lname[side], ">");
                for (int k = 0; k < 10; ++k) {
                    if (f.lr[side][k] == nullptr) { continue; }
                    bool const all = (k == 1 || k == 3 || k == 5);
                    std::string const cls = k <= 5 ? cat(all ? "n_eq_rank" : "n_eq_rank_dynamic", "+", pc) : (k == 9 ? "dynamic_to_static" : zc);
                    c.at(subj[k], cls, cat("mdspan<int,", en, ",", lname[side], ">(", how[k], ") extents ", show(e)));
                    run_md(c, f.lr[side][k], buf.blk, dv.data(), e.data(), nullptr, ix, x, ti);
                    c.nontrivial += (ix.n > 1);
                }
            }
            if (R == 2) {
                for (int over = 0; over < 2; ++over) {
                    Expect x{e, over == 0 ? strides_right(e) : strides_left(e), prod};
                    c.base = cat("mdspan<layout_transpose<", over == 0 ? "layout_left" : "layout_right", ">>");
                    c.at(cat(c.base, "::mdspan(ptr,mapping)"), zc,
                        cat("mdspan<int,", en, ",layout_transpose<", over == 0 ? "layout_left" : "layout_right", ">>(ptr, mapping) extents ", show(e)));
                    run_md(c, f.transpose[over], buf.blk, dv.data(), e.data(), nullptr, ix, x, ti);
                    c.nontrivial += (ix.n > 1);
                }
            }
        }
        if (R >= 1) {
            for (auto const& s : stride_sets(e, c.r.thorough())) {
                Expect x{e, s, span_size(e, s)};
                ull const need = std::max<ull>(static_cast<ull>(x.span), static_cast<ull>(*std::max_element(s.begin(), s.end())));
                if (need > lim.index_max || need > lim.other_max) {
                    ++c.skipped;
                    continue;
                }
                Buffer buf(x.span);
                bool const rowmajor = (s == strides_right(e)), colmajor = (s == strides_left(e));
                c.base = "mdspan<layout_stride>";
                c.at("mdspan<layout_stride>::mdspan(ptr,mapping)", cat(rowmajor ? "row_major" : (colmajor ? "column_major" : "padded_or_permuted"), "+", zc),
                    cat("mdspan<int,", en, ",layout_stride>(ptr, mapping(extents", show(dv), ", strides ", show(s), "))"));
                run_md(c, f.stride, buf.blk, dv.data(), e.data(), s.data(), ix, x, ti);
                c.nontrivial += (ix.n > 1);
            }
        }
        if (c.r.wants_sample()) { c.r.sample(cat("mdspan<int,", en, ",*> with extents ", show(e), ": all constructors x all ", ix.n, " indices x all access forms")); }
    } while (next_values(dv, maxDyn));
    c.r.count("extents_types");
}

template <typename I, typename A, std::size_t R, std::size_t Lo, std::size_t Count>
void job_md(mc::Reporter& r, ll maxDyn)
{
    Ctx c(r);
    Limits const lim{static_cast<ull>(std::numeric_limits<I>::max()), static_cast<ull>(std::numeric_limits<other_t<I>>::max())};
    for_patterns<I, A, R, Lo, Count>([&]<typename E>() {
        if (r.deadline_passed()) {
            if (r.exhaustive) { r.not_exhaustive("deadline"); }
            return;
        }
        run_md_case(c, tinfo<E>, md_fns<E>, lim, maxDyn);
    });
    c.flush();
}

template <typename I, typename List>
void job_md_list(mc::Reporter& r, ll maxDyn)
{
    Ctx c(r);
    Limits const lim{static_cast<ull>(std::numeric_limits<I>::max()), static_cast<ull>(std::numeric_limits<other_t<I>>::max())};
    for_types([&]<typename E>() {
        if (r.deadline_passed()) {
            if (r.exhaustive) { r.not_exhaustive("deadline"); }
            return;
        }
        run_md_case(c, tinfo<E>, md_fns<E>, lim, maxDyn);
    }, List{});
    c.flush();
}

// deduction guides and the C-array / pointer forms: a handful of written-out cases
void job_guides(mc::Reporter& r)
{
    Ctx c(r);
    Buffer buf(6);
    int* p = buf.blk.data();
    auto t = mc::guarded([&] {
        c.at("mdspan deduction guides", "general", "mdspan(ptr, 2, 3)");
        {
            etl::mdspan s(p, 2, 3);
            c.eq("type", std::is_same_v<decltype(s), etl::mdspan<int, etl::dextents<std::size_t, 2>>>, true);
            c.eq("&s(1,2)-ptr", &s(1, 2) - p, std::ptrdiff_t(5));
            c.eq("size()", s.size(), std::size_t(6));
        }
        c.at("mdspan deduction guides", "general", "mdspan(ptr, extents<int,2,3>{})");
        {
            etl::mdspan s(p, etl::extents<int, 2, 3>{});
            c.eq("type", std::is_same_v<decltype(s), etl::mdspan<int, etl::extents<int, 2, 3>>>, true);
            c.eq("&s(1,2)-ptr", &s(1, 2) - p, std::ptrdiff_t(5));
        }
        c.at("mdspan deduction guides", "general", "mdspan(ptr, layout_left::mapping<extents<int,2,3>>{})");
        {
            etl::mdspan s(p, etl::layout_left::mapping<etl::extents<int, 2, 3>>{});
            c.eq("type", std::is_same_v<decltype(s), etl::mdspan<int, etl::extents<int, 2, 3>, etl::layout_left>>, true);
            c.eq("&s(1,2)-ptr", &s(1, 2) - p, std::ptrdiff_t(5));
            c.eq("&s(1,1)-ptr", &s(1, 1) - p, std::ptrdiff_t(3));
        }
        c.at("mdspan deduction guides", "general", "mdspan(ptr) (rank 0)");
        {
            etl::mdspan s(p);
            c.eq("type", std::is_same_v<decltype(s), etl::mdspan<int, etl::extents<std::size_t>>>, true);
            c.eq("&s()-ptr", &s() - p, std::ptrdiff_t(0));
            c.eq("size()", s.size(), std::size_t(1));
        }
        c.at("mdspan deduction guides", "general", "mdspan(int(&)[4])");
        {
            int carr[4] = {1, 2, 3, 4};
            etl::mdspan s(carr);
            c.eq("type", std::is_same_v<decltype(s), etl::mdspan<int, etl::extents<std::size_t, 4>>>, true);
            c.eq("&s(3)-array", &s(3) - carr, std::ptrdiff_t(3));
        }
        c.at("mdspan::mdspan()", "all_dynamic", "mdspan<int,dextents<int,2>>() default");
        {
            etl::mdspan<int, etl::dextents<int, 2>> s;
            c.eq("data_handle()==nullptr", s.data_handle() == nullptr, true);
            c.eq("size()", s.size(), 0U);
            c.eq("empty()", s.empty(), true);
        }
    });
    c.trap(t);
    c.san_check();
    c.nontrivial += 6;
    r.sample("deduction guides: mdspan(ptr,2,3), mdspan(ptr,extents), mdspan(ptr,mapping), mdspan(ptr), mdspan(carray), default constructor");
    c.flush();
}

} // namespace

int main(int argc, char** argv)
{
    mc::Main m(argc, argv);
    std::vector<std::string> const both{"quick", "thorough"};
    std::vector<std::string> const th{"thorough"};
    using I              = PartIndex;
    std::string const in = iname<I>();
    // quick: int (all slices up to rank 3) and size_t (rank 0..2); everything else thorough only
    auto const tiers = (MC_ITYPE == 1 || (MC_ITYPE == 2 && MC_SLICE == 0)) ? both : th;
#if MC_SLICE == 0
    m.job(cat("mdspan/", in, "/rank0-2"), tiers, [](mc::Reporter& r) {
        job_md<I, A5, 0, 0, 1>(r, 4);
        job_md<I, A5, 1, 0, 5>(r, 4);
        job_md<I, A5, 2, 0, 25>(r, 4);
    });
    if (MC_ITYPE == 1) { m.job("mdspan/guides", both, job_guides); }
#elif MC_SLICE == 1
    m.job(cat("mdspan/", in, "/rank3a"), tiers, [](mc::Reporter& r) { job_md<I, A5, 3, 0, 63>(r, 4); });
#elif MC_SLICE == 2
    m.job(cat("mdspan/", in, "/rank3b"), tiers, [](mc::Reporter& r) { job_md<I, A5, 3, 63, 62>(r, 4); });
#elif MC_SLICE == 3
    m.job(cat("mdspan/", in, "/rank4a"), th, [](mc::Reporter& r) { job_md<I, A3, 4, 0, 41>(r, 3); });
#elif MC_SLICE == 4
    m.job(cat("mdspan/", in, "/rank4b"), th, [](mc::Reporter& r) { job_md<I, A3, 4, 41, 40>(r, 3); });
#elif MC_SLICE == 5
    // rank 5 and 6: six patterns each (c19_common.hpp), dynamic extents 0..3
    m.job(cat("mdspan/", in, "/rank5"), th, [](mc::Reporter& r) { job_md_list<I, rank5_types<I>>(r, 3); });
    m.job(cat("mdspan/", in, "/rank6"), th, [](mc::Reporter& r) { job_md_list<I, rank6_types<I>>(r, 3); });
#endif
    return m.run();
}
