// C05 in constant evaluation (added after seeded breakage c05_replace_check_skipped_in_constexpr, which
// wrapped one contract check in `if (not is_constant_evaluated())`): with contract checks enabled a call that
// violates a documented precondition reaches the (non-constexpr) assertion handler, so it must NOT be a
// constant expression - the compiler rejects it at the failing check - while the nearest valid call must be
// one.  Each row is a captureless constexpr lambda used as a template argument; "is F() a constant expression"
// is decided by a requires-expression, so a row that flips is one reported case, never a build failure.
// The rows cover one violating call and one valid control per contract-check family of the constexpr-capable
// types (static_vector<int>, inplace_string, string_view, span, array, optional, variant, bitset, bit helpers,
// div_sat, chrono day/month), and every range/index-taking modifier of inplace_string.
// Only meaningful in the chk flavours (checks on); in other flavours the job reports nothing.
#include "mc.hpp"

#include <etl/array.hpp>
#include <etl/bit.hpp>
#include <etl/bitset.hpp>
#include <etl/chrono.hpp>
#include <etl/numeric.hpp>
#include <etl/optional.hpp>
#include <etl/span.hpp>
#include <etl/string.hpp>
#include <etl/string_view.hpp>
#include <etl/variant.hpp>
#include <etl/vector.hpp>

#include <string>
#include <type_traits>

using mc::cat;

namespace {

template <auto F>
concept constant_expression = requires { typename std::bool_constant<(F(), true)>; };

struct Tally {
    mc::Reporter& r;
    std::uint64_t rows{0}, bad{0};
};

template <auto F>
void row(Tally& t, bool violating, char const* subject, char const* cls, char const* text)
{
    ++t.rows;
    if (violating) { ++t.bad; }
#if defined(MC_FLAVOUR_CHK)
    constexpr bool ce = constant_expression<F>;
    t.r.outcome(mc::hash_str(cat(subject, cls, ce)));
    if (violating && ce) {
        t.r.violation("C05", cat(subject, " (constant evaluation)"), cls, text,
            "the violating call is accepted as a constant expression: no contract check stops it during constant evaluation");
    }
    if (!violating && !ce) {
        t.r.violation("C05", cat(subject, " (constant evaluation)"), cat(cls, "/valid"), text, "the VALID control call is not a constant expression");
    }
#else
    (void)subject;
    (void)cls;
    (void)text;
#endif
    if (t.r.wants_sample()) { t.r.sample(cat(violating ? "violating: " : "valid: ", text)); }
}

#define BAD(subject, cls, ...) row<[]() constexpr { __VA_ARGS__ return true; }>(t, true, subject, cls, #__VA_ARGS__)
#define GOOD(subject, cls, ...) row<[]() constexpr { __VA_ARGS__ return true; }>(t, false, subject, cls, #__VA_ARGS__)

using S8  = etl::inplace_string<8>;
using S20 = etl::inplace_string<20>;
using V4  = etl::static_vector<int, 4>;

void strings(Tally& t)
{
    // ---- insert
    BAD("basic_inplace_string::insert(index,count,ch)", "index_past_size", S8 s{"abc"}; s.insert(4, 1, 'x'););
    GOOD("basic_inplace_string::insert(index,count,ch)", "index_eq_size", S8 s{"abc"}; s.insert(3, 1, 'x'););
    BAD("basic_inplace_string::insert(index,cstr)", "index_past_size", S8 s{"abc"}; s.insert(4, "x"););
    GOOD("basic_inplace_string::insert(index,cstr)", "index_eq_size", S8 s{"abc"}; s.insert(3, "x"););
    BAD("basic_inplace_string::insert(index,ptr,count)", "index_past_size", S8 s{"abc"}; s.insert(5, "xy", 1););
    GOOD("basic_inplace_string::insert(index,ptr,count)", "index_0", S8 s{"abc"}; s.insert(0, "xy", 1););
    BAD("basic_inplace_string::insert(index,str)", "index_past_size", S8 s{"abc"}; S8 const o{"x"}; s.insert(4, o););
    GOOD("basic_inplace_string::insert(index,str)", "index_eq_size", S8 s{"abc"}; S8 const o{"x"}; s.insert(3, o););
    BAD("basic_inplace_string::insert(index,str,pos2,count2)", "index_past_size", S8 s{"abc"}; S8 const o{"xy"}; s.insert(4, o, 0, 1););
    GOOD("basic_inplace_string::insert(index,str,pos2,count2)", "index_1", S8 s{"abc"}; S8 const o{"xy"}; s.insert(1, o, 0, 1););
    // ---- erase
    BAD("basic_inplace_string::erase(index,count)", "index_past_size", S8 s{"abc"}; s.erase(4, 1););
    GOOD("basic_inplace_string::erase(index,count)", "index_eq_size", S8 s{"abc"}; s.erase(3, 1););
    BAD("basic_inplace_string::erase(pos)", "pos_eq_end", S8 s{"abc"}; s.erase(s.end()););
    GOOD("basic_inplace_string::erase(pos)", "pos_last", S8 s{"abc"}; s.erase(s.begin() + 2););
    BAD("basic_inplace_string::erase(first,last)", "last_past_end", S8 s{"abc"}; s.erase(s.begin() + 1, s.begin() + 5););
    BAD("basic_inplace_string::erase(first,last)", "range_reversed", S8 s{"abcd"}; s.erase(s.begin() + 3, s.begin() + 1););
    GOOD("basic_inplace_string::erase(first,last)", "whole_string", S8 s{"abc"}; s.erase(s.begin(), s.end()););
    // ---- replace (every iterator-range overload and the index overloads)
    BAD("basic_inplace_string::replace(first,last,str)", "last_past_end", S20 s{"abc"}; S20 const o{"XXXXXXXX"}; s.replace(s.begin() + 1, s.begin() + 6, o););
    BAD("basic_inplace_string::replace(first,last,str)", "range_reversed", S20 s{"abcdef"}; S20 const o{"XY"}; s.replace(s.begin() + 4, s.begin() + 2, o););
    GOOD("basic_inplace_string::replace(first,last,str)", "inside", S20 s{"abcdef"}; S20 const o{"XY"}; s.replace(s.begin() + 1, s.begin() + 3, o););
    BAD("basic_inplace_string::replace(first,last,ptr,count2)", "last_past_end", S20 s{"abc"}; s.replace(s.begin() + 1, s.begin() + 6, "XXXXXXXX", 5););
    BAD("basic_inplace_string::replace(first,last,ptr,count2)", "range_reversed", S20 s{"abcdef"}; s.replace(s.begin() + 4, s.begin() + 2, "XY", 2););
    GOOD("basic_inplace_string::replace(first,last,ptr,count2)", "inside", S20 s{"abcdef"}; s.replace(s.begin() + 1, s.begin() + 3, "XY", 2););
    BAD("basic_inplace_string::replace(first,last,count2,ch)", "last_past_end", S20 s{"abc"}; s.replace(s.begin() + 1, s.begin() + 6, 5, 'x'););
    BAD("basic_inplace_string::replace(first,last,count2,ch)", "range_reversed", S20 s{"abcdef"}; s.replace(s.begin() + 4, s.begin() + 2, 2, 'x'););
    GOOD("basic_inplace_string::replace(first,last,count2,ch)", "inside", S20 s{"abcdef"}; s.replace(s.begin() + 1, s.begin() + 3, 2, 'x'););
    BAD("basic_inplace_string::replace(pos,count,str)", "pos_past_size", S20 s{"abc"}; S20 const o{"X"}; s.replace(4, 1, o););
    GOOD("basic_inplace_string::replace(pos,count,str)", "pos_eq_size", S20 s{"abc"}; S20 const o{"X"}; s.replace(3, 0, o););
    BAD("basic_inplace_string::replace(pos,count,str,pos2,count2)", "pos2_past_size", S20 s{"abc"}; S20 const o{"X"}; s.replace(0, 1, o, 2, 1););
    GOOD("basic_inplace_string::replace(pos,count,str,pos2,count2)", "pos2_eq_size", S20 s{"abc"}; S20 const o{"X"}; s.replace(0, 1, o, 1, 1););
    BAD("basic_inplace_string::replace(pos,count,ptr,count2)", "pos_past_size", S20 s{"abc"}; s.replace(4, 1, "XY", 1););
    GOOD("basic_inplace_string::replace(pos,count,ptr,count2)", "pos_0", S20 s{"abc"}; s.replace(0, 1, "XY", 1););
    // ---- element access / growth
    BAD("basic_inplace_string::pop_back()", "empty", S8 s{}; s.pop_back(););
    GOOD("basic_inplace_string::pop_back()", "non_empty", S8 s{"a"}; s.pop_back(););
    BAD("basic_inplace_string::push_back(ch)", "full", etl::inplace_string<2> s{"ab"}; s.push_back('c'););
    GOOD("basic_inplace_string::push_back(ch)", "one_below_full", etl::inplace_string<2> s{"a"}; s.push_back('c'););
    BAD("basic_inplace_string::basic_inplace_string(ptr,count)", "count_past_capacity", etl::inplace_string<2> s{"abc", 3}; (void)s;);
    GOOD("basic_inplace_string::basic_inplace_string(ptr,count)", "count_eq_capacity", etl::inplace_string<2> s{"abc", 2}; (void)s;);
    // ---- string_view
    BAD("basic_string_view::remove_prefix(n)", "n_past_size", etl::string_view v{"abc"}; v.remove_prefix(4););
    GOOD("basic_string_view::remove_prefix(n)", "n_eq_size", etl::string_view v{"abc"}; v.remove_prefix(3););
    BAD("basic_string_view::remove_suffix(n)", "n_past_size", etl::string_view v{"abc"}; v.remove_suffix(4););
    GOOD("basic_string_view::remove_suffix(n)", "n_eq_size", etl::string_view v{"abc"}; v.remove_suffix(3););
    BAD("basic_string_view::substr(pos,count)", "pos_past_size", etl::string_view v{"abc"}; (void)v.substr(4););
    GOOD("basic_string_view::substr(pos,count)", "pos_eq_size", etl::string_view v{"abc"}; (void)v.substr(3););
    BAD("basic_string_view::operator[](pos)", "pos_eq_size", etl::string_view v{"abc"}; (void)v[3];);
    GOOD("basic_string_view::operator[](pos)", "pos_last", etl::string_view v{"abc"}; (void)v[2];);
    BAD("basic_string_view::front()", "empty", etl::string_view v{}; (void)v.front(););
    GOOD("basic_string_view::front()", "non_empty", etl::string_view v{"a"}; (void)v.front(););
}

void containers(Tally& t)
{
    BAD("static_vector::operator[](idx)", "index_eq_size", V4 v{}; v.push_back(1); (void)v[1];);
    GOOD("static_vector::operator[](idx)", "index_last", V4 v{}; v.push_back(1); (void)v[0];);
    BAD("static_vector::front()", "empty", V4 v{}; (void)v.front(););
    BAD("static_vector::back()", "empty", V4 v{}; (void)v.back(););
    GOOD("static_vector::back()", "non_empty", V4 v{}; v.push_back(1); (void)v.back(););
    BAD("static_vector::pop_back()", "empty", V4 v{}; v.pop_back(););
    GOOD("static_vector::pop_back()", "non_empty", V4 v{}; v.push_back(1); v.pop_back(););
    BAD("static_vector::push_back(v)", "full", V4 v(4, 7); v.push_back(1););
    GOOD("static_vector::push_back(v)", "one_below_full", V4 v(3, 7); v.push_back(1););
    BAD("static_vector::insert(pos,v)", "full", V4 v(4, 7); v.insert(v.begin(), 1););
    BAD("static_vector::insert(pos,v)", "pos_past_end", V4 v(2, 7); v.insert(v.begin() + 3, 1););
    GOOD("static_vector::insert(pos,v)", "pos_eq_end", V4 v(2, 7); v.insert(v.end(), 1););
    BAD("static_vector::insert(pos,n,v)", "count_past_rest", V4 v(2, 7); v.insert(v.begin(), 3, 1););
    GOOD("static_vector::insert(pos,n,v)", "count_eq_rest", V4 v(2, 7); v.insert(v.begin(), 2, 1););
    BAD("static_vector::erase(first,last)", "last_past_end", V4 v(2, 7); v.erase(v.begin(), v.begin() + 3););
    BAD("static_vector::erase(first,last)", "range_reversed", V4 v(3, 7); v.erase(v.begin() + 2, v.begin() + 1););
    GOOD("static_vector::erase(first,last)", "whole", V4 v(3, 7); v.erase(v.begin(), v.end()););
    BAD("static_vector::static_vector(n)", "n_past_capacity", V4 v(5); (void)v;);
    GOOD("static_vector::static_vector(n)", "n_eq_capacity", V4 v(4); (void)v;);
    BAD("static_vector::resize(n,v)", "n_past_capacity", V4 v(1, 7); v.resize(5, 1););
    GOOD("static_vector::resize(n,v)", "n_eq_capacity", V4 v(1, 7); v.resize(4, 1););
    BAD("static_vector::assign(n,v)", "n_past_capacity", V4 v{}; v.assign(5, 1););
    GOOD("static_vector::assign(n,v)", "n_eq_capacity", V4 v{}; v.assign(4, 1););
    // span / array
    BAD("span::operator[](idx)", "index_eq_size", int a[3] = {1, 2, 3}; etl::span<int> s{a, 3}; (void)s[3];);
    GOOD("span::operator[](idx)", "index_last", int a[3] = {1, 2, 3}; etl::span<int> s{a, 3}; (void)s[2];);
    BAD("span::first(count)", "count_past_size", int a[3] = {1, 2, 3}; etl::span<int> s{a, 3}; (void)s.first(4););
    GOOD("span::first(count)", "count_eq_size", int a[3] = {1, 2, 3}; etl::span<int> s{a, 3}; (void)s.first(3););
    BAD("span::last(count)", "count_past_size", int a[3] = {1, 2, 3}; etl::span<int> s{a, 3}; (void)s.last(4););
    BAD("span::subspan(offset,count)", "offset_past_size", int a[3] = {1, 2, 3}; etl::span<int> s{a, 3}; (void)s.subspan(4););
    BAD("span::subspan(offset,count)", "count_past_rest", int a[3] = {1, 2, 3}; etl::span<int> s{a, 3}; (void)s.subspan(2, 2););
    BAD("span::subspan(offset,count)", "sum_wraps", int a[3] = {1, 2, 3}; etl::span<int> s{a, 3}; (void)s.subspan(2, etl::size_t(-1) - 1););
    GOOD("span::subspan(offset,count)", "count_eq_rest", int a[3] = {1, 2, 3}; etl::span<int> s{a, 3}; (void)s.subspan(2, 1););
    BAD("span::front()", "empty", etl::span<int> s{}; (void)s.front(););
    BAD("array::operator[](idx)", "index_eq_size", etl::array<int, 3> a{1, 2, 3}; (void)a[3];);
    GOOD("array::operator[](idx)", "index_last", etl::array<int, 3> a{1, 2, 3}; (void)a[2];);
}

void others(Tally& t)
{
    BAD("optional::operator*()", "empty", etl::optional<int> o{}; (void)*o;);
    GOOD("optional::operator*()", "engaged", etl::optional<int> o{1}; (void)*o;);
    BAD("variant::operator[](index_v<I>)", "wrong_alternative", etl::variant<int, float> v{1}; (void)v[etl::index_v<1>];);
    GOOD("variant::operator[](index_v<I>)", "active_alternative", etl::variant<int, float> v{1}; (void)v[etl::index_v<0>];);
    BAD("bitset::set(pos)", "pos_eq_size", etl::bitset<8> b{}; b.set(8););
    GOOD("bitset::set(pos)", "pos_last", etl::bitset<8> b{}; b.set(7););
    BAD("bitset::test(pos)", "pos_eq_size", etl::bitset<8> b{}; (void)b.test(8););
    BAD("bitset::flip(pos)", "pos_eq_size", etl::bitset<8> b{}; b.flip(8););
    BAD("bitset::reset(pos)", "pos_eq_size", etl::bitset<8> b{}; b.reset(8););
    BAD("bitset::bitset(string_view,pos,n)", "pos_past_size", etl::bitset<8> b{etl::string_view{"01"}, 3}; (void)b;);
    GOOD("bitset::bitset(string_view,pos,n)", "pos_eq_size", etl::bitset<8> b{etl::string_view{"01"}, 2}; (void)b;);
    BAD("set_bit(word,pos)", "pos_eq_digits", (void)etl::set_bit(etl::uint8_t(0), etl::uint8_t(8)););
    GOOD("set_bit(word,pos)", "pos_last", (void)etl::set_bit(etl::uint8_t(0), etl::uint8_t(7)););
    BAD("test_bit(word,pos)", "pos_eq_digits", (void)etl::test_bit(etl::uint16_t(0), etl::uint16_t(16)););
    BAD("flip_bit(word,pos)", "pos_eq_digits", (void)etl::flip_bit(etl::uint32_t(0), etl::uint32_t(32)););
    BAD("reset_bit(word,pos)", "pos_eq_digits", (void)etl::reset_bit(etl::uint8_t(0), etl::uint8_t(9)););
    BAD("div_sat(x,y)", "zero_divisor", (void)etl::div_sat(1, 0););
    GOOD("div_sat(x,y)", "non_zero_divisor", (void)etl::div_sat(1, 1););
    BAD("chrono::day::day(unsigned)", "value_256", etl::chrono::day d{256}; (void)d;);
    GOOD("chrono::day::day(unsigned)", "value_255", etl::chrono::day d{255}; (void)d;);
    BAD("chrono::month::month(unsigned)", "value_256", etl::chrono::month m{256}; (void)m;);
}

} // namespace

int main(int argc, char** argv)
{
    mc::Main m(argc, argv);
    m.job("constant-evaluation/contract-checks", {"quick", "thorough"}, [](mc::Reporter& r) {
        Tally t{r};
        strings(t);
        containers(t);
        others(t);
        r.count("evaluations", t.rows);
        r.count("distinct_nontrivial", t.bad);
        r.count("violating_calls", t.bad);
        r.count("valid_controls", t.rows - t.bad);
#if !defined(MC_FLAVOUR_CHK)
        r.note("contract checks are off in this flavour: rows counted, nothing decided");
#endif
    });
    return m.run();
}
