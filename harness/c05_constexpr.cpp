// C05 in constant evaluation (added after seeded breakage c05_replace_check_skipped_in_constexpr, which
// wrapped one contract check in `if (not is_constant_evaluated())`): with contract checks enabled a call that
// violates a documented precondition reaches the (non-constexpr) assertion handler, so it must NOT be a
// constant expression - the compiler rejects it at the failing check - while the nearest valid call must be
// one.  Each row is a captureless constexpr lambda used as a template argument; "is F() a constant expression"
// is decided by a requires-expression, so a row that flips is one reported case, never a build failure.
// The rows cover one violating call and one valid control per contract-check family of the constexpr-capable
// types (static_vector<int>, inplace_string, string_view, span, array, optional, variant, bitset, bit helpers,
// div_sat, chrono day/month), and every range/index-taking modifier of inplace_string.
// Only meaningful in the chk flavours (checks on); in other flavours the job reports nothing.
// Round 2: the table follows the run-time catalogue overload by overload (containers2/strings2/others2) and runs in
// flavour chkfast as well (thorough tier; the two TETL_PRECONDITION_SAFE rows of array::operator[] are left out there).
#include "mc.hpp"

#include <etl/array.hpp>
#include <etl/bit.hpp>
#include <etl/bitset.hpp>
#include <etl/charconv.hpp>
#include <etl/chrono.hpp>
#include <etl/expected.hpp>
#include <etl/flat_set.hpp>
#include <etl/mdspan.hpp>
#include <etl/numeric.hpp>
#include <etl/optional.hpp>
#include <etl/set.hpp>
#include <etl/span.hpp>
#include <etl/stack.hpp>
#include <etl/string.hpp>
#include <etl/string_view.hpp>
#include <etl/variant.hpp>
#include <etl/vector.hpp>

#include <string>
#include <type_traits>

using mc::cat;

namespace {

template <auto F>
concept constant_expression = requires { typename std::bool_constant<(F(), true)>; };

struct Tally {
    mc::Reporter& r;
    std::uint64_t rows{0}, bad{0};
};

template <auto F>
void row(Tally& t, bool violating, char const* subject, char const* cls, char const* text)
{
    ++t.rows;
    if (violating) { ++t.bad; }
#if defined(MC_FLAVOUR_CHK)
    constexpr bool ce = constant_expression<F>;
    t.r.outcome(mc::hash_str(cat(subject, cls, ce)));
    if (violating && ce) {
        t.r.violation("C05", cat(subject, " (constant evaluation)"), cls, text,
            "the violating call is accepted as a constant expression: no contract check stops it during constant evaluation");
    }
    if (!violating && !ce) {
        t.r.violation("C05", cat(subject, " (constant evaluation)"), cat(cls, "/valid"), text, "the VALID control call is not a constant expression");
    }
#else
    (void)subject;
    (void)cls;
    (void)text;
#endif
    if (t.r.wants_sample()) { t.r.sample(cat(violating ? "violating: " : "valid: ", text)); }
}

#define BAD(subject, cls, ...) row<[]() constexpr { __VA_ARGS__ return true; }>(t, true, subject, cls, #__VA_ARGS__)
#define GOOD(subject, cls, ...) row<[]() constexpr { __VA_ARGS__ return true; }>(t, false, subject, cls, #__VA_ARGS__)

using S8  = etl::inplace_string<8>;
using S20 = etl::inplace_string<20>;
using V4  = etl::static_vector<int, 4>;

void strings(Tally& t)
{
    // ---- insert
    BAD("basic_inplace_string::insert(index,count,ch)", "index_past_size", S8 s{"abc"}; s.insert(4, 1, 'x'););
    GOOD("basic_inplace_string::insert(index,count,ch)", "index_eq_size", S8 s{"abc"}; s.insert(3, 1, 'x'););
    BAD("basic_inplace_string::insert(index,cstr)", "index_past_size", S8 s{"abc"}; s.insert(4, "x"););
    GOOD("basic_inplace_string::insert(index,cstr)", "index_eq_size", S8 s{"abc"}; s.insert(3, "x"););
    BAD("basic_inplace_string::insert(index,ptr,count)", "index_past_size", S8 s{"abc"}; s.insert(5, "xy", 1););
    GOOD("basic_inplace_string::insert(index,ptr,count)", "index_0", S8 s{"abc"}; s.insert(0, "xy", 1););
    BAD("basic_inplace_string::insert(index,str)", "index_past_size", S8 s{"abc"}; S8 const o{"x"}; s.insert(4, o););
    GOOD("basic_inplace_string::insert(index,str)", "index_eq_size", S8 s{"abc"}; S8 const o{"x"}; s.insert(3, o););
    BAD("basic_inplace_string::insert(index,str,pos2,count2)", "index_past_size", S8 s{"abc"}; S8 const o{"xy"}; s.insert(4, o, 0, 1););
    GOOD("basic_inplace_string::insert(index,str,pos2,count2)", "index_1", S8 s{"abc"}; S8 const o{"xy"}; s.insert(1, o, 0, 1););
    // ---- erase
    BAD("basic_inplace_string::erase(index,count)", "index_past_size", S8 s{"abc"}; s.erase(4, 1););
    GOOD("basic_inplace_string::erase(index,count)", "index_eq_size", S8 s{"abc"}; s.erase(3, 1););
    BAD("basic_inplace_string::erase(pos)", "pos_eq_end", S8 s{"abc"}; s.erase(s.end()););
    GOOD("basic_inplace_string::erase(pos)", "pos_last", S8 s{"abc"}; s.erase(s.begin() + 2););
    BAD("basic_inplace_string::erase(first,last)", "last_past_end", S8 s{"abc"}; s.erase(s.begin() + 1, s.begin() + 5););
    BAD("basic_inplace_string::erase(first,last)", "range_reversed", S8 s{"abcd"}; s.erase(s.begin() + 3, s.begin() + 1););
    GOOD("basic_inplace_string::erase(first,last)", "whole_string", S8 s{"abc"}; s.erase(s.begin(), s.end()););
    // ---- replace (every iterator-range overload and the index overloads)
    BAD("basic_inplace_string::replace(first,last,str)", "last_past_end", S20 s{"abc"}; S20 const o{"XXXXXXXX"}; s.replace(s.begin() + 1, s.begin() + 6, o););
    BAD("basic_inplace_string::replace(first,last,str)", "range_reversed", S20 s{"abcdef"}; S20 const o{"XY"}; s.replace(s.begin() + 4, s.begin() + 2, o););
    GOOD("basic_inplace_string::replace(first,last,str)", "inside", S20 s{"abcdef"}; S20 const o{"XY"}; s.replace(s.begin() + 1, s.begin() + 3, o););
    BAD("basic_inplace_string::replace(first,last,ptr,count2)", "last_past_end", S20 s{"abc"}; s.replace(s.begin() + 1, s.begin() + 6, "XXXXXXXX", 5););
    BAD("basic_inplace_string::replace(first,last,ptr,count2)", "range_reversed", S20 s{"abcdef"}; s.replace(s.begin() + 4, s.begin() + 2, "XY", 2););
    GOOD("basic_inplace_string::replace(first,last,ptr,count2)", "inside", S20 s{"abcdef"}; s.replace(s.begin() + 1, s.begin() + 3, "XY", 2););
    BAD("basic_inplace_string::replace(first,last,count2,ch)", "last_past_end", S20 s{"abc"}; s.replace(s.begin() + 1, s.begin() + 6, 5, 'x'););
    BAD("basic_inplace_string::replace(first,last,count2,ch)", "range_reversed", S20 s{"abcdef"}; s.replace(s.begin() + 4, s.begin() + 2, 2, 'x'););
    GOOD("basic_inplace_string::replace(first,last,count2,ch)", "inside", S20 s{"abcdef"}; s.replace(s.begin() + 1, s.begin() + 3, 2, 'x'););
    BAD("basic_inplace_string::replace(pos,count,str)", "pos_past_size", S20 s{"abc"}; S20 const o{"X"}; s.replace(4, 1, o););
    GOOD("basic_inplace_string::replace(pos,count,str)", "pos_eq_size", S20 s{"abc"}; S20 const o{"X"}; s.replace(3, 0, o););
    BAD("basic_inplace_string::replace(pos,count,str,pos2,count2)", "pos2_past_size", S20 s{"abc"}; S20 const o{"X"}; s.replace(0, 1, o, 2, 1););
    GOOD("basic_inplace_string::replace(pos,count,str,pos2,count2)", "pos2_eq_size", S20 s{"abc"}; S20 const o{"X"}; s.replace(0, 1, o, 1, 1););
    BAD("basic_inplace_string::replace(pos,count,ptr,count2)", "pos_past_size", S20 s{"abc"}; s.replace(4, 1, "XY", 1););
    GOOD("basic_inplace_string::replace(pos,count,ptr,count2)", "pos_0", S20 s{"abc"}; s.replace(0, 1, "XY", 1););
    // ---- element access / growth
    BAD("basic_inplace_string::pop_back()", "empty", S8 s{}; s.pop_back(););
    GOOD("basic_inplace_string::pop_back()", "non_empty", S8 s{"a"}; s.pop_back(););
    BAD("basic_inplace_string::push_back(ch)", "full", etl::inplace_string<2> s{"ab"}; s.push_back('c'););
    GOOD("basic_inplace_string::push_back(ch)", "one_below_full", etl::inplace_string<2> s{"a"}; s.push_back('c'););
    BAD("basic_inplace_string::basic_inplace_string(ptr,count)", "count_past_capacity", etl::inplace_string<2> s{"abc", 3}; (void)s;);
    GOOD("basic_inplace_string::basic_inplace_string(ptr,count)", "count_eq_capacity", etl::inplace_string<2> s{"abc", 2}; (void)s;);
    // ---- string_view
    BAD("basic_string_view::remove_prefix(n)", "n_past_size", etl::string_view v{"abc"}; v.remove_prefix(4););
    GOOD("basic_string_view::remove_prefix(n)", "n_eq_size", etl::string_view v{"abc"}; v.remove_prefix(3););
    BAD("basic_string_view::remove_suffix(n)", "n_past_size", etl::string_view v{"abc"}; v.remove_suffix(4););
    GOOD("basic_string_view::remove_suffix(n)", "n_eq_size", etl::string_view v{"abc"}; v.remove_suffix(3););
    BAD("basic_string_view::substr(pos,count)", "pos_past_size", etl::string_view v{"abc"}; (void)v.substr(4););
    GOOD("basic_string_view::substr(pos,count)", "pos_eq_size", etl::string_view v{"abc"}; (void)v.substr(3););
    BAD("basic_string_view::operator[](pos)", "pos_eq_size", etl::string_view v{"abc"}; (void)v[3];);
    GOOD("basic_string_view::operator[](pos)", "pos_last", etl::string_view v{"abc"}; (void)v[2];);
    BAD("basic_string_view::front()", "empty", etl::string_view v{}; (void)v.front(););
    GOOD("basic_string_view::front()", "non_empty", etl::string_view v{"a"}; (void)v.front(););
}

void containers(Tally& t)
{
    BAD("static_vector::operator[](idx)", "index_eq_size", V4 v{}; v.push_back(1); (void)v[1];);
    GOOD("static_vector::operator[](idx)", "index_last", V4 v{}; v.push_back(1); (void)v[0];);
    BAD("static_vector::front()", "empty", V4 v{}; (void)v.front(););
    BAD("static_vector::back()", "empty", V4 v{}; (void)v.back(););
    GOOD("static_vector::back()", "non_empty", V4 v{}; v.push_back(1); (void)v.back(););
    BAD("static_vector::pop_back()", "empty", V4 v{}; v.pop_back(););
    GOOD("static_vector::pop_back()", "non_empty", V4 v{}; v.push_back(1); v.pop_back(););
    BAD("static_vector::push_back(v)", "full", V4 v(4, 7); v.push_back(1););
    GOOD("static_vector::push_back(v)", "one_below_full", V4 v(3, 7); v.push_back(1););
    BAD("static_vector::insert(pos,v)", "full", V4 v(4, 7); v.insert(v.begin(), 1););
    BAD("static_vector::insert(pos,v)", "pos_past_end", V4 v(2, 7); v.insert(v.begin() + 3, 1););
    GOOD("static_vector::insert(pos,v)", "pos_eq_end", V4 v(2, 7); v.insert(v.end(), 1););
    BAD("static_vector::insert(pos,n,v)", "count_past_rest", V4 v(2, 7); v.insert(v.begin(), 3, 1););
    GOOD("static_vector::insert(pos,n,v)", "count_eq_rest", V4 v(2, 7); v.insert(v.begin(), 2, 1););
    BAD("static_vector::erase(first,last)", "last_past_end", V4 v(2, 7); v.erase(v.begin(), v.begin() + 3););
    BAD("static_vector::erase(first,last)", "range_reversed", V4 v(3, 7); v.erase(v.begin() + 2, v.begin() + 1););
    GOOD("static_vector::erase(first,last)", "whole", V4 v(3, 7); v.erase(v.begin(), v.end()););
    BAD("static_vector::static_vector(n)", "n_past_capacity", V4 v(5); (void)v;);
    GOOD("static_vector::static_vector(n)", "n_eq_capacity", V4 v(4); (void)v;);
    BAD("static_vector::resize(n,v)", "n_past_capacity", V4 v(1, 7); v.resize(5, 1););
    GOOD("static_vector::resize(n,v)", "n_eq_capacity", V4 v(1, 7); v.resize(4, 1););
    BAD("static_vector::assign(n,v)", "n_past_capacity", V4 v{}; v.assign(5, 1););
    GOOD("static_vector::assign(n,v)", "n_eq_capacity", V4 v{}; v.assign(4, 1););
    // span / array
    BAD("span::operator[](idx)", "index_eq_size", int a[3] = {1, 2, 3}; etl::span<int> s{a, 3}; (void)s[3];);
    GOOD("span::operator[](idx)", "index_last", int a[3] = {1, 2, 3}; etl::span<int> s{a, 3}; (void)s[2];);
    BAD("span::first(count)", "count_past_size", int a[3] = {1, 2, 3}; etl::span<int> s{a, 3}; (void)s.first(4););
    GOOD("span::first(count)", "count_eq_size", int a[3] = {1, 2, 3}; etl::span<int> s{a, 3}; (void)s.first(3););
    BAD("span::last(count)", "count_past_size", int a[3] = {1, 2, 3}; etl::span<int> s{a, 3}; (void)s.last(4););
    BAD("span::subspan(offset,count)", "offset_past_size", int a[3] = {1, 2, 3}; etl::span<int> s{a, 3}; (void)s.subspan(4););
    BAD("span::subspan(offset,count)", "count_past_rest", int a[3] = {1, 2, 3}; etl::span<int> s{a, 3}; (void)s.subspan(2, 2););
    BAD("span::subspan(offset,count)", "sum_wraps", int a[3] = {1, 2, 3}; etl::span<int> s{a, 3}; (void)s.subspan(2, etl::size_t(-1) - 1););
    GOOD("span::subspan(offset,count)", "count_eq_rest", int a[3] = {1, 2, 3}; etl::span<int> s{a, 3}; (void)s.subspan(2, 1););
    BAD("span::front()", "empty", etl::span<int> s{}; (void)s.front(););
#if !defined(MC_FLAVOUR_CHKFAST) // TETL_PRECONDITION_SAFE sites: compiled out by design without TETL_ENABLE_CONTRACT_CHECKS_SAFE
    BAD("array::operator[](idx)", "index_eq_size", etl::array<int, 3> a{1, 2, 3}; (void)a[3];);
#endif
    GOOD("array::operator[](idx)", "index_last", etl::array<int, 3> a{1, 2, 3}; (void)a[2];);
}

void others(Tally& t)
{
    BAD("optional::operator*()", "empty", etl::optional<int> o{}; (void)*o;);
    GOOD("optional::operator*()", "engaged", etl::optional<int> o{1}; (void)*o;);
    BAD("variant::operator[](index_v<I>)", "wrong_alternative", etl::variant<int, float> v{1}; (void)v[etl::index_v<1>];);
    GOOD("variant::operator[](index_v<I>)", "active_alternative", etl::variant<int, float> v{1}; (void)v[etl::index_v<0>];);
    BAD("bitset::set(pos)", "pos_eq_size", etl::bitset<8> b{}; b.set(8););
    GOOD("bitset::set(pos)", "pos_last", etl::bitset<8> b{}; b.set(7););
    BAD("bitset::test(pos)", "pos_eq_size", etl::bitset<8> b{}; (void)b.test(8););
    BAD("bitset::flip(pos)", "pos_eq_size", etl::bitset<8> b{}; b.flip(8););
    BAD("bitset::reset(pos)", "pos_eq_size", etl::bitset<8> b{}; b.reset(8););
    BAD("bitset::bitset(string_view,pos,n)", "pos_past_size", etl::bitset<8> b{etl::string_view{"01"}, 3}; (void)b;);
    GOOD("bitset::bitset(string_view,pos,n)", "pos_eq_size", etl::bitset<8> b{etl::string_view{"01"}, 2}; (void)b;);
    BAD("set_bit(word,pos)", "pos_eq_digits", (void)etl::set_bit(etl::uint8_t(0), etl::uint8_t(8)););
    GOOD("set_bit(word,pos)", "pos_last", (void)etl::set_bit(etl::uint8_t(0), etl::uint8_t(7)););
    BAD("test_bit(word,pos)", "pos_eq_digits", (void)etl::test_bit(etl::uint16_t(0), etl::uint16_t(16)););
    BAD("flip_bit(word,pos)", "pos_eq_digits", (void)etl::flip_bit(etl::uint32_t(0), etl::uint32_t(32)););
    BAD("reset_bit(word,pos)", "pos_eq_digits", (void)etl::reset_bit(etl::uint8_t(0), etl::uint8_t(9)););
    BAD("div_sat(x,y)", "zero_divisor", (void)etl::div_sat(1, 0););
    GOOD("div_sat(x,y)", "non_zero_divisor", (void)etl::div_sat(1, 1););
    BAD("chrono::day::day(unsigned)", "value_256", etl::chrono::day d{256}; (void)d;);
    GOOD("chrono::day::day(unsigned)", "value_255", etl::chrono::day d{255}; (void)d;);
    BAD("chrono::month::month(unsigned)", "value_256", etl::chrono::month m{256}; (void)m;);
}

// ---------------------------------------------------------------------------------------------------------
// round 2: the remaining overloads / operations of the run-time catalogue (one violating call that stays inside
// the object's own storage, so that only the contract check can make it non-constant, + the nearest valid call)
// ---------------------------------------------------------------------------------------------------------

using V2   = etl::static_vector<int, 2>;
using FS2  = etl::flat_set<int, etl::static_vector<int, 2>>;
using SS2  = etl::static_set<int, 2>;
using M23  = etl::mdspan<int, etl::extents<int, 2, 3>>;
using M23L = etl::mdspan<int, etl::extents<int, 2, 3>, etl::layout_left>;
using MD2  = etl::mdspan<int, etl::dextents<etl::size_t, 2>>;

void containers2(Tally& t)
{
    // static_vector: remaining overloads
    BAD("static_vector::operator[](idx) const", "index_eq_size", V4 v{}; v.push_back(1); V4 const& c = v; (void)c[1];);
    GOOD("static_vector::operator[](idx) const", "index_last", V4 v{}; v.push_back(1); V4 const& c = v; (void)c[0];);
    BAD("static_vector::front() const", "empty", V4 const v{}; (void)v.front(););
    BAD("static_vector::back() const", "empty", V4 const v{}; (void)v.back(););
    GOOD("static_vector::front() const", "non_empty", V4 const v(1, 7); (void)v.front(););
    BAD("static_vector::emplace_back(args)", "full", V4 v(4, 7); v.emplace_back(1););
    GOOD("static_vector::emplace_back(args)", "one_below_full", V4 v(3, 7); v.emplace_back(1););
    BAD("static_vector::emplace(pos,args)", "full", V4 v(4, 7); v.emplace(v.begin(), 1););
    BAD("static_vector::emplace(pos,args)", "pos_before_begin", V4 v(2, 7); v.erase(v.begin()); v.emplace(v.begin() + 3, 1););
    GOOD("static_vector::emplace(pos,args)", "pos_begin", V4 v(3, 7); v.emplace(v.begin(), 1););
    BAD("static_vector::insert(pos,rvalue)", "full", V4 v(4, 7); int x = 1; v.insert(v.end(), static_cast<int&&>(x)););
    GOOD("static_vector::insert(pos,rvalue)", "one_below_full", V4 v(3, 7); int x = 1; v.insert(v.end(), static_cast<int&&>(x)););
    BAD("static_vector::insert(pos,first,last)", "range_gt_free", V4 v(2, 7); int a[3] = {1, 2, 3}; v.insert(v.begin(), a, a + 3););
    BAD("static_vector::insert(pos,first,last)", "range_reversed", V4 v(2, 7); int a[3] = {1, 2, 3}; v.insert(v.begin(), a + 1, a););
    GOOD("static_vector::insert(pos,first,last)", "range_eq_free", V4 v(2, 7); int a[3] = {1, 2, 3}; v.insert(v.begin(), a, a + 2););
    BAD("static_vector::erase(pos)", "pos_eq_end", V4 v(2, 7); v.erase(v.end()););
    GOOD("static_vector::erase(pos)", "pos_last", V4 v(2, 7); v.erase(v.end() - 1););
    BAD("static_vector::resize(n)", "n_past_capacity", V4 v(1, 7); v.resize(5););
    GOOD("static_vector::resize(n)", "n_eq_capacity", V4 v(1, 7); v.resize(4););
    BAD("static_vector::assign(first,last)", "range_gt_capacity", V4 v{}; int a[5] = {1, 2, 3, 4, 5}; v.assign(a, a + 5););
    GOOD("static_vector::assign(first,last)", "range_eq_capacity", V4 v{}; int a[5] = {1, 2, 3, 4, 5}; v.assign(a, a + 4););
    BAD("static_vector::static_vector(first,last)", "range_gt_capacity", int a[5] = {1, 2, 3, 4, 5}; V4 v(a, a + 5); (void)v;);
    GOOD("static_vector::static_vector(first,last)", "range_eq_capacity", int a[5] = {1, 2, 3, 4, 5}; V4 v(a, a + 4); (void)v;);
    BAD("static_vector::static_vector(n,value)", "n_past_capacity", V4 v(5, 7); (void)v;);
    // stack
    BAD("stack<static_vector>::top()", "empty", etl::stack<int, V2> s{}; (void)s.top(););
    BAD("stack<static_vector>::pop()", "empty", etl::stack<int, V2> s{}; s.pop(););
    BAD("stack<static_vector>::push(value)", "full", etl::stack<int, V2> s{}; s.push(1); s.push(2); s.push(3););
    GOOD("stack<static_vector>::push(value)", "one_below_full", etl::stack<int, V2> s{}; s.push(1); s.push(2); (void)s.top(); s.pop(););
    // flat_set over static_vector / static_set
    BAD("flat_set<static_vector>::insert(value)", "full+new_key", FS2 s{}; s.insert(1); s.insert(2); s.insert(3););
    GOOD("flat_set<static_vector>::insert(value)", "full+duplicate", FS2 s{}; s.insert(1); s.insert(2); s.insert(2););
    BAD("flat_set<static_vector>::emplace(args)", "full+new_key", FS2 s{}; s.emplace(1); s.emplace(2); s.emplace(0););
    BAD("flat_set<static_vector>::erase(pos)", "pos_eq_end", FS2 s{}; s.insert(1); s.erase(s.end()););
    GOOD("flat_set<static_vector>::erase(pos)", "pos_begin", FS2 s{}; s.insert(1); s.erase(s.begin()););
    BAD("flat_set<static_vector>::erase(first,last)", "range_reversed", FS2 s{}; s.insert(1); s.insert(2); s.erase(s.end(), s.begin()););
    GOOD("flat_set<static_vector>::erase(first,last)", "whole", FS2 s{}; s.insert(1); s.insert(2); s.erase(s.begin(), s.end()););
    BAD("static_set::erase(pos)", "pos_eq_end", SS2 s{}; s.insert(1); s.erase(s.end()););
    GOOD("static_set::erase(pos)", "pos_begin", SS2 s{}; s.insert(1); s.erase(s.begin()););
    BAD("static_set::erase(first,last)", "range_reversed", SS2 s{}; s.insert(1); s.insert(2); s.erase(s.end(), s.begin()););
    GOOD("static_set::insert(value)", "full+new_key", SS2 s{}; s.insert(1); s.insert(2); s.insert(3););
    BAD("static_set::static_set(first,last)", "range_gt_capacity", int a[3] = {1, 2, 3}; SS2 s(a, a + 3); (void)s;);
    GOOD("static_set::static_set(first,last)", "range_eq_capacity", int a[3] = {1, 2, 3}; SS2 s(a, a + 2); (void)s;);
    // span: remaining forms
    BAD("span::back()", "empty", etl::span<int> s{}; (void)s.back(););
    GOOD("span::back()", "non_empty", int a[3] = {1, 2, 3}; etl::span<int> s{a, 3}; (void)s.back(););
    BAD("span::first<Count>()", "count_past_size", int a[3] = {1, 2, 3}; etl::span<int> s{a, 2}; (void)s.first<3>(););
    GOOD("span::first<Count>()", "count_eq_size", int a[3] = {1, 2, 3}; etl::span<int> s{a, 2}; (void)s.first<2>(););
    BAD("span::last<Count>()", "count_past_size", int a[3] = {1, 2, 3}; etl::span<int> s{a, 2}; (void)s.last<3>(););
    BAD("span::subspan<Offset,Count>()", "offset_past_size", int a[3] = {1, 2, 3}; etl::span<int> s{a, 2}; (void)s.subspan<3>(););
    BAD("span::subspan<Offset,Count>()", "count_past_rest", int a[3] = {1, 2, 3}; etl::span<int> s{a, 2}; (void)s.subspan<1, 2>(););
    GOOD("span::subspan<Offset,Count>()", "count_eq_rest", int a[3] = {1, 2, 3}; etl::span<int> s{a, 2}; (void)s.subspan<1, 1>(););
    BAD("span<T,N>::span(first,count)", "count_lt_extent", int a[3] = {1, 2, 3}; etl::span<int, 3> s{a, 2}; (void)s;);
    GOOD("span<T,N>::span(first,count)", "count_eq_extent", int a[3] = {1, 2, 3}; etl::span<int, 3> s{a, 3}; (void)s;);
    BAD("span<T,N>::span(span<U,dynamic_extent>)", "size_lt_extent", int a[3] = {1, 2, 3}; etl::span<int> d{a, 2}; etl::span<int, 3> s{d}; (void)s;);
    GOOD("span<T,N>::span(span<U,dynamic_extent>)", "size_eq_extent", int a[3] = {1, 2, 3}; etl::span<int> d{a, 3}; etl::span<int, 3> s{d}; (void)s;);
    BAD("span<T,N>::span(range)", "size_lt_extent", V4 const v(2, 7); etl::span<int const, 3> s{v}; (void)s;);
    GOOD("span<T,N>::span(range)", "size_eq_extent", V4 const v(3, 7); etl::span<int const, 3> s{v}; (void)s;);
    // array
#if !defined(MC_FLAVOUR_CHKFAST)
    BAD("array::operator[](idx) const", "index_eq_size", etl::array<int, 3> const a{1, 2, 3}; (void)a[3];);
#endif
    GOOD("array::operator[](idx) const", "index_last", etl::array<int, 3> const a{1, 2, 3}; (void)a[2];);
    BAD("array::front()", "zero_size", etl::array<int, 0> a{}; (void)a.front(););
    BAD("array::back()", "zero_size", etl::array<int, 0> a{}; (void)a.back(););
}

void strings2(Tally& t)
{
    using SV = etl::string_view;
    BAD("basic_inplace_string::front()", "empty", S8 s{}; (void)s.front(););
    BAD("basic_inplace_string::back()", "empty", S8 s{}; (void)s.back(););
    GOOD("basic_inplace_string::back()", "non_empty", S8 s{"a"}; (void)s.back(););
    BAD("basic_inplace_string::operator[](index)", "index_past_size", S8 s{"abc"}; (void)s[4];);
    GOOD("basic_inplace_string::operator[](index)", "index_eq_size", S8 s{"abc"}; (void)s[3];);
    BAD("basic_inplace_string::operator[](index) const", "index_past_size", S8 const s{"abc"}; (void)s[4];);
    GOOD("basic_inplace_string::operator[](index) const", "index_eq_size", S8 const s{"abc"}; (void)s[3];);
    BAD("basic_inplace_string::basic_inplace_string(count,ch)", "count_past_capacity", etl::inplace_string<2> s(3, 'x'); (void)s;);
    GOOD("basic_inplace_string::basic_inplace_string(count,ch)", "count_eq_capacity", etl::inplace_string<2> s(2, 'x'); (void)s;);
    BAD("basic_inplace_string::basic_inplace_string(cstr)", "length_gt_capacity", etl::inplace_string<2> s{"abc"}; (void)s;);
    GOOD("basic_inplace_string::basic_inplace_string(cstr)", "length_eq_capacity", etl::inplace_string<2> s{"ab"}; (void)s;);
    BAD("basic_inplace_string::basic_inplace_string(sv)", "length_gt_capacity", etl::inplace_string<2> s{SV{"abc"}}; (void)s;);
    BAD("basic_inplace_string::assign(count,ch)", "count_past_capacity", etl::inplace_string<2> s{}; s.assign(3, 'x'););
    GOOD("basic_inplace_string::assign(count,ch)", "count_eq_capacity", etl::inplace_string<2> s{}; s.assign(2, 'x'););
    BAD("basic_inplace_string::assign(ptr,count)", "count_past_capacity", etl::inplace_string<2> s{}; s.assign("abc", 3););
    GOOD("basic_inplace_string::assign(ptr,count)", "count_eq_capacity", etl::inplace_string<2> s{}; s.assign("abc", 2););
    BAD("basic_inplace_string::assign(cstr)", "length_gt_capacity", etl::inplace_string<2> s{}; s.assign("abc"););
    BAD("basic_inplace_string::operator=(cstr)", "length_gt_capacity", etl::inplace_string<2> s{}; s = "abc";);
    GOOD("basic_inplace_string::operator=(cstr)", "length_eq_capacity", etl::inplace_string<2> s{}; s = "ab";);
    BAD("basic_inplace_string::assign(sv)", "length_gt_capacity", etl::inplace_string<2> s{}; s.assign(SV{"abc"}););
    BAD("basic_inplace_string::assign(sv,pos,count)", "pos_past_size", S8 s{}; s.assign(SV{"ab"}, 3, 0););
    GOOD("basic_inplace_string::assign(sv,pos,count)", "pos_eq_size", S8 s{}; s.assign(SV{"ab"}, 2, 0););
    BAD("basic_inplace_string::append(sv,pos,count)", "pos_past_size", S8 s{"a"}; s.append(SV{"ab"}, 3, 0););
    GOOD("basic_inplace_string::append(sv,pos,count)", "pos_eq_size", S8 s{"a"}; s.append(SV{"ab"}, 2, 0););
    BAD("basic_inplace_string::insert(index,sv)", "index_past_size", S8 s{"abc"}; s.insert(4, SV{"x"}););
    GOOD("basic_inplace_string::insert(index,sv)", "index_eq_size", S8 s{"abc"}; s.insert(3, SV{"x"}););
    BAD("basic_inplace_string::insert(index,sv,index_str,count)", "index_str_past_size", S8 s{"abc"}; s.insert(0, SV{"x"}, 2, 0););
    GOOD("basic_inplace_string::insert(index,sv,index_str,count)", "index_str_eq_size", S8 s{"abc"}; s.insert(0, SV{"x"}, 1, 0););
    BAD("basic_inplace_string::compare(pos,count,str)", "pos_past_size", S8 const s{"abc"}; S8 const o{"x"}; (void)s.compare(4, 1, o););
    GOOD("basic_inplace_string::compare(pos,count,str)", "pos_eq_size", S8 const s{"abc"}; S8 const o{"x"}; (void)s.compare(3, 1, o););
    BAD("basic_inplace_string::compare(pos1,count1,str,pos2,count2)", "pos2_past_size", S8 const s{"abc"}; S8 const o{"x"}; (void)s.compare(0, 1, o, 2, 0););
    BAD("basic_inplace_string::compare(pos,count,cstr)", "pos_past_size", S8 const s{"abc"}; (void)s.compare(4, 1, "x"););
    BAD("basic_inplace_string::compare(pos1,count1,ptr,count2)", "pos_past_size", S8 const s{"abc"}; (void)s.compare(4, 1, "xy", 1););
    BAD("basic_inplace_string::compare(pos1,count1,sv)", "pos_past_size", S8 const s{"abc"}; (void)s.compare(4, 1, SV{"x"}););
    GOOD("basic_inplace_string::compare(pos1,count1,sv)", "pos_eq_size", S8 const s{"abc"}; (void)s.compare(3, 1, SV{"x"}););
    BAD("basic_inplace_string::compare(pos1,count1,sv,pos2,count2)", "pos2_past_size", S8 const s{"abc"}; (void)s.compare(0, 1, SV{"x"}, 2, 0););
    BAD("basic_inplace_string::replace(pos,count,cstr)", "pos_past_size", S20 s{"abc"}; s.replace(4, 0, "XY"););
    GOOD("basic_inplace_string::replace(pos,count,cstr)", "pos_eq_size", S20 s{"abc"}; s.replace(3, 0, "XY"););
    BAD("basic_inplace_string::replace(first,last,cstr)", "last_past_end", S20 s{"abc"}; s.replace(s.begin() + 1, s.begin() + 6, "XY"););
    GOOD("basic_inplace_string::replace(first,last,cstr)", "inside", S20 s{"abcdef"}; s.replace(s.begin() + 1, s.begin() + 3, "XY"););
    // string_view: remaining members
    BAD("basic_string_view::back()", "empty", SV v{}; (void)v.back(););
    GOOD("basic_string_view::back()", "non_empty", SV v{"a"}; (void)v.back(););
    BAD("basic_string_view::copy(dest,count,pos)", "pos_past_size", char const a[] = "abcdef"; SV v{a, 3}; char d[4] = {}; (void)v.copy(d, 1, 4););
    GOOD("basic_string_view::copy(dest,count,pos)", "pos_eq_size", char const a[] = "abcdef"; SV v{a, 3}; char d[4] = {}; (void)v.copy(d, 1, 3););
    BAD("basic_string_view::compare(pos1,count1,sv)", "pos_past_size", char const a[] = "abcdef"; SV v{a, 3}; (void)v.compare(4, 1, SV{"x"}););
    GOOD("basic_string_view::compare(pos1,count1,sv)", "pos_eq_size", char const a[] = "abcdef"; SV v{a, 3}; (void)v.compare(3, 1, SV{"x"}););
    BAD("basic_string_view::compare(pos1,count1,sv,pos2,count2)", "pos2_past_size", char const a[] = "abcdef"; char const b[] = "xyz"; SV v{a, 3}; (void)v.compare(0, 1, SV{b, 1}, 2, 1););
    BAD("basic_string_view::compare(pos1,count1,cstr)", "pos_past_size", char const a[] = "abcdef"; SV v{a, 3}; (void)v.compare(4, 1, "x"););
    BAD("basic_string_view::compare(pos1,count1,ptr,count2)", "pos_past_size", char const a[] = "abcdef"; SV v{a, 3}; (void)v.compare(4, 1, "xy", 1););
    BAD("basic_string_view::substr(pos,count)", "pos_past_size/inside_array", char const a[] = "abcdef"; SV v{a, 3}; (void)v.substr(4, 1););
    GOOD("basic_string_view::substr(pos,count)", "pos_eq_size/inside_array", char const a[] = "abcdef"; SV v{a, 3}; (void)v.substr(3, 1););
    BAD("basic_string_view::remove_prefix(n)", "n_past_size/inside_array", char const a[] = "abcdef"; SV v{a, 3}; v.remove_prefix(4););
    BAD("basic_string_view::remove_suffix(n)", "n_past_size/inside_array", char const a[] = "abcdef"; SV v{a + 2, 3}; v.remove_suffix(4););
    BAD("basic_string_view::operator[](pos)", "pos_eq_size/inside_array", char const a[] = "abcdef"; SV v{a, 3}; (void)v[3];);
    BAD("basic_string_view::front()", "empty/inside_array", char const a[] = "abcdef"; SV v{a, 0}; (void)v.front(););
    BAD("basic_string_view::back()", "empty/inside_array", char const a[] = "abcdef"; SV v{a + 2, 0}; (void)v.back(););
    BAD("basic_string_view::operator[](pos)", "pos_eq_size/wide", etl::wstring_view v{L"abc"}; (void)v[3];);
    GOOD("basic_string_view::operator[](pos)", "pos_last/wide", etl::wstring_view v{L"abc"}; (void)v[2];);
    BAD("basic_inplace_string::insert(index,count,ch)", "index_past_size/char16_t", etl::basic_inplace_string<char16_t, 8> s{u"abc"}; s.insert(4, 1, u'x'););
    GOOD("basic_inplace_string::insert(index,count,ch)", "index_eq_size/char16_t", etl::basic_inplace_string<char16_t, 8> s{u"abc"}; s.insert(3, 1, u'x'););
}

void others2(Tally& t)
{
    BAD("optional::operator*() const&", "empty", etl::optional<int> const o{}; (void)*o;);
    GOOD("optional::operator*() const&", "engaged", etl::optional<int> const o{1}; (void)*o;);
    BAD("optional::operator*() &&", "empty", etl::optional<int> o{}; (void)*static_cast<etl::optional<int>&&>(o););
    BAD("optional::operator*() const&&", "empty", etl::optional<int> const o{}; (void)*static_cast<etl::optional<int> const&&>(o););
    BAD("optional::operator*()", "empty_after_reset", etl::optional<int> o{1}; o.reset(); (void)*o;);
    GOOD("optional::operator->()", "empty", etl::optional<int> o{}; (void)o.operator->(););
    GOOD("optional::value_or(default)", "empty", etl::optional<int> o{}; (void)o.value_or(3););
    BAD("optional<T&>::operator*()", "empty", etl::optional<int&> o{}; (void)*o;);
    GOOD("optional<T&>::operator*()", "bound", int x = 1; etl::optional<int&> o{x}; (void)*o;);
    BAD("expected::operator*() &", "holds_error", etl::expected<int, char> e{etl::unexpect, 'x'}; (void)*e;);
    GOOD("expected::operator*() &", "holds_value", etl::expected<int, char> e{etl::in_place, 1}; (void)*e;);
    BAD("expected::operator*() const&", "holds_error", etl::expected<int, char> const e{etl::unexpect, 'x'}; (void)*e;);
    BAD("expected::error() &", "holds_value", etl::expected<int, char> e{etl::in_place, 1}; (void)e.error(););
    GOOD("expected::error() &", "holds_error", etl::expected<int, char> e{etl::unexpect, 'x'}; (void)e.error(););
    BAD("expected::error() const&", "holds_value", etl::expected<int, char> const e{etl::in_place, 1}; (void)e.error(););
    GOOD("expected::operator->()", "holds_error", etl::expected<int, char> e{etl::unexpect, 'x'}; (void)e.operator->(););
    BAD("variant::operator[](index_v<I>) const&", "wrong_alternative", etl::variant<int, float> const v{1}; (void)v[etl::index_v<1>];);
    BAD("variant::operator[](index_v<I>)", "index_lt_active", etl::variant<int, float> v{1.0F}; (void)v[etl::index_v<0>];);
    BAD("unchecked_get<I>(variant&)", "wrong_alternative", etl::variant<int, float> v{1}; (void)etl::unchecked_get<1>(v););
    GOOD("unchecked_get<I>(variant&)", "active_alternative", etl::variant<int, float> v{1}; (void)etl::unchecked_get<0>(v););
    BAD("unchecked_get<I>(variant const&)", "wrong_alternative", etl::variant<int, float> const v{1}; (void)etl::unchecked_get<1>(v););
    GOOD("get_if<I>(variant*)", "wrong_alternative", etl::variant<int, float> v{1}; (void)etl::get_if<1>(&v););
    GOOD("get_if<T>(variant const*)", "wrong_alternative", etl::variant<int, float> const v{1}; (void)etl::get_if<float>(&v););
    // bitset / basic_bitset
    BAD("bitset::operator[](pos)", "pos_eq_size", etl::bitset<8> b{}; b[8] = true;);
    GOOD("bitset::operator[](pos)", "pos_last", etl::bitset<8> b{}; b[7] = true;);
    BAD("bitset::operator[](pos) const", "pos_eq_size", etl::bitset<8> const b{}; (void)b[8];);
    GOOD("bitset::operator[](pos) const", "pos_last", etl::bitset<8> const b{}; (void)b[7];);
    BAD("bitset::set(pos,value)", "pos_past_size/multiword", etl::bitset<65> b{}; b.set(66, false););
    GOOD("bitset::set(pos,value)", "pos_last/multiword", etl::bitset<65> b{}; b.set(64, false););
    BAD("bitset::bitset(string_view,pos,n)", "length_gt_bits", etl::bitset<2> b{etl::string_view{"010"}}; (void)b;);
    GOOD("bitset::bitset(string_view,pos,n)", "length_eq_bits", etl::bitset<2> b{etl::string_view{"01"}}; (void)b;);
    BAD("bitset::bitset(cstr,n)", "length_gt_bits", etl::bitset<2> b{"010"}; (void)b;);
    GOOD("bitset::bitset(cstr,n)", "length_eq_bits", etl::bitset<2> b{"01"}; (void)b;);
    BAD("basic_bitset::unchecked_set(pos,value)", "pos_eq_size", etl::basic_bitset<9, etl::uint8_t> b{}; b.unchecked_set(9););
    GOOD("basic_bitset::unchecked_set(pos,value)", "pos_last", etl::basic_bitset<9, etl::uint8_t> b{}; b.unchecked_set(8););
    BAD("basic_bitset::unchecked_test(pos)", "pos_eq_size", etl::basic_bitset<9, etl::uint8_t> b{}; (void)b.unchecked_test(9););
    BAD("basic_bitset::unchecked_reset(pos)", "pos_eq_size", etl::basic_bitset<9, etl::uint8_t> b{}; b.unchecked_reset(9););
    BAD("basic_bitset::unchecked_flip(pos)", "pos_eq_size", etl::basic_bitset<9, etl::uint8_t> b{}; b.unchecked_flip(9););
    BAD("basic_bitset::operator[](pos)", "pos_eq_size", etl::basic_bitset<9, etl::uint8_t> b{}; b[9] = true;);
    GOOD("basic_bitset::operator[](pos)", "pos_last", etl::basic_bitset<9, etl::uint8_t> b{}; b[8] = true;);
    // bit helpers, remaining overload / word types
    BAD("set_bit(word,pos,value)", "pos_eq_digits", (void)etl::set_bit(etl::uint8_t(0), etl::uint8_t(8), true););
    GOOD("set_bit(word,pos,value)", "pos_last", (void)etl::set_bit(etl::uint8_t(0), etl::uint8_t(7), true););
    BAD("set_bit(word,pos)", "pos_eq_digits/u64", (void)etl::set_bit(etl::uint64_t(0), etl::uint64_t(64)););
    GOOD("set_bit(word,pos)", "pos_last/u64", (void)etl::set_bit(etl::uint64_t(0), etl::uint64_t(63)););
    BAD("test_bit(word,pos)", "pos_huge/u64", (void)etl::test_bit(etl::uint64_t(0), etl::uint64_t(1) << 32););
    GOOD("test_bit(word,pos)", "pos_last", (void)etl::test_bit(etl::uint16_t(0), etl::uint16_t(15)););
    GOOD("flip_bit(word,pos)", "pos_last", (void)etl::flip_bit(etl::uint32_t(0), etl::uint32_t(31)););
    GOOD("reset_bit(word,pos)", "pos_last", (void)etl::reset_bit(etl::uint8_t(0), etl::uint8_t(7)););
    // div_sat for the other corners
    BAD("div_sat(x,y)", "zero_divisor/unsigned", (void)etl::div_sat(1U, 0U););
    BAD("div_sat(x,y)", "zero_divisor/min", (void)etl::div_sat(etl::numeric_limits<long long>::min(), 0LL););
    GOOD("div_sat(x,y)", "min_by_minus_one", (void)etl::div_sat(etl::numeric_limits<int>::min(), -1););
    GOOD("chrono::month::month(unsigned)", "value_255", etl::chrono::month m{255}; (void)m;);
    // mdspan mappings
    BAD("layout_right::mapping::stride(r)", "rank_index_eq_rank", etl::layout_right::mapping<etl::extents<int, 2, 3>> m{}; (void)m.stride(2););
    GOOD("layout_right::mapping::stride(r)", "rank_index_last", etl::layout_right::mapping<etl::extents<int, 2, 3>> m{}; (void)m.stride(1););
    BAD("layout_left::mapping::stride(r)", "rank_index_eq_rank", etl::layout_left::mapping<etl::extents<int, 2, 3>> m{}; (void)m.stride(2););
    GOOD("layout_left::mapping::stride(r)", "rank_index_last", etl::layout_left::mapping<etl::extents<int, 2, 3>> m{}; (void)m.stride(1););
}

// [mdspan.mdspan.members] / [charconv]: an out-of-range index that still maps inside the buffer, an invalid base
void mdspan_and_charconv(Tally& t)
{
    BAD("mdspan::operator()(indices...)", "index_eq_extent", int a[6] = {}; M23 m{a}; (void)m(0, 3););
    BAD("mdspan::operator()(indices...)", "index_negative", int a[6] = {}; M23 m{a}; (void)m(1, -1););
    GOOD("mdspan::operator()(indices...)", "corner", int a[6] = {}; M23 m{a}; (void)m(1, 2););
    BAD("mdspan::operator()(indices...)", "index_eq_extent/layout_left", int a[6] = {}; M23L m{a}; (void)m(2, 0););
    GOOD("mdspan::operator()(indices...)", "corner/layout_left", int a[6] = {}; M23L m{a}; (void)m(1, 2););
    BAD("mdspan::operator()(indices...)", "index_eq_extent/dextents", int a[6] = {}; MD2 m{a, 2, 3}; (void)m(0, 3););
    GOOD("mdspan::operator()(indices...)", "corner/dextents", int a[6] = {}; MD2 m{a, 2, 3}; (void)m(1, 2););
    BAD("mdspan::operator[](array<OtherIndexType,rank> const&)", "index_eq_extent", int a[6] = {}; M23 m{a}; (void)m[etl::array<int, 2>{0, 3}];);
    GOOD("mdspan::operator[](array<OtherIndexType,rank> const&)", "corner", int a[6] = {}; M23 m{a}; (void)m[etl::array<int, 2>{1, 2}];);
    BAD("mdspan::operator[](span<OtherIndexType,rank>)", "index_eq_extent", int a[6] = {}; M23 m{a}; etl::array<int, 2> i{0, 3}; (void)m[etl::span<int, 2>{i}];);
    GOOD("mdspan::operator[](span<OtherIndexType,rank>)", "corner", int a[6] = {}; M23 m{a}; etl::array<int, 2> i{1, 2}; (void)m[etl::span<int, 2>{i}];);
    BAD("from_chars(first,last,value,base)", "base_gt_36", char const s[] = "10"; int v = 0; (void)etl::from_chars(s, s + 2, v, 37););
    BAD("from_chars(first,last,value,base)", "base_1", char const s[] = "10"; int v = 0; (void)etl::from_chars(s, s + 2, v, 1););
    GOOD("from_chars(first,last,value,base)", "base_36", char const s[] = "10"; int v = 0; (void)etl::from_chars(s, s + 2, v, 36););
    GOOD("from_chars(first,last,value,base)", "base_2", char const s[] = "10"; int v = 0; (void)etl::from_chars(s, s + 2, v, 2););
    BAD("to_chars(first,last,value,base)", "base_gt_36", char b[40] = {}; (void)etl::to_chars(b, b + 40, 5, 37););
    BAD("to_chars(first,last,value,base)", "base_1", char b[40] = {}; (void)etl::to_chars(b, b + 40, 0, 1););
    GOOD("to_chars(first,last,value,base)", "base_36", char b[40] = {}; (void)etl::to_chars(b, b + 40, 5, 36););
    GOOD("to_chars(first,last,value,base)", "base_2", char b[40] = {}; (void)etl::to_chars(b, b + 40, 5, 2););
}

} // namespace

int main(int argc, char** argv)
{
    mc::Main m(argc, argv);
    m.job("constant-evaluation/contract-checks", {"quick", "thorough"}, [](mc::Reporter& r) {
        Tally t{r};
        strings(t);
        containers(t);
        others(t);
        containers2(t);
        strings2(t);
        others2(t);
        mdspan_and_charconv(t);
        r.count("evaluations", t.rows);
        r.count("distinct_nontrivial", t.bad);
        r.count("violating_calls", t.bad);
        r.count("valid_controls", t.rows - t.bad);
#if !defined(MC_FLAVOUR_CHK)
        r.note("contract checks are off in this flavour: rows counted, nothing decided");
#endif
    });
    return m.run();
}
