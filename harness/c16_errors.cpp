// C16, domain errors and poles (C Annex F.10): the result must be NaN / +inf / -inf / the fixed value exactly where
// Annex F says so, on BOTH paths of every function:
//   * run time: etl::f(volatile argument) for float, double, long double;
//   * constant evaluation: etl::f(literal argument) inside a constant expression.  Whether such a call IS a constant
//     expression is probed first (SFINAE on a non-type template argument): g++ refuses to fold an operation that
//     raises "invalid"/"overflow", so a library that computes 0/0 or inf-inf instead of returning a NaN constant makes
//     the call ill-formed in a constant expression.  Such cases are not violations (the prompt allows a documented
//     constant-evaluation failure for a domain error); they are listed in a note and counted (not_constant_expression).
// Every expectation is cross-checked against glibc at run time; a case where glibc disagrees with the table is
// dropped with a "harness:" note instead of being judged.
// Subjects: the function that implements the path - etl::f for the float/double run-time entry point (compiler
// builtin), gcem::f for constant evaluation and for long double (named as in c16_approx.cpp so that a root cause that
// is already a known finding for float/double is recognised), "etl::f (constant evaluation)" for the exact set.
#include "c16_common.hpp"

#include <etl/cmath.hpp>

using namespace c16;
using mc::cat;
using LD = long double;

namespace {

template <typename T>
char const* tname()
{
    if constexpr (std::is_same_v<T, float>) { return "float"; }
    if constexpr (std::is_same_v<T, double>) { return "double"; }
    return "long double";
}
std::string shw(LD v)
{
    char b[64];
    std::snprintf(b, sizeof b, "%Lg", v);
    return b;
}

// is F{}() a constant expression?
template <typename F, int = (static_cast<void>(F{}()), 0)>
constexpr bool is_cx(F)
{
    return true;
}
constexpr bool is_cx(...) { return false; }

enum class Ex { nan, pinf, ninf, val };
struct Expect {
    Ex kind;
    LD value{0};
};
constexpr Expect E_nan{Ex::nan}, E_pinf{Ex::pinf}, E_ninf{Ex::ninf};
constexpr Expect E_val(LD v) { return {Ex::val, v}; }

bool matches(LD got, Expect e, LD tol)
{
    switch (e.kind) {
    case Ex::nan: return got != got;
    case Ex::pinf: return std::isinf(got) && got > 0;
    case Ex::ninf: return std::isinf(got) && got < 0;
    case Ex::val:
        if (got != got || std::isinf(got)) { return false; }
        if (e.value == 0) { return std::fabs(got) <= tol; } // exact family: tol = 0; approximating: absolute 2^-10
        return std::fabs(got - e.value) <= tol * std::fabs(e.value);
    }
    return false;
}
std::string show_expect(Expect e)
{
    switch (e.kind) {
    case Ex::nan: return "NaN";
    case Ex::pinf: return "+inf";
    case Ex::ninf: return "-inf";
    case Ex::val: return shw(e.value);
    }
    return "?";
}

struct Ctx {
    mc::Reporter& r;
    u64 evals{0}, nontrivial{0}, not_cx{0}, dropped{0};
    std::string not_cx_list;
};

enum class Fam { approx, exact };

/// one case; `cx` = the constant-evaluated result (valid if has_cx), rt = the run-time result, lm = glibc
template <typename T>
void judge_case(Ctx& c, Fam fam, char const* name, std::string const& args, std::string const& cls_args, Expect e, bool has_cx, LD cx, LD rt, LD lm)
{
    LD const tol = fam == Fam::exact ? 0 : 0x1p-10L;
    if (!matches(lm, e, tol)) {
        ++c.dropped;
        c.r.note(cat("harness: ", name, "(", args, ") ", tname<T>(), ": table says ", show_expect(e), ", glibc returns ", shw(lm), " - case dropped"));
        return;
    }
    std::string const suffix = e.kind == Ex::nan ? ":libm_nan" : (e.kind == Ex::val ? "" : ":libm_inf");
    std::string const cls    = cat(cls_args, fam == Fam::approx ? suffix : "");
    constexpr bool is_ld     = std::is_same_v<T, LD>;
    // run time
    {
        std::string const subject = fam == Fam::exact ? cat("etl::", name) : (is_ld ? cat("gcem::", name) : cat("etl::", name));
        if (c.r.want(subject)) {
            ++c.evals;
            ++c.nontrivial;
            if (!matches(rt, e, tol)) {
                c.r.violation("C16", subject, cls, cat("etl::", name, "(", tname<T>(), " ", args, ") at run time"), cat("tetl=", shw(rt), " Annex F / libm: ", show_expect(e)));
            }
        }
    }
    // constant evaluation
    {
        std::string const subject = fam == Fam::exact ? cat("etl::", name, " (constant evaluation)") : cat("gcem::", name);
        if (c.r.want(subject)) {
            if (!has_cx) {
                ++c.not_cx;
                c.not_cx_list += cat(c.not_cx_list.empty() ? "" : ", ", name, "(", tname<T>(), " ", args, ")");
            } else {
                ++c.evals;
                ++c.nontrivial;
                if (!matches(cx, e, tol)) {
                    c.r.violation("C16", subject, cls, cat("constexpr etl::", name, "(", tname<T>(), " ", args, ")"), cat("constant-evaluated ", shw(cx), " Annex F / libm: ", show_expect(e)));
                }
            }
        }
    }
    c.r.outcome(mc::hash_str(cat(name, args, tname<T>())));
}

template <typename T>
T launder(T v)
{
    volatile T x = v;
    return x;
}

#define INF std::numeric_limits<T>::infinity()
#define QNAN std::numeric_limits<T>::quiet_NaN()

// unary, approximating family: class = the approximating-argument class of c16_approx.cpp
#define C16_E1(N, ARG, EXPECT)                                                                                                      \
    {                                                                                                                              \
        auto lam           = [] { return etl::N(static_cast<T>(ARG)); };                                                            \
        constexpr bool has = is_cx(lam);                                                                                           \
        LD cxv             = 0;                                                                                                    \
        if constexpr (has) {                                                                                                       \
            constexpr T v = lam();                                                                                                 \
            cxv           = v;                                                                                                     \
        }                                                                                                                          \
        T const x = launder(static_cast<T>(ARG));                                                                                  \
        judge_case<T>(c, Fam::approx, #N, #ARG, approx_class_name(region_id(static_cast<double>(x))), EXPECT, has, cxv, etl::N(x), std::N(x)); \
    }
// binary, approximating family: class = coarse(x),coarse(y)+magnitude tag
#define C16_E2(N, A, B, EXPECT)                                                                                                     \
    {                                                                                                                              \
        auto lam           = [] { return etl::N(static_cast<T>(A), static_cast<T>(B)); };                                           \
        constexpr bool has = is_cx(lam);                                                                                           \
        LD cxv             = 0;                                                                                                    \
        if constexpr (has) {                                                                                                       \
            constexpr T v = lam();                                                                                                 \
            cxv           = v;                                                                                                     \
        }                                                                                                                          \
        T const x = launder(static_cast<T>(A)), y = launder(static_cast<T>(B));                                                    \
        double const dx = static_cast<double>(x), dy = static_cast<double>(y);                                                     \
        judge_case<T>(c, Fam::approx, #N, #A ", " #B, cat(coarse(dx), ",", coarse(dy), pair_magnitude(dx, dy)), EXPECT, has, cxv, etl::N(x, y), std::N(x, y)); \
    }
// binary, exact family: class as in c16_binary.cpp
#define C16_X2(N, A, B, REL, EXPECT)                                                                                                \
    {                                                                                                                              \
        auto lam           = [] { return etl::N(static_cast<T>(A), static_cast<T>(B)); };                                           \
        constexpr bool has = is_cx(lam);                                                                                           \
        LD cxv             = 0;                                                                                                    \
        if constexpr (has) {                                                                                                       \
            constexpr T v = lam();                                                                                                 \
            cxv           = v;                                                                                                     \
        }                                                                                                                          \
        T const x = launder(static_cast<T>(A)), y = launder(static_cast<T>(B));                                                    \
        judge_case<T>(c, Fam::exact, #N, #A ", " #B, bin_class(static_cast<double>(x), static_cast<double>(y), REL), EXPECT, has, cxv, etl::N(x, y), std::N(x, y)); \
    }

constexpr LD kPi = 3.14159265358979323846264338327950288L;

template <typename T>
void logs(Ctx& c)
{
    C16_E1(log, 0.0, E_ninf)
    C16_E1(log, -0.0, E_ninf)
    C16_E1(log, -1.0, E_nan)
    C16_E1(log, -INF, E_nan)
    C16_E1(log, INF, E_pinf)
    C16_E1(log, QNAN, E_nan)
    C16_E1(log, 1.0, E_val(0))
    C16_E1(log2, 0.0, E_ninf)
    C16_E1(log2, -0.0, E_ninf)
    C16_E1(log2, -1.0, E_nan)
    C16_E1(log2, -INF, E_nan)
    C16_E1(log2, INF, E_pinf)
    C16_E1(log2, 1.0, E_val(0))
    C16_E1(log10, 0.0, E_ninf)
    C16_E1(log10, -0.0, E_ninf)
    C16_E1(log10, -1.0, E_nan)
    C16_E1(log10, -INF, E_nan)
    C16_E1(log10, INF, E_pinf)
    C16_E1(log10, 1.0, E_val(0))
    C16_E1(log1p, -1.0, E_ninf)
    C16_E1(log1p, -2.0, E_nan)
    C16_E1(log1p, -INF, E_nan)
    C16_E1(log1p, INF, E_pinf)
    C16_E1(log1p, 0.0, E_val(0))
    C16_E1(sqrt, -1.0, E_nan)
    C16_E1(sqrt, -INF, E_nan)
    C16_E1(sqrt, INF, E_pinf)
    C16_E1(sqrt, QNAN, E_nan)
    C16_E1(sqrt, 0.0, E_val(0))
    C16_E1(sqrt, -0.0, E_val(0))
    C16_E1(exp, INF, E_pinf)
    C16_E1(exp, -INF, E_val(0))
    C16_E1(exp, QNAN, E_nan)
    C16_E1(exp, 0.0, E_val(1))
}
template <typename T>
void trig(Ctx& c)
{
    C16_E1(sin, INF, E_nan)
    C16_E1(sin, -INF, E_nan)
    C16_E1(cos, INF, E_nan)
    C16_E1(cos, -INF, E_nan)
    C16_E1(tan, INF, E_nan)
    C16_E1(tan, -INF, E_nan)
    C16_E1(sin, QNAN, E_nan)
    C16_E1(cos, 0.0, E_val(1))
    C16_E1(asin, 2.0, E_nan)
    C16_E1(asin, -1.5, E_nan)
    C16_E1(asin, INF, E_nan)
    C16_E1(acos, 2.0, E_nan)
    C16_E1(acos, -2.0, E_nan)
    C16_E1(acos, INF, E_nan)
    C16_E1(acos, 1.0, E_val(0))
    C16_E1(atan, INF, E_val(kPi / 2))
    C16_E1(atan, -INF, E_val(-kPi / 2))
    C16_E1(atan, QNAN, E_nan)
}
template <typename T>
void hyper(Ctx& c)
{
    C16_E1(sinh, INF, E_pinf)
    C16_E1(sinh, -INF, E_ninf)
    C16_E1(cosh, INF, E_pinf)
    C16_E1(cosh, -INF, E_pinf)
    C16_E1(tanh, INF, E_val(1))
    C16_E1(tanh, -INF, E_val(-1))
    C16_E1(asinh, INF, E_pinf)
    C16_E1(asinh, -INF, E_ninf)
    C16_E1(acosh, 0.5, E_nan)
    C16_E1(acosh, -1.0, E_nan)
    C16_E1(acosh, -INF, E_nan)
    C16_E1(acosh, INF, E_pinf)
    C16_E1(acosh, 1.0, E_val(0))
    C16_E1(atanh, 1.0, E_pinf)
    C16_E1(atanh, -1.0, E_ninf)
    C16_E1(atanh, 2.0, E_nan)
    C16_E1(atanh, -2.0, E_nan)
    C16_E1(atanh, INF, E_nan)
    C16_E1(erf, INF, E_val(1))
    C16_E1(erf, -INF, E_val(-1))
    C16_E1(erf, QNAN, E_nan)
}
template <typename T>
void gammas(Ctx& c)
{
    C16_E1(tgamma, 0.0, E_pinf)
    C16_E1(tgamma, -0.0, E_ninf)
    C16_E1(tgamma, -1.0, E_nan)
    C16_E1(tgamma, -2.0, E_nan)
    C16_E1(tgamma, INF, E_pinf)
    C16_E1(tgamma, QNAN, E_nan)
    C16_E1(tgamma, 1.0, E_val(1))
    // tgamma(-inf) = NaN: gcem::tgamma recurses without end (known finding of C02); not asked here
    C16_E1(lgamma, 0.0, E_pinf)
    C16_E1(lgamma, -0.0, E_pinf)
    C16_E1(lgamma, -1.0, E_pinf)
    C16_E1(lgamma, -2.0, E_pinf)
    C16_E1(lgamma, INF, E_pinf)
    C16_E1(lgamma, -INF, E_pinf)
    C16_E1(lgamma, 1.0, E_val(0))
    C16_E1(lgamma, 2.0, E_val(0))
}
template <typename T>
void pows(Ctx& c)
{
    C16_E2(pow, 0.0, -1.0, E_pinf)
    C16_E2(pow, -0.0, -1.0, E_ninf)
    C16_E2(pow, 0.0, -2.0, E_pinf)
    C16_E2(pow, -0.0, -2.0, E_pinf)
    C16_E2(pow, 0.0, -INF, E_pinf)
    C16_E2(pow, -1.0, 0.5, E_nan)
    C16_E2(pow, -8.0, 0.25, E_nan)
    C16_E2(pow, 1.0, QNAN, E_val(1))
    C16_E2(pow, QNAN, 0.0, E_val(1))
    C16_E2(pow, -1.0, INF, E_val(1))
    C16_E2(pow, -1.0, -INF, E_val(1))
    C16_E2(pow, 0.5, INF, E_val(0))
    C16_E2(pow, 0.5, -INF, E_pinf)
    C16_E2(pow, 2.0, INF, E_pinf)
    C16_E2(pow, 2.0, -INF, E_val(0))
    C16_E2(pow, -INF, 3.0, E_ninf)
    C16_E2(pow, -INF, 2.0, E_pinf)
    C16_E2(pow, INF, -1.0, E_val(0))
    C16_E2(pow, -2.0, 3.0, E_val(-8))
    C16_E2(pow, 2.0, 10.0, E_val(1024))
    C16_E2(atan2, 0.0, 0.0, E_val(0))
    C16_E2(atan2, 0.0, -0.0, E_val(kPi))
    C16_E2(atan2, -0.0, -0.0, E_val(-kPi))
    C16_E2(atan2, 0.0, -1.0, E_val(kPi))
    C16_E2(atan2, -0.0, -1.0, E_val(-kPi))
    C16_E2(atan2, 1.0, 0.0, E_val(kPi / 2))
    C16_E2(atan2, -1.0, 0.0, E_val(-kPi / 2))
    C16_E2(atan2, 1.0, -INF, E_val(kPi))
    C16_E2(atan2, 1.0, INF, E_val(0))
    C16_E2(atan2, INF, 1.0, E_val(kPi / 2))
    C16_E2(atan2, INF, INF, E_val(kPi / 4))
    C16_E2(atan2, INF, -INF, E_val(3 * kPi / 4))
    C16_E2(atan2, QNAN, 1.0, E_nan)
    C16_E2(hypot, INF, QNAN, E_pinf)
    C16_E2(hypot, QNAN, -INF, E_pinf)
    C16_E2(hypot, QNAN, 1.0, E_nan)
    C16_E2(hypot, 3.0, -4.0, E_val(5))
}
template <typename T>
void exacts(Ctx& c)
{
    C16_X2(fmod, 1.0, 0.0, Rel::quotient, E_nan)
    C16_X2(fmod, 1.0, -0.0, Rel::quotient, E_nan)
    C16_X2(fmod, INF, 1.0, Rel::quotient, E_nan)
    C16_X2(fmod, -INF, 2.0, Rel::quotient, E_nan)
    C16_X2(fmod, INF, 0.0, Rel::quotient, E_nan)
    C16_X2(fmod, 1.5, INF, Rel::quotient, E_val(1.5))
    C16_X2(fmod, -1.5, -INF, Rel::quotient, E_val(-1.5))
    C16_X2(fmod, QNAN, 1.0, Rel::quotient, E_nan)
    C16_X2(fmod, 1.0, QNAN, Rel::quotient, E_nan)
    C16_X2(fmod, 5.5, 2.0, Rel::quotient, E_val(1.5))
    C16_X2(remainder, INF, 1.0, Rel::quotient, E_nan)
    C16_X2(remainder, -INF, 1.0, Rel::quotient, E_nan)
    C16_X2(remainder, 1.0, 0.0, Rel::quotient, E_nan)
    C16_X2(remainder, 1.0, -0.0, Rel::quotient, E_nan)
    C16_X2(remainder, INF, 0.0, Rel::quotient, E_nan)
    C16_X2(remainder, 1.5, INF, Rel::quotient, E_val(1.5))
    C16_X2(remainder, QNAN, 1.0, Rel::quotient, E_nan)
    C16_X2(remainder, 1.0, QNAN, Rel::quotient, E_nan)
    C16_X2(remainder, 5.5, 2.0, Rel::quotient, E_val(-0.5))
    C16_X2(fdim, QNAN, 1.0, Rel::order, E_nan)
    C16_X2(fdim, 1.0, QNAN, Rel::order, E_nan)
    C16_X2(fdim, INF, INF, Rel::order, E_val(0))
    C16_X2(fdim, INF, -INF, Rel::order, E_pinf)
    C16_X2(fdim, -INF, INF, Rel::order, E_val(0))
    C16_X2(fmin, QNAN, 1.0, Rel::order, E_val(1))
    C16_X2(fmin, 1.0, QNAN, Rel::order, E_val(1))
    C16_X2(fmin, QNAN, QNAN, Rel::order, E_nan)
    C16_X2(fmin, -INF, QNAN, Rel::order, E_ninf)
    C16_X2(fmax, QNAN, 1.0, Rel::order, E_val(1))
    C16_X2(fmax, 1.0, QNAN, Rel::order, E_val(1))
    C16_X2(fmax, QNAN, QNAN, Rel::order, E_nan)
    C16_X2(fmax, QNAN, INF, Rel::order, E_pinf)
    C16_X2(copysign, QNAN, -1.0, Rel::order, E_nan)
    C16_X2(copysign, INF, -1.0, Rel::order, E_ninf)
    C16_X2(copysign, 1.0, -QNAN, Rel::order, E_val(-1))
}
template <typename T>
void nextafters(Ctx& c)
{
    C16_X2(nextafter, QNAN, 1.0, Rel::order, E_nan)
    C16_X2(nextafter, 1.0, QNAN, Rel::order, E_nan)
    C16_X2(nextafter, INF, INF, Rel::order, E_pinf)
    C16_X2(nextafter, std::numeric_limits<T>::max(), INF, Rel::order, E_pinf)
    C16_X2(nextafter, -std::numeric_limits<T>::max(), -INF, Rel::order, E_ninf)
    C16_X2(nextafter, -INF, 0.0, Rel::order, E_val(-static_cast<LD>(std::numeric_limits<T>::max())))
}

template <typename T>
void all(mc::Reporter& r)
{
    Ctx c{r};
    logs<T>(c);
    trig<T>(c);
    hyper<T>(c);
    gammas<T>(c);
    pows<T>(c);
    exacts<T>(c);
    if constexpr (!std::is_same_v<T, LD>) { nextafters<T>(c); }
    r.count("evaluations", c.evals);
    r.count("distinct_nontrivial", c.nontrivial);
    r.count("not_constant_expression", c.not_cx);
    r.count("dropped_by_libm_cross_check", c.dropped);
    r.note(cat("not a constant expression for ", tname<T>(), " (accepted; g++ does not fold operations that raise invalid/overflow): ", c.not_cx_list.empty() ? "none" : c.not_cx_list));
    r.sample(cat("domain errors / poles, ", tname<T>(), ": e.g. log(0) = -inf, atanh(1) = +inf, tgamma(-1) = NaN, pow(-0,-1) = -inf, fmod(x,0) = NaN; run time and constant evaluation"));
}

} // namespace

int main(int argc, char** argv)
{
    mc::Main m(argc, argv);
    m.job("errors/float", {"quick", "thorough"}, [](mc::Reporter& r) { all<float>(r); });
    m.job("errors/double", {"quick", "thorough"}, [](mc::Reporter& r) { all<double>(r); });
    m.job("errors/long double", {"quick", "thorough"}, [](mc::Reporter& r) { all<LD>(r); });
    return m.run();
}
