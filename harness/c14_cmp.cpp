// C14, comparison half: cmp_equal ... cmp_greater_equal over all 64 ordered pairs of the eight
// fixed-width integer types, in_range<R>(t) and saturate_cast<To>(x) over all 64 (To, From)
// pairs, against std::cmp_*/std::in_range and exact __int128 comparison / clamping.
//
// Spaces: full(T) x full(U) (every value up to 16 bits, the boundary lattice for 32/64 bits;
// two 16-bit types: 2^16 x grid and grid x 2^16; quick: a 16-bit type against a 32/64-bit
// type contributes its grid; thorough: the complete 2^16 x 2^16 square).
//
// MC_PART=1 (default): T in {i8,u8,i16,u16};  MC_PART=2: T in {i32,u32,i64,u64}.
// MC_PART=3 (round 2): long long and unsigned long long (types distinct from int64_t/uint64_t
// = long/unsigned long here) against all ten builtin integer types, both argument orders: with
// parts 1 and 2 that is every ordered pair of the ten types tetl's builtin_integer accepts.
// Round 2 also adds the runs-of-ones values (c14_common.hpp: extra()) of 32/64-bit types:
// against the edge values in the quick tier, the complete (lattice u runs)^2 square in thorough.
#include "c14_common.hpp"

#include <etl/numeric.hpp>
#include <etl/utility.hpp>

#ifndef MC_PART
    #define MC_PART 1
#endif

using namespace c14;
using mc::cat;

namespace {

template <typename T, typename U>
std::string cls_cmp(V t, V u)
{
    std::string s = std::is_signed_v<T> ? "signed_" : "unsigned_";
    s += std::is_signed_v<U> ? "signed" : "unsigned";
    s += sizeof(T) == sizeof(U) ? "+same_width" : (sizeof(T) > sizeof(U) ? "+first_wider" : "+second_wider");
    if (t < 0 || u < 0) { s += "+negative"; }
    return s;
}

template <typename T, typename U>
V agree(Ctx& c, char const* what, V t, V u, bool lib, bool exact)
{
    if (lib != exact) { c.oracle_disagreement(what, cat(tname<T>(), " ", dec(t), " ", tname<U>(), " ", dec(u)), lib, exact); }
    return V(exact);
}

template <typename T, typename U>
void cmp_pair(Ctx& c, Space const& sp)
{
    TI const a = ti<T>(), b = ti<U>();
    auto cls   = &cls_cmp<T, U>;
    auto nt    = +[](V t, V u) { return t != u; }; // the values differ (equal pairs are the diagonal only)
    sweep2(c,
        {"cmp_equal(t,u)", a, b, "t", "u", always2, [](V t, V u) { return V(etl::cmp_equal(T(t), U(u))); },
            [](Ctx& c, V t, V u) { return agree<T, U>(c, "cmp_equal", t, u, std::cmp_equal(T(t), U(u)), t == u); }, cls, nt},
        sp);
    sweep2(c,
        {"cmp_not_equal(t,u)", a, b, "t", "u", always2, [](V t, V u) { return V(etl::cmp_not_equal(T(t), U(u))); },
            [](Ctx& c, V t, V u) { return agree<T, U>(c, "cmp_not_equal", t, u, std::cmp_not_equal(T(t), U(u)), t != u); }, cls, nt},
        sp);
    sweep2(c,
        {"cmp_less(t,u)", a, b, "t", "u", always2, [](V t, V u) { return V(etl::cmp_less(T(t), U(u))); },
            [](Ctx& c, V t, V u) { return agree<T, U>(c, "cmp_less", t, u, std::cmp_less(T(t), U(u)), t < u); }, cls, nt},
        sp);
    sweep2(c,
        {"cmp_greater(t,u)", a, b, "t", "u", always2, [](V t, V u) { return V(etl::cmp_greater(T(t), U(u))); },
            [](Ctx& c, V t, V u) { return agree<T, U>(c, "cmp_greater", t, u, std::cmp_greater(T(t), U(u)), t > u); }, cls, nt},
        sp);
    sweep2(c,
        {"cmp_less_equal(t,u)", a, b, "t", "u", always2, [](V t, V u) { return V(etl::cmp_less_equal(T(t), U(u))); },
            [](Ctx& c, V t, V u) { return agree<T, U>(c, "cmp_less_equal", t, u, std::cmp_less_equal(T(t), U(u)), t <= u); }, cls, nt},
        sp);
    sweep2(c,
        {"cmp_greater_equal(t,u)", a, b, "t", "u", always2, [](V t, V u) { return V(etl::cmp_greater_equal(T(t), U(u))); },
            [](Ctx& c, V t, V u) { return agree<T, U>(c, "cmp_greater_equal", t, u, std::cmp_greater_equal(T(t), U(u)), t >= u); }, cls, nt},
        sp);
    // how many of the pairs are sign-sensitive (a negative value against an unsigned type)
    if constexpr (std::is_signed_v<T> != std::is_signed_v<U>) {
        std::uint64_t n = 0;
        for (auto const& part : sp) {
            std::uint64_t na = 0, nb = 0;
            for (V t : *part.a) { na += t < 0 ? 1 : 0; }
            for (V u : *part.b) { nb += u < 0 ? 1 : 0; }
            n += std::is_signed_v<T> ? na * part.b->size() : nb * part.a->size();
        }
        c.r.count("pairs_negative_vs_unsigned", n * 6);
    }
}

template <typename T, typename U>
void cmp_square16(Ctx& c, Set const& rows)
{
    auto cls = &cls_cmp<T, U>;
    square16<T, U>(c, "cmp_equal(t,u)", rows, cls, [](T t, U u, V& got, V& want) {
        got  = etl::cmp_equal(t, u);
        want = V(t) == V(u);
    });
    square16<T, U>(c, "cmp_not_equal(t,u)", rows, cls, [](T t, U u, V& got, V& want) {
        got  = etl::cmp_not_equal(t, u);
        want = V(t) != V(u);
    });
    square16<T, U>(c, "cmp_less(t,u)", rows, cls, [](T t, U u, V& got, V& want) {
        got  = etl::cmp_less(t, u);
        want = V(t) < V(u);
    });
    square16<T, U>(c, "cmp_greater(t,u)", rows, cls, [](T t, U u, V& got, V& want) {
        got  = etl::cmp_greater(t, u);
        want = V(t) > V(u);
    });
    square16<T, U>(c, "cmp_less_equal(t,u)", rows, cls, [](T t, U u, V& got, V& want) {
        got  = etl::cmp_less_equal(t, u);
        want = V(t) <= V(u);
    });
    square16<T, U>(c, "cmp_greater_equal(t,u)", rows, cls, [](T t, U u, V& got, V& want) {
        got  = etl::cmp_greater_equal(t, u);
        want = V(t) >= V(u);
    });
}

/// To <- From: in_range<To>(x) and saturate_cast<To>(x) over every value of full(From)
template <typename To, typename From>
void range_pair(Ctx& c)
{
    Set const& A = full2<From>();
    auto cls     = +[](V x) {
        std::string s = std::is_signed_v<From> ? "from_signed" : "from_unsigned";
        s += std::is_signed_v<To> ? "+to_signed" : "+to_unsigned";
        s += sizeof(To) == sizeof(From) ? "+same_width" : (sizeof(To) > sizeof(From) ? "+widening" : "+narrowing");
        s += x < min_v<To> ? "+below_min" : (x > max_v<To> ? "+above_max" : "+fits");
        return s;
    };
    auto nt = +[](V x) { return !fits<To>(x); };
    Unary u1{"in_range<R>(t)", ti<From>(), "t", always1, [](V x) { return V(etl::in_range<To>(From(x))); },
        [](Ctx& c, V x) {
            bool const exact = fits<To>(x);
            if (std::in_range<To>(From(x)) != exact) {
                c.oracle_disagreement("in_range", cat("R=", tname<To>(), " ", tname<From>(), " ", dec(x)), !exact, exact);
            }
            return V(exact);
        },
        cls, nt};
    u1.note = cat("R=", tname<To>());
    sweep1(c, u1, A);
    Unary u2{"saturate_cast<To>(x)", ti<From>(), "x", always1, [](V x) { return V(etl::saturate_cast<To>(From(x))); },
        [](Ctx&, V x) { return x < min_v<To> ? min_v<To> : (x > max_v<To> ? max_v<To> : x); }, cls, nt};
    u2.note = cat("To=", tname<To>());
    sweep1(c, u2, A);
    if constexpr (!std::is_same_v<decltype(etl::saturate_cast<To>(From{})), To>) {
        c.r.violation("C14", "saturate_cast<To>(x)", "return_type", u2.note, "return type is not To");
    }
}

using ll  = long long;
using ull = unsigned long long;

template <typename T>
std::string jname()
{
    if constexpr (std::is_same_v<T, ll>) { return "ll"; }
    if constexpr (std::is_same_v<T, ull>) { return "ull"; }
    return tname<T>();
}

template <typename T>
void add_jobs(mc::Main& m)
{
    std::string const t = jname<T>();
    // a 16-bit type against a 32/64-bit type: the 2^16 axis only in the thorough tier
    m.job("cmp-" + t + "-vs-8", {"quick", "thorough"}, [](mc::Reporter& r) {
        Ctx c(r);
        bool const w = wide16_default();
        Runs const e = runs_default(r, Runs::cross);
        cmp_pair<T, i8>(c, pair_space2<T, i8>(w, e));
        cmp_pair<T, u8>(c, pair_space2<T, u8>(w, e));
    });
    m.job("cmp-" + t + "-vs-16", {"quick", "thorough"}, [](mc::Reporter& r) {
        Ctx c(r);
        bool const w = wide16_default() && (sizeof(T) <= 2 || r.thorough());
        Runs const e = runs_default(r, Runs::cross);
        cmp_pair<T, i16>(c, pair_space2<T, i16>(w, e));
        cmp_pair<T, u16>(c, pair_space2<T, u16>(w, e));
    });
    m.job("cmp-" + t + "-vs-32-64", {"quick", "thorough"}, [](mc::Reporter& r) {
        Ctx c(r);
        bool const w = wide16_default() && r.thorough();
        Runs const e = runs_default(r, Runs::square);
        cmp_pair<T, i32>(c, pair_space2<T, i32>(w, e));
        cmp_pair<T, u32>(c, pair_space2<T, u32>(w, e));
        cmp_pair<T, i64>(c, pair_space2<T, i64>(w, e));
        cmp_pair<T, u64>(c, pair_space2<T, u64>(w, e));
    });
    m.job("cmp-" + t + "-vs-ll-ull", {"quick", "thorough"}, [](mc::Reporter& r) {
        Ctx c(r);
        bool const w = wide16_default() && r.thorough();
        Runs const e = runs_default(r, Runs::square);
        cmp_pair<T, ll>(c, pair_space2<T, ll>(w, e));
        cmp_pair<T, ull>(c, pair_space2<T, ull>(w, e));
    });
    m.job("range-to-ll-ull-from-" + t, {"quick", "thorough"}, [](mc::Reporter& r) {
        Ctx c(r);
        range_pair<ll, T>(c);
        range_pair<ull, T>(c);
    });
    m.job("range-from-" + t, {"quick", "thorough"}, [](mc::Reporter& r) {
        Ctx c(r);
        range_pair<i8, T>(c);
        range_pair<u8, T>(c);
        range_pair<i16, T>(c);
        range_pair<u16, T>(c);
        range_pair<i32, T>(c);
        range_pair<u32, T>(c);
        range_pair<i64, T>(c);
        range_pair<u64, T>(c);
    });
#if !defined(MC_FLAVOUR_SAN) && !defined(MC_FLAVOUR_CHK) && !defined(MC_FLAVOUR_O2)
    if constexpr (sizeof(T) == 2) {
        for (unsigned k = 0; k < 16; ++k) {
            m.job(cat("full16-cmp-", t, "-", k), {"thorough"}, [k](mc::Reporter& r) {
                Ctx c(r);
                Set const rows = slice16<T>(k, 16);
                cmp_square16<T, i16>(c, rows);
                cmp_square16<T, u16>(c, rows);
            });
        }
    }
#endif
}

} // namespace

int main(int argc, char** argv)
{
    mc::Main m(argc, argv);
#if MC_PART == 1
    add_jobs<i8>(m);
    add_jobs<u8>(m);
    add_jobs<i16>(m);
    add_jobs<u16>(m);
#elif MC_PART == 3
    add_jobs<ll>(m);
    add_jobs<ull>(m);
#else
    add_jobs<i32>(m);
    add_jobs<u32>(m);
    add_jobs<i64>(m);
    add_jobs<u64>(m);
#endif
    return m.run();
}
