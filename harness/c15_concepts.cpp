// C15, concepts and the INVOKE family (engine E4: constexpr tables compared at run time).
//
// MC_PART 1: every unary concept of etl/_concepts with a std namesake x the type zoo
//            (std::__detail::__boolean_testable stands in for the exposition-only
//            boolean-testable).
// MC_PART 2: is_invocable, is_invocable_r, invoke_result, invocable, regular_invocable,
//            predicate over callables x argument lists; relation, equivalence_relation,
//            strict_weak_order over (R, T, U) triples.
#include "c15_common.hpp"

#ifndef MC_PART
    #define MC_PART 1
#endif
#if defined(C15_R2_INVOKE)
    #define C15_IJOB(NAME) NAME "/zoo2"
#else
    #define C15_IJOB(NAME) NAME
#endif

namespace c15 {

template <typename T>
inline constexpr bool complete_ok = !incomplete_core<T>;

#define C15_CONCEPT1(NAME, STD, OK, GAP)                                                                               \
    struct NAME##_C {                                                                                                  \
        static constexpr char const* name = #NAME;                                                                     \
        static constexpr char const* form = "@<T> (concept)";                                                          \
        template <typename T>                                                                                          \
        static constexpr bool ok = (OK);                                                                               \
        template <typename T>                                                                                          \
        static constexpr bool gap = (GAP);                                                                             \
        template <typename T>                                                                                          \
        static constexpr long long e()                                                                                 \
        {                                                                                                              \
            return static_cast<long long>(etl::NAME<T>);                                                               \
        }                                                                                                              \
        template <typename T>                                                                                          \
        static constexpr long long s()                                                                                 \
        {                                                                                                              \
            return static_cast<long long>(STD<T>);                                                                     \
        }                                                                                                              \
        template <typename T>                                                                                          \
        static constexpr ShowFn show = nullptr;                                                                        \
        template <typename T>                                                                                          \
        static constexpr bool nontrivial(long long sv)                                                                 \
        {                                                                                                              \
            return sv != 0;                                                                                            \
        }                                                                                                              \
    };

// n-ary facilities over a pack
#define C15_PACK(ID, NAME, FORM, ETL, STD, NT)                                                                         \
    struct ID {                                                                                                        \
        static constexpr char const* name = NAME;                                                                      \
        static constexpr char const* form = FORM;                                                                      \
        template <typename... A>                                                                                       \
        static constexpr bool ok = true;                                                                               \
        template <typename... A>                                                                                       \
        static constexpr bool gap = false;                                                                             \
        template <typename... A>                                                                                       \
        static constexpr long long e()                                                                                 \
        {                                                                                                              \
            return static_cast<long long>(ETL);                                                                        \
        }                                                                                                              \
        template <typename... A>                                                                                       \
        static constexpr long long s()                                                                                 \
        {                                                                                                              \
            return static_cast<long long>(STD);                                                                        \
        }                                                                                                              \
        template <typename... A>                                                                                       \
        static constexpr ShowFn show = nullptr;                                                                        \
        template <typename... A>                                                                                       \
        static constexpr bool nontrivial(long long sv)                                                                 \
        {                                                                                                              \
            return sv NT;                                                                                              \
        }                                                                                                              \
    };

#if MC_PART == 1
C15_CONCEPT1(integral, std::integral, !int128_quirk<T>, false)
C15_CONCEPT1(signed_integral, std::signed_integral, !int128_quirk<T>, false)
C15_CONCEPT1(unsigned_integral, std::unsigned_integral, !int128_quirk<T>, false)
C15_CONCEPT1(floating_point, std::floating_point, true, false)
C15_CONCEPT1(destructible, std::destructible, complete_ok<T>, false)
C15_CONCEPT1(constructible_from, std::constructible_from, complete_ok<T>, false)
C15_CONCEPT1(default_initializable, std::default_initializable, complete_ok<T>, false)
C15_CONCEPT1(move_constructible, std::move_constructible, complete_ok<T>, false)
C15_CONCEPT1(copy_constructible, std::copy_constructible, complete_ok<T>, false)
C15_CONCEPT1(movable, std::movable, complete_ok<T>, false)
C15_CONCEPT1(copyable, std::copyable, complete_ok<T>, false)
C15_CONCEPT1(semiregular, std::semiregular, complete_ok<T>, false)
C15_CONCEPT1(regular, std::regular, complete_ok<T>, false)
C15_CONCEPT1(equality_comparable, std::equality_comparable, complete_ok<T>, false)
C15_CONCEPT1(swappable, std::swappable, complete_ok<T>, false)
C15_CONCEPT1(boolean_testable, std::__detail::__boolean_testable, complete_ok<T>, false)
#endif

#if MC_PART == 2
// concepts and alias templates do not accept a pack expansion for a non-pack parameter
template <typename F, typename... A> inline constexpr bool etl_invocable = etl::invocable<F, A...>;
template <typename F, typename... A> inline constexpr bool std_invocable = std::invocable<F, A...>;
template <typename F, typename... A> inline constexpr bool etl_regular_invocable = etl::regular_invocable<F, A...>;
template <typename F, typename... A> inline constexpr bool std_regular_invocable = std::regular_invocable<F, A...>;
template <typename F, typename... A> inline constexpr bool etl_predicate = etl::predicate<F, A...>;
template <typename F, typename... A> inline constexpr bool std_predicate = std::predicate<F, A...>;
template <typename R, typename T, typename U> inline constexpr bool etl_relation = etl::relation<R, T, U>;
template <typename R, typename T, typename U> inline constexpr bool std_relation = std::relation<R, T, U>;
template <typename R, typename T, typename U> inline constexpr bool etl_equivalence_relation = etl::equivalence_relation<R, T, U>;
template <typename R, typename T, typename U> inline constexpr bool std_equivalence_relation = std::equivalence_relation<R, T, U>;
template <typename R, typename T, typename U> inline constexpr bool etl_strict_weak_order = etl::strict_weak_order<R, T, U>;
template <typename R, typename T, typename U> inline constexpr bool std_strict_weak_order = std::strict_weak_order<R, T, U>;

// a type-valued pack facility: invoke_result
template <typename F, typename... A>
struct etl_invoke_result_alias { };
template <typename F, typename... A>
    requires requires { typename etl::invoke_result_t<F, A...>; }
struct etl_invoke_result_alias<F, A...> {
    using type = etl::invoke_result_t<F, A...>;
};
template <typename F, typename... A>
struct std_invoke_result_alias { };
template <typename F, typename... A>
    requires requires { typename std::invoke_result_t<F, A...>; }
struct std_invoke_result_alias<F, A...> {
    using type = std::invoke_result_t<F, A...>;
};
struct invoke_result_T {
    static constexpr char const* name = "invoke_result";
    static constexpr char const* form = "@<F,Args...>::type";
    template <typename... A>
    static constexpr bool ok = true;
    template <typename... A>
    static constexpr bool gap = false;
    template <typename F, typename... A>
    static constexpr long long e()
    {
        return type_code_etl<F, member_type_t<etl::invoke_result<F, A...>>, member_type_t<std::invoke_result<F, A...>>>();
    }
    template <typename F, typename... A>
    static constexpr long long s()
    {
        return type_code_std<F, member_type_t<std::invoke_result<F, A...>>>();
    }
    template <typename... A>
    static constexpr ShowFn show = &show_two<member_type_t<etl::invoke_result<A...>>, member_type_t<std::invoke_result<A...>>>;
    template <typename... A>
    static constexpr bool nontrivial(long long sv)
    {
        return sv != 0;
    }
};
struct invoke_result_A {
    static constexpr char const* name = "invoke_result";
    static constexpr char const* form = "@_t<F,Args...>";
    template <typename... A>
    static constexpr bool ok = true;
    template <typename... A>
    static constexpr bool gap = false;
    template <typename F, typename... A>
    static constexpr long long e()
    {
        return type_code_etl<F, member_type_t<etl_invoke_result_alias<F, A...>>, member_type_t<std_invoke_result_alias<F, A...>>>();
    }
    template <typename F, typename... A>
    static constexpr long long s()
    {
        return type_code_std<F, member_type_t<std_invoke_result_alias<F, A...>>>();
    }
    template <typename... A>
    static constexpr ShowFn show
        = &show_two<member_type_t<etl_invoke_result_alias<A...>>, member_type_t<std_invoke_result_alias<A...>>>;
    template <typename... A>
    static constexpr bool nontrivial(long long sv)
    {
        return sv != 0;
    }
};

C15_PACK(is_invocable_S, "is_invocable", "@<F,Args...>::value", (etl::is_invocable<A...>::value), (std::is_invocable<A...>::value), != 0)
C15_PACK(is_invocable_V, "is_invocable", "@_v<F,Args...>", (etl::is_invocable_v<A...>), (std::is_invocable_v<A...>), != 0)
C15_PACK(is_invocable_r_S, "is_invocable_r", "@<R,F,Args...>::value", (etl::is_invocable_r<A...>::value), (std::is_invocable_r<A...>::value), != 0)
C15_PACK(is_invocable_r_V, "is_invocable_r", "@_v<R,F,Args...>", (etl::is_invocable_r_v<A...>), (std::is_invocable_r_v<A...>), != 0)
C15_PACK(invocable_C, "invocable", "@<F,Args...> (concept)", (etl_invocable<A...>), (std_invocable<A...>), != 0)
C15_PACK(regular_invocable_C, "regular_invocable", "@<F,Args...> (concept)", (etl_regular_invocable<A...>), (std_regular_invocable<A...>), != 0)
C15_PACK(predicate_C, "predicate", "@<F,Args...> (concept)", (etl_predicate<A...>), (std_predicate<A...>), != 0)
C15_PACK(relation_C, "relation", "@<R,T,U> (concept)", (etl_relation<A...>), (std_relation<A...>), != 0)
C15_PACK(equivalence_relation_C, "equivalence_relation", "@<R,T,U> (concept)", (etl_equivalence_relation<A...>), (std_equivalence_relation<A...>), != 0)
C15_PACK(strict_weak_order_C, "strict_weak_order", "@<R,T,U> (concept)", (etl_strict_weak_order<A...>), (std_strict_weak_order<A...>), != 0)

// callables x argument lists -> cases tl<F, Args...>
template <typename F, typename ArgList>
struct prepend;
template <typename F, typename... A>
struct prepend<F, tl<A...>> {
    using type = tl<F, A...>;
};
template <typename Fs, typename ArgLists>
struct invoke_cases;
template <typename... ArgLists>
struct invoke_cases<tl<>, tl<ArgLists...>> {
    using type = tl<>;
};
template <typename F, typename... Fs, typename... ArgLists>
struct invoke_cases<tl<F, Fs...>, tl<ArgLists...>> {
    using type = tl_cat_t<tl<typename prepend<F, ArgLists>::type...>, typename invoke_cases<tl<Fs...>, tl<ArgLists...>>::type>;
};

// clang-format off
#if defined(C15_R2_INVOKE)
// round 2 (thorough tier, own translation unit): callable objects whose call operator is generic, overloaded on the
// value category / constness of the object, deleted, private, variadic, has default arguments, returns an immovable
// prvalue / a reference / a bool-like class, takes move-only or reference parameters; surrogate call functions;
// closure types (generic, mutable, noexcept); callables passed as lvalue / const lvalue / rvalue references and
// pointers; function TYPES (plain and cv-qualified); references to pointers to functions and members; non-callables
using callables = tl<zoo::GenericFunctor, zoo::RefQualFunctor, zoo::RefQualFunctor&, zoo::RefQualFunctor const&,
                     zoo::RefQualFunctor&&, zoo::RefQualFunctor const, zoo::MutableFunctor, zoo::MutableFunctor const,
                     zoo::MutableFunctor&, zoo::MutableFunctor const&, zoo::DeletedCall, zoo::OverloadFunctor,
                     zoo::VariadicFunctor, zoo::DefaultArgFunctor, zoo::ReturnsImmovable, zoo::ReturnsRef,
                     zoo::ReturnsBoolLike, zoo::TakesRef, zoo::TakesRvalueRef, zoo::TakesMoveOnly, zoo::PrivateCall,
                     zoo::ToFnPtr, zoo::ToFnPtr const&, zoo::LambdaGeneric, zoo::LambdaMutable, zoo::LambdaMutable const&,
                     zoo::LambdaNoexcept, zoo::LambdaRefRet, zoo::Functor const&, zoo::Functor&&, zoo::Functor*,
                     zoo::Functor volatile&, int(int), int (&)(int, ...), void() const, void (*&)(), void (* const&)() noexcept,
                     int zoo::Agg::* const&, int const zoo::Agg::*, void (zoo::Agg::*&&)() const, void (zoo::Agg::*)() &,
                     void (zoo::Agg::*)() const volatile, int (zoo::Agg::*)(int, ...), void (zoo::Agg::*)() const& noexcept,
                     std::nullptr_t, void, int*, zoo::Agg&>;
using arglists  = tl<tl<>, tl<int>, tl<int&>, tl<int const&>, tl<double>, tl<void*>, tl<void>, tl<int, int>, tl<zoo::MoveOnly>,
                     tl<zoo::MoveOnly&>, tl<zoo::MoveOnly&&>, tl<zoo::Agg&>, tl<zoo::Agg const>, tl<zoo::Agg*&>, tl<zoo::AggDerived>,
                     tl<zoo::AggDerived*>, tl<zoo::Agg volatile&>, tl<zoo::Agg&&>, tl<zoo::Agg&, int>, tl<zoo::Agg const*, int>,
                     tl<zoo::ToInt>, tl<zoo::ToAny>, tl<int, double, char>, tl<zoo::Agg, int, int>>;
using returns   = tl<void const, int const&, int&&, long, zoo::Immovable, zoo::ToInt, char*, double>;
#else
using callables = tl<zoo::Functor, zoo::FunctorNoexcept, zoo::Pred, zoo::Lambda, zoo::LambdaCap, zoo::Agg, int,
                     void (*)(), int (*)(int) noexcept, int (&)(int) noexcept, bool (*)(int, int), int (*)(int, ...),
                     int zoo::Agg::*, void (zoo::Agg::*)(), void (zoo::Agg::*)() const, void (zoo::Agg::*)() &&,
                     int (zoo::Agg::*)(int) const noexcept, void (zoo::Poly::*)()>;
using arglists  = tl<tl<>, tl<int>, tl<int, int>, tl<double>, tl<zoo::ToInt>, tl<zoo::Agg&>, tl<zoo::Agg const&>,
                     tl<zoo::Agg>, tl<zoo::Agg*>, tl<zoo::Agg const*>, tl<zoo::AggDerived&>, tl<zoo::Agg&, int>,
                     tl<zoo::Agg*, int>, tl<zoo::Poly>, tl<zoo::Base*>>;
using returns   = tl<void, int, int&, zoo::Agg, zoo::FromInt, bool>;
#endif
// clang-format on
using inv_cases = typename invoke_cases<callables, arglists>::type;

// R x (F, Args...) -> tl<R, F, Args...>
template <typename Rs, typename Cases>
struct with_return;
template <typename... Cases>
struct with_return<tl<>, tl<Cases...>> {
    using type = tl<>;
};
template <typename R, typename... Rs, typename... Cases>
struct with_return<tl<R, Rs...>, tl<Cases...>> {
    using type = tl_cat_t<tl<typename prepend<R, Cases>::type...>, typename with_return<tl<Rs...>, tl<Cases...>>::type>;
};
// is_invocable_r: at most 2 arguments keep a case within the 4 type slots of a cell
#if defined(C15_R2_INVOKE)
using arglists_r = tl<tl<>, tl<int>, tl<int&>, tl<double>, tl<zoo::MoveOnly>, tl<zoo::Agg&>, tl<zoo::Agg const>, tl<zoo::AggDerived*>,
                      tl<zoo::Agg&, int>, tl<int, int>>;
#else
using arglists_r = tl<tl<>, tl<int>, tl<int, int>, tl<zoo::ToInt>, tl<zoo::Agg&>, tl<zoo::Agg const&>, tl<zoo::Agg*>,
                      tl<zoo::Agg&, int>>;
#endif
using inv_r_cases = typename with_return<returns, typename invoke_cases<callables, arglists_r>::type>::type;

// relations: R x {T} x {U}
#if defined(C15_R2_INVOKE)
using rel_R     = tl<zoo::ReturnsBoolLike, zoo::LambdaNoexcept, zoo::GenericFunctor, zoo::TakesMoveOnly, zoo::OverloadFunctor,
                     zoo::MutableFunctor, zoo::MutableFunctor&, zoo::VariadicFunctor, zoo::DefaultArgFunctor, zoo::Pred const&,
                     bool (&)(int, int), zoo::EqNonBool>;
using rel_T     = tl<tl<int, int>, tl<int&, long>, tl<int, zoo::MoveOnly>, tl<zoo::MoveOnly, zoo::MoveOnly>, tl<void*, int>,
                     tl<zoo::ToInt, double>, tl<zoo::UnscopedNeg, int>, tl<zoo::Scoped, int>>;
#else
using rel_R     = tl<zoo::Pred, zoo::Functor, zoo::Lambda, bool (*)(int, int), int (*)(int, ...), zoo::EqComparable, int>;
using rel_T     = tl<tl<int, int>, tl<int, double>, tl<int, zoo::ToInt>, tl<zoo::ToInt, zoo::ToInt>, tl<int, zoo::Agg>,
                     tl<zoo::Agg, zoo::Agg>>;
#endif
using rel_cases = typename invoke_cases<rel_R, rel_T>::type;
#endif

} // namespace c15

int main(int argc, char** argv)
{
    using namespace c15;
    mc::Main m(argc, argv);
#if MC_PART == 1
    using cases = wrap1_t<zoo_t>;
    m.job(C15_JOB("concepts-arithmetic"), {"quick", "thorough"}, [](mc::Reporter& r) {
        run_columns<cases, integral_C, signed_integral_C, unsigned_integral_C, floating_point_C>(r);
    });
    m.job(C15_JOB("concepts-object"), {"quick", "thorough"}, [](mc::Reporter& r) {
        run_columns<cases, destructible_C, constructible_from_C, default_initializable_C, move_constructible_C,
            copy_constructible_C, movable_C, copyable_C, semiregular_C, regular_C, equality_comparable_C, swappable_C,
            boolean_testable_C>(r);
    });
#elif MC_PART == 2
    m.job(C15_IJOB("invoke"), {"quick", "thorough"}, [](mc::Reporter& r) {
        run_columns<inv_cases, is_invocable_S, is_invocable_V, invoke_result_T, invoke_result_A, invocable_C,
            regular_invocable_C, predicate_C>(r);
    });
    m.job(C15_IJOB("invoke-r"), {"quick", "thorough"}, [](mc::Reporter& r) { run_columns<inv_r_cases, is_invocable_r_S, is_invocable_r_V>(r); });
    m.job(C15_IJOB("relations"), {"quick", "thorough"}, [](mc::Reporter& r) {
        run_columns<rel_cases, relation_C, equivalence_relation_C, strict_weak_order_C, predicate_C>(r);
    });
#endif
    return m.run();
}
