// Shared machinery of the C15 harnesses (engine E4: compile-time tables compared at run time).
//
// A *cell* is one obligation "etl facility X applied to the type tuple (A...) yields the same
// compile-time value / type as the std facility of the same name".  Both values are computed
// by the compiler while it builds a `constexpr` table (`column<Trait, Cases>`); the harness
// walks the tables at run time, counts the cells and reports every disagreement as one
// replayable violation (subject = facility + spelling, class = type category of the arguments,
// case = the type tuple).  Nothing is a static_assert, so one wrong trait never hides another.
//
// Cells whose *std* side is ill-formed or has a violated precondition (incomplete type,
// make_signed<float>, ...) are excluded by the trait's `ok` predicate and counted as
// `skipped_std_precondition`.  Cells whose *etl* side is a hard (non-SFINAE) compile error are
// excluded by the trait's `gap` predicate, counted as `excluded_etl_ill_formed`, and are the
// business of c15_probe.cpp, which compiles them one by one.
#pragma once

#include "mc.hpp"

#include <etl/concepts.hpp>
#include <etl/cstddef.hpp>
#include <etl/cstdint.hpp>
#include <etl/functional.hpp>
#include <etl/limits.hpp>
#include <etl/meta.hpp>
#include <etl/ratio.hpp>
#include <etl/type_traits.hpp>
#include <etl/utility.hpp>

#include <array>
#include <bit>
#include <concepts>
#include <cstddef>
#include <cstdint>
#include <functional>
#include <limits>
#include <numeric>
#include <ratio>
#include <string>
#include <type_traits>

#include "c15_zoo.hpp"

namespace c15 {

template <typename... Ts>
struct tl {
    static constexpr std::size_t size = sizeof...(Ts);
};

template <typename A, typename B>
struct tl_cat;
template <typename... A, typename... B>
struct tl_cat<tl<A...>, tl<B...>> {
    using type = tl<A..., B...>;
};
template <typename A, typename B>
using tl_cat_t = typename tl_cat<A, B>::type;

struct drop_me;
template <typename L>
struct tl_tail;
template <typename H, typename... T>
struct tl_tail<tl<H, T...>> {
    using type = tl<T...>;
};

/// tl<tl<A>...> from tl<A...>
template <typename L>
struct wrap1;
template <typename... A>
struct wrap1<tl<A...>> {
    using type = tl<tl<A>...>;
};
template <typename L>
using wrap1_t = typename wrap1<L>::type;

/// ordered pairs tl<tl<A,B>...> in row-major order
template <typename L1, typename L2>
struct cross;
template <typename A, typename... B>
struct cross<tl<A>, tl<B...>> {
    using type = tl<tl<A, B>...>;
};
template <typename... B>
struct cross<tl<>, tl<B...>> {
    using type = tl<>;
};
template <typename A0, typename A1, typename... A, typename... B>
struct cross<tl<A0, A1, A...>, tl<B...>> {
    using type = tl_cat_t<tl<tl<A0, B>...>, typename cross<tl<A1, A...>, tl<B...>>::type>;
};
template <typename L1, typename L2>
using cross_t = typename cross<L1, L2>::type;

/// spelling of a type: specialised (by the X-macros below) for every type of the unary zoos; every other
/// type (binary / n-ary sub-zoos of round 2) is spelled by the compiler (__PRETTY_FUNCTION__, deterministic)
template <typename T>
struct tname {
    static constexpr auto make()
    {
        constexpr char const* pf = __PRETTY_FUNCTION__;
        std::array<char, 160> a{};
        std::size_t i = 0;
        while (pf[i] != 0 && !(pf[i] == 'T' && pf[i + 1] == ' ' && pf[i + 2] == '=' && pf[i + 3] == ' ')) { ++i; }
        std::size_t o = 0;
        if (pf[i] != 0) {
            i += 4;
            while (pf[i] != 0 && pf[i] != ']' && pf[i] != ';' && o + 1 < a.size()) { a[o++] = pf[i++]; }
            // "[3]" inside an array type closes with ']' as well: re-open until the final ']' / ';'
            while (pf[i] != 0 && o + 1 < a.size()) {
                std::size_t j = i;
                bool more     = false;
                while (pf[j] != 0) {
                    if (pf[j] == ']' && pf[j + 1] != 0) { more = true; }
                    ++j;
                }
                if (!more || pf[i] == ';') { break; }
                a[o++] = pf[i++];
            }
        }
        a[o] = 0;
        return a;
    }
    static constexpr auto storage      = make();
    static constexpr char const* value = storage.data();
};

// clang-format off
// 1. arithmetic, void, nullptr (cv variants of a few of them are in the core, the rest in EXT)
#define C15_ZOO_CORE(X)                                                                                   \
    X(void) X(void const) X(std::nullptr_t)                                                               \
    X(bool) X(char) X(signed char) X(unsigned char) X(wchar_t) X(char8_t) X(char16_t) X(char32_t)         \
    X(short) X(unsigned short) X(int) X(unsigned int) X(long) X(unsigned long) X(long long)               \
    X(unsigned long long) X(float) X(double) X(long double)                                               \
    X(int const) X(int volatile) X(int const volatile) X(char const) X(double const) X(unsigned long volatile) \
    X(zoo::Unscoped) X(zoo::UnscopedU8) X(zoo::Scoped) X(zoo::ScopedChar) X(zoo::Scoped const)            \
    X(int*) X(int const*) X(int* const) X(void*) X(char const* volatile) X(zoo::Incomplete*)              \
    X(void (*)()) X(int (*)(int) noexcept)                                                                \
    X(int zoo::Agg::*) X(void (zoo::Poly::*)()) X(int (zoo::Agg::*)(int) const noexcept)                  \
    X(int&) X(int const&) X(int&&) X(zoo::Agg&) X(zoo::NonTrivial const&) X(void (&)()) X(int (&)[3])     \
    X(int[3]) X(int[]) X(int const[3]) X(int[2][3]) X(zoo::NonTrivial[2])                                 \
    X(void()) X(int(int)) X(void() const) X(void() & noexcept)                                            \
    X(zoo::Incomplete) X(zoo::Empty) X(zoo::EmptyFinal) X(zoo::Agg) X(zoo::Derived) X(zoo::Poly)          \
    X(zoo::Abstract) X(zoo::NonTrivial) X(zoo::TrivDefUserCopy) X(zoo::UserDefTrivCopy) X(zoo::MoveOnly)  \
    X(zoo::DeletedDtor) X(zoo::ThrowCopy) X(zoo::ThrowDtor) X(zoo::Padded) X(zoo::Agg const)              \
    X(zoo::UnionTriv) X(zoo::UnionNonTriv) X(zoo::Lambda)

#define C15_ZOO_EXT(X)                                                                                    \
    X(void volatile) X(void const volatile) X(std::nullptr_t const)                                       \
    X(bool const) X(bool volatile) X(bool const volatile)                                                 \
    X(char volatile) X(char const volatile)                                                               \
    X(signed char const) X(signed char volatile) X(signed char const volatile)                            \
    X(unsigned char const) X(unsigned char volatile) X(unsigned char const volatile)                      \
    X(wchar_t const) X(wchar_t volatile) X(wchar_t const volatile)                                        \
    X(char8_t const) X(char8_t volatile) X(char8_t const volatile)                                        \
    X(char16_t const) X(char16_t volatile) X(char16_t const volatile)                                     \
    X(char32_t const) X(char32_t volatile) X(char32_t const volatile)                                     \
    X(short const) X(short volatile) X(short const volatile)                                              \
    X(unsigned short const) X(unsigned short volatile) X(unsigned short const volatile)                   \
    X(unsigned int const) X(unsigned int volatile) X(unsigned int const volatile)                         \
    X(long const) X(long volatile) X(long const volatile)                                                 \
    X(unsigned long const) X(unsigned long const volatile)                                                \
    X(long long const) X(long long volatile) X(long long const volatile)                                  \
    X(unsigned long long const) X(unsigned long long volatile) X(unsigned long long const volatile)       \
    X(float const) X(float volatile) X(float const volatile)                                              \
    X(double volatile) X(double const volatile)                                                           \
    X(long double const) X(long double volatile) X(long double const volatile)                            \
    X(zoo::ScopedLL) X(zoo::ScopedBool) X(zoo::Unscoped const) X(zoo::Unscoped volatile)                  \
    X(zoo::ScopedChar const volatile) X(std::byte) X(etl::byte)                                           \
    X(int* volatile) X(int* const volatile) X(int volatile*) X(int const volatile*) X(void const*)        \
    X(void const volatile*) X(char const*) X(int**) X(int const* const*) X(zoo::Agg*) X(zoo::Abstract*)   \
    X(zoo::Derived const*) X(zoo::Incomplete const*) X(int (*)[3]) X(int (*)[])                           \
    X(int (*)(int)) X(void (*)() noexcept) X(int (*)(int, ...)) X(void (* const)()) X(void (**)())        \
    X(int const zoo::Agg::*) X(int zoo::Agg::* const) X(double zoo::Agg::*) X(int zoo::Derived::*)        \
    X(int* zoo::Agg::*) X(int (zoo::Agg::*)[3])                                                           \
    X(void (zoo::Agg::*)()) X(void (zoo::Agg::*)() const) X(void (zoo::Agg::*)() volatile)                \
    X(void (zoo::Agg::*)() const volatile) X(void (zoo::Agg::*)() &) X(void (zoo::Agg::*)() &&)           \
    X(void (zoo::Agg::*)() const&) X(void (zoo::Agg::*)() noexcept) X(void (zoo::Agg::*)() const&& noexcept) \
    X(int (zoo::Agg::*)(int, ...)) X(void (zoo::Agg::* const)()) X(void (zoo::Agg::* volatile)() const)   \
    X(int volatile&) X(int const volatile&) X(int const&&) X(int volatile&&) X(double&) X(char const&)    \
    X(zoo::Agg const&) X(zoo::Agg&&) X(zoo::Agg const&&) X(zoo::Abstract&) X(zoo::Abstract const&)        \
    X(zoo::Incomplete&) X(zoo::MoveOnly&) X(zoo::MoveOnly&&) X(zoo::DeletedDtor&) X(zoo::Scoped&)         \
    X(int*&) X(int* const&) X(int*&&) X(void (&&)()) X(int (&)(int) noexcept) X(void (*&)())              \
    X(int (&&)[3]) X(int (&)[]) X(int const (&)[3]) X(int (&)[2][3]) X(int zoo::Agg::*&)                  \
    X(void (zoo::Agg::*&)()) X(std::nullptr_t&)                                                           \
    X(int volatile[3]) X(int const volatile[2]) X(int const[]) X(int[][3]) X(int[1]) X(char[1])           \
    X(char const[4]) X(int* [3]) X(int* []) X(zoo::Agg[3]) X(zoo::Agg const[2]) X(zoo::Agg[])             \
    X(zoo::Empty[2]) X(zoo::ThrowDtor[2]) X(zoo::DeletedDtor[2]) X(zoo::MoveOnly[2]) X(zoo::Scoped[2])    \
    X(zoo::ThrowDefault[2]) X(zoo::NoDefault[2]) X(zoo::NonTrivial[2][2]) X(double[2][3][4])              \
    X(void (*[2])()) X(int zoo::Agg::*[2])                                                                \
    X(void() volatile) X(void() const volatile) X(void() &) X(void() &&) X(void() const&)                 \
    X(void() noexcept) X(void() const noexcept) X(void() const&& noexcept) X(int(int, ...))               \
    X(void(...)) X(int(int) noexcept) X(int*(int*, double)) X(void(zoo::Agg))                             \
    X(zoo::Base) X(zoo::DerivedPriv) X(zoo::DerivedVirt) X(zoo::PolyVDtor) X(zoo::PolyFinal)              \
    X(zoo::AbstractProtDtor) X(zoo::NoDefault) X(zoo::DeletedDefault) X(zoo::CopyOnly) X(zoo::NoAssign)   \
    X(zoo::Immovable) X(zoo::PrivateDtor) X(zoo::ProtectedDtor) X(zoo::ThrowDefault) X(zoo::ThrowMove)    \
    X(zoo::NothrowAll) X(zoo::ExplicitDefault) X(zoo::ExplicitCopy) X(zoo::ToInt) X(zoo::ToIntThrow)      \
    X(zoo::ExplicitToBool) X(zoo::FromInt) X(zoo::ExplicitFromInt) X(zoo::ConstMember) X(zoo::RefMember)  \
    X(zoo::BitField) X(zoo::MixedAccess) X(zoo::TwoInts) X(zoo::WithFloat) X(zoo::Functor)                \
    X(zoo::FunctorNoexcept) X(zoo::Pred) X(zoo::EqComparable) X(zoo::AdlSwap) X(zoo::NoSwap)              \
    X(zoo::UnionEmpty) X(zoo::LambdaCap)                                                                  \
    X(zoo::Empty const) X(zoo::Empty volatile) X(zoo::NonTrivial const) X(zoo::MoveOnly const)            \
    X(zoo::Poly const) X(zoo::Abstract const) X(zoo::EmptyFinal const volatile) X(zoo::UnionTriv const)   \
    X(zoo::Agg volatile) X(zoo::Agg const volatile) X(zoo::ThrowCopy const) X(zoo::TrivDefUserCopy const) \
    X(zoo::Incomplete const) X(zoo::Base*) X(zoo::Derived*) X(zoo::Derived&) X(zoo::Base const&) \
    X(zoo::AggDerived) X(zoo::AggDerived&) X(bool (*)(int, int)) X(zoo::Agg const*)
// round 2: types missing from the first zoo.  R2_CORE is the part that also runs in the quick tier.
#define C15_ZOO_R2_CORE(X)                                                                                \
    X(zoo::ConstRvalueDeleted) X(zoo::NonConstLvalueDeleted) X(zoo::ConstRvalueAssignDeleted) X(zoo::ConstRvalueDeleted const) \
    X(zoo::AggOfExplicit) X(zoo::AggOfAggOfExplicit) X(zoo::AggOfExplicit volatile) X(zoo::ExplicitDefault[2])     \
    X(zoo::AggOfExplicit[2]) X(zoo::AggOfExplicit const)                                                  \
    X(__int128) X(unsigned __int128 const) X(std::nullptr_t volatile)                                     \
    X(zoo::UnscopedBool) X(zoo::UnscopedChar) X(zoo::UnscopedNeg) X(zoo::ScopedNeg) X(zoo::ScopedC16 const) \
    X(int (zoo::Agg::*)(int, ...) const volatile&& noexcept) X(int zoo::Incomplete::*)                    \
    X(zoo::Agg const volatile&&) X(int (&&)[]) X(void (zoo::Agg::*&&)() const)                            \
    X(int const[2][3]) X(zoo::PrivateDtor[2]) X(zoo::Immovable[2]) X(zoo::NoSwap[2]) X(int[][2][3])       \
    X(void() volatile&&) X(int&()) X(void(zoo::Incomplete))                                               \
    X(zoo::Diamond) X(zoo::VDiamond) X(zoo::DerivedProt) X(zoo::EmptySameFirst) X(zoo::Over)              \
    X(zoo::TailPad) X(zoo::BitFull) X(zoo::AggNSDMI) X(zoo::CondExplicit<int>) X(zoo::CondExplicit<char>) \
    X(zoo::FromAny) X(zoo::NonConstCopy) X(zoo::VolatileCopy) X(zoo::RefQualAssign) X(zoo::ConstAssign)   \
    X(zoo::DtorNoexceptExpr) X(zoo::ThrowDtorMember) X(zoo::DeletedDtorMember) X(zoo::ToIntNonConst)      \
    X(zoo::ToIntRvalue) X(zoo::ToAny) X(zoo::EqNonBool) X(zoo::EqNonConst) X(zoo::EqExplicitBool)         \
    X(zoo::GenericFunctor) X(zoo::RefQualFunctor) X(zoo::ThrowingAdlSwap) X(zoo::MemberSwapOnly)          \
    X(zoo::UnionDeleted) X(zoo::UnionWithCtor) X(zoo::LambdaGeneric) X(zoo::LambdaMutable)                \
    X(zoo::NonTrivial volatile) X(zoo::UnionNonTriv const)

#define C15_ZOO_R2_EXT(X)                                                                                 \
    X(unsigned __int128) X(__int128 const volatile) X(__int128*) X(__int128&) X(__int128[2])              \
    X(std::nullptr_t const volatile) X(std::nullptr_t&&) X(std::nullptr_t const&) X(std::nullptr_t[2])    \
    X(std::nullptr_t*) X(bool&) X(long double&&) X(bool[2]) X(long double[2]) X(char8_t*) X(wchar_t const&) \
    X(zoo::UnscopedBig) X(zoo::UnscopedEmpty) X(zoo::ScopedU64) X(zoo::Opaque) X(zoo::ScopedC16)          \
    X(zoo::UnscopedBool const) X(zoo::UnscopedChar volatile) X(zoo::UnscopedNeg const volatile)           \
    X(zoo::ScopedNeg const) X(zoo::ScopedU64 volatile) X(zoo::Opaque const volatile) X(zoo::UnscopedBig const) \
    X(zoo::ScopedBool const) X(zoo::ScopedLL volatile) X(zoo::UnscopedU8 const volatile)                  \
    X(zoo::UnscopedNeg&) X(zoo::ScopedNeg*) X(zoo::Scoped[]) X(zoo::UnscopedBool[2])                      \
    X(void volatile*) X(int***) X(zoo::Incomplete**) X(int (*)[2][3]) X(void (*)(...) noexcept)           \
    X(int (* const volatile)(int)) X(void (zoo::Incomplete::*)()) X(int zoo::UnionTriv::*)                \
    X(void (zoo::UnionTriv::*)()) X(int zoo::Agg::* volatile) X(int zoo::Agg::* const volatile)           \
    X(void (zoo::Agg::*)() volatile&) X(void (zoo::Agg::*)() const volatile&& noexcept)                   \
    X(void (zoo::Agg::*)(...) noexcept) X(void (zoo::Agg::* const volatile)() &) X(zoo::Agg* zoo::Agg::*) \
    X(void (*zoo::Agg::*)()) X(int (zoo::Diamond::*)(int))                                                \
    X(int const (&&)[2][3]) X(zoo::Agg volatile&) X(zoo::UnionTriv&) X(zoo::Lambda&) X(zoo::Scoped const&) \
    X(void*&) X(void* const&) X(int zoo::Agg::* const&) X(int (&)(int, ...)) X(void (* const&)())         \
    X(zoo::PrivateDtor&) X(zoo::Immovable&&) X(zoo::Abstract&&) X(zoo::Incomplete const&) X(zoo::Incomplete&&) \
    X(zoo::NonTrivial&) X(zoo::NonTrivial&&) X(zoo::ThrowDtor&) X(zoo::Poly const&)                       \
    X(int[1][1]) X(zoo::Agg[2][3]) X(zoo::Abstract* [2]) X(zoo::ProtectedDtor[2]) X(zoo::UnionTriv[2])    \
    X(zoo::Lambda[2]) X(int* const[2]) X(int (*[2])[3]) X(void (*[])()) X(zoo::Agg volatile[2])           \
    X(zoo::Incomplete* [2]) X(zoo::AdlSwap[2]) X(zoo::ExplicitCopy[2]) X(zoo::CopyOnly[2])                \
    X(zoo::ThrowCopy[2]) X(zoo::ThrowMove[3]) X(zoo::NothrowAll[2]) X(zoo::Poly[2]) X(zoo::NoAssign[2])   \
    X(zoo::ConstMember[2]) X(zoo::UnionNonTriv[2]) X(zoo::ThrowingAdlSwap[2]) X(zoo::Immovable[2][2])     \
    X(zoo::ThrowDtor[]) X(zoo::PrivateDtor[]) X(zoo::ThrowDtor[2][2]) X(zoo::Over[2])                     \
    X(void() volatile&) X(void() const volatile& noexcept) X(int(int, ...) const) X(void(...) noexcept)   \
    X(zoo::Agg()) X(zoo::Abstract&(zoo::Incomplete&)) X(void(int[3])) X(void(void())) X(void (*())())     \
    X(int (&(int))[3]) X(void(int) &&) X(int(...) volatile)                                               \
    X(zoo::Left) X(zoo::VLeft) X(zoo::TwoBases) X(zoo::EmptyBaseMember) X(zoo::FinalVDtor)                \
    X(zoo::ArrMember) X(zoo::WithBool) X(zoo::WithPtr) X(zoo::WithLongDouble) X(zoo::AggOfNonTrivial)     \
    X(zoo::CondExplicit<long>) X(zoo::FromArith) X(zoo::FromTwoInts) X(zoo::ExplicitFromTwo)              \
    X(zoo::FromInitPtr) X(zoo::DefaultedAll) X(zoo::ProtectedCtor) X(zoo::PrivateCopy)                    \
    X(zoo::DeletedMoveAssign) X(zoo::AssignFromInt) X(zoo::AssignReturnsVoid) X(zoo::ThrowDtorBase)       \
    X(zoo::VirtualPrivateDtor) X(zoo::ToIntLvalue) X(zoo::ToIntRef) X(zoo::ToBasePtr) X(zoo::ToFnPtr)     \
    X(zoo::ToAggRef) X(zoo::ExplicitToInt) X(zoo::AmbiguousToNumber) X(zoo::EqWithInt) X(zoo::EqDeleted)  \
    X(zoo::BoolLikeNoNot) X(zoo::MutableFunctor) X(zoo::DeletedCall) X(zoo::OverloadFunctor)              \
    X(zoo::VariadicFunctor) X(zoo::DefaultArgFunctor) X(zoo::ReturnsImmovable) X(zoo::ReturnsRef)         \
    X(zoo::ReturnsBoolLike) X(zoo::TakesRef) X(zoo::TakesRvalueRef) X(zoo::TakesMoveOnly) X(zoo::PrivateCall) \
    X(zoo::SwapWithInt) X(zoo::OverloadedAddr) X(zoo::UnionConstMember) X(zoo::UnionOfArrays)             \
    X(zoo::LambdaNoexcept) X(zoo::LambdaRefRet)                                                           \
    X(zoo::MoveOnly volatile) X(zoo::Lambda const) X(zoo::Abstract volatile) X(zoo::PolyFinal const)      \
    X(zoo::DeletedDtor const) X(zoo::ThrowDtor const) X(zoo::Diamond const) X(zoo::Over const volatile)   \
    X(zoo::UnionDeleted const) X(zoo::NonConstCopy const) X(zoo::VolatileCopy volatile)                   \
    X(zoo::ToIntNonConst const) X(zoo::RefQualFunctor const) X(zoo::ConstAssign const)                    \
    X(zoo::Diamond*) X(zoo::Left*) X(zoo::VDiamond&) X(zoo::DerivedProt*) X(zoo::DerivedPriv&)
// clang-format on

#define C15_X_NAME(...)                                                                                             \
    template <>                                                                                                        \
    struct tname<__VA_ARGS__> {                                                                                        \
        static constexpr char const* value = #__VA_ARGS__;                                                             \
    };
C15_ZOO_CORE(C15_X_NAME)
C15_ZOO_EXT(C15_X_NAME)
C15_ZOO_R2_CORE(C15_X_NAME)
C15_ZOO_R2_EXT(C15_X_NAME)
#undef C15_X_NAME

#define C15_X_LIST(...) , __VA_ARGS__
using zoo_core    = typename tl_tail<tl<drop_me C15_ZOO_CORE(C15_X_LIST)>>::type;
using zoo_ext     = typename tl_tail<tl<drop_me C15_ZOO_EXT(C15_X_LIST)>>::type;
using zoo_full    = tl_cat_t<zoo_core, zoo_ext>;
using zoo_r2_core = typename tl_tail<tl<drop_me C15_ZOO_R2_CORE(C15_X_LIST)>>::type;
using zoo_r2_ext  = typename tl_tail<tl<drop_me C15_ZOO_R2_EXT(C15_X_LIST)>>::type;
using zoo_r2_full = tl_cat_t<zoo_r2_core, zoo_r2_ext>;
#undef C15_X_LIST

// C15_R2_ZOO selects the round-2 zoo (separate translation units, so that the first zoo's units keep
// their compile time): with C15_QUICK_ZOO its core part only.
#if defined(C15_R2_ZOO) && defined(C15_QUICK_ZOO)
using zoo_t = zoo_r2_core;
    #define C15_JOB(NAME) NAME "/zoo2"
#elif defined(C15_R2_ZOO)
using zoo_t = zoo_r2_full;
    #define C15_JOB(NAME) NAME "/zoo2"
#elif defined(C15_QUICK_ZOO) && defined(C15_ADD_R2)
using zoo_t = tl_cat_t<zoo_core, zoo_r2_core>; // one unit for both quick zoos (cheap column sets only)
    #define C15_JOB(NAME) NAME
#elif defined(C15_QUICK_ZOO)
using zoo_t = zoo_core;
    #define C15_JOB(NAME) NAME
#else
using zoo_t = zoo_full;
    #define C15_JOB(NAME) NAME
#endif

// ---------------------------------------------------------------------------------------
// class of a case: the type category of each argument, computed with std only
// ---------------------------------------------------------------------------------------
/// __int128 / unsigned __int128 (cv-qualified or not).  libstdc++ 12 in strict -std=c++2b mode does not treat
/// them as integer types (is_integral, is_arithmetic, is_scalar, is_fundamental are false, is_compound is true,
/// make_signed and numeric_limits do not know them), which contradicts [basic.fundamental]: in those columns the
/// ORACLE is wrong and the cells are skipped (`int128_quirk`).  Everything else (is_object, cv, transformations,
/// class properties, operations) is well defined by the oracle and compared.
template <typename T>
inline constexpr bool is_int128 = std::is_same_v<std::remove_cv_t<T>, __int128> || std::is_same_v<std::remove_cv_t<T>, unsigned __int128>;
template <typename T>
inline constexpr bool int128_quirk = is_int128<T>;

template <typename T>
constexpr char const* cat()
{
    constexpr bool cv = std::is_const_v<T> || std::is_volatile_v<T>;
    // clang-format off
    if constexpr (std::is_void_v<T>) { return cv ? "void+cv" : "void"; }
    else if constexpr (is_int128<T>) { return cv ? "extended_integer+cv" : "extended_integer"; }
    else if constexpr (std::is_null_pointer_v<T>) { return cv ? "nullptr_t+cv" : "nullptr_t"; }
    else if constexpr (std::is_same_v<std::remove_cv_t<T>, bool>) { return cv ? "bool+cv" : "bool"; }
    else if constexpr (std::is_integral_v<T> && !std::is_same_v<std::remove_cv_t<T>, char> && (std::is_same_v<std::remove_cv_t<T>, wchar_t> || std::is_same_v<std::remove_cv_t<T>, char8_t> || std::is_same_v<std::remove_cv_t<T>, char16_t> || std::is_same_v<std::remove_cv_t<T>, char32_t>)) { return cv ? "wide_char+cv" : "wide_char"; }
    else if constexpr (std::is_same_v<std::remove_cv_t<T>, char>) { return cv ? "char+cv" : "char"; }
    else if constexpr (std::is_integral_v<T>) { return cv ? "integer+cv" : "integer"; }
    else if constexpr (std::is_floating_point_v<T>) { return cv ? "floating+cv" : "floating"; }
    else if constexpr (std::is_enum_v<T>) { return cv ? "enum+cv" : "enum"; }
    else if constexpr (std::is_pointer_v<T>) {
        if constexpr (std::is_function_v<std::remove_pointer_t<T>>) { return cv ? "function_pointer+cv" : "function_pointer"; }
        else { return cv ? "pointer+cv" : "pointer"; }
    }
    else if constexpr (std::is_member_object_pointer_v<T>) { return cv ? "member_object_pointer+cv" : "member_object_pointer"; }
    else if constexpr (std::is_member_function_pointer_v<T>) { return cv ? "member_function_pointer+cv" : "member_function_pointer"; }
    else if constexpr (std::is_lvalue_reference_v<T>) {
        using U = std::remove_reference_t<T>;
        if constexpr (std::is_function_v<U>) { return "lref_to_function"; }
        else if constexpr (std::is_array_v<U>) { return "lref_to_array"; }
        else if constexpr (std::is_class_v<U> || std::is_union_v<U>) { return std::is_const_v<U> ? "lref_to_const_class" : "lref_to_class"; }
        else { return std::is_const_v<U> ? "lref_to_const_scalar" : "lref_to_scalar"; }
    }
    else if constexpr (std::is_rvalue_reference_v<T>) {
        using U = std::remove_reference_t<T>;
        if constexpr (std::is_function_v<U>) { return "rref_to_function"; }
        else if constexpr (std::is_array_v<U>) { return "rref_to_array"; }
        else if constexpr (std::is_class_v<U> || std::is_union_v<U>) { return "rref_to_class"; }
        else { return "rref_to_scalar"; }
    }
    else if constexpr (std::is_unbounded_array_v<T>) { return "unbounded_array"; }
    else if constexpr (std::is_array_v<T>) {
        using U = std::remove_all_extents_t<T>;
        if constexpr (std::is_class_v<U> || std::is_union_v<U>) { return "array_of_class"; }
        else { return "array_of_scalar"; }
    }
    else if constexpr (std::is_function_v<T>) { return "function"; }   // refined by cat2
    else if constexpr (std::is_union_v<T>) { return cv ? "union+cv" : "union"; }
    else if constexpr (std::is_same_v<std::remove_cv_t<T>, zoo::Incomplete>) { return "class_incomplete"; }
    else if constexpr (std::is_class_v<T>) {
        if constexpr (std::is_abstract_v<T>) { return cv ? "class_abstract+cv" : "class_abstract"; }
        else if constexpr (std::is_final_v<T>) { return cv ? "class_final+cv" : "class_final"; }
        else if constexpr (std::is_polymorphic_v<T>) { return cv ? "class_polymorphic+cv" : "class_polymorphic"; }
        else if constexpr (std::is_trivial_v<T> && std::is_trivially_destructible_v<T>) { return cv ? "class_trivial+cv" : "class_trivial"; }
        else if constexpr (!std::is_destructible_v<T>) { return cv ? "class_not_destructible+cv" : "class_not_destructible"; }
        else { return cv ? "class_nontrivial+cv" : "class_nontrivial"; }
    }
    else { return "other"; }
    // clang-format on
}

// A function type that carries cv or ref qualifiers ("abominable") is recognised by probing
// whether a pointer to it can be formed.
template <typename T>
concept can_point_to = requires { typename std::type_identity<T*>::type; };

template <typename T>
constexpr char const* cat2()
{
    if constexpr (std::is_function_v<T>) {
        if constexpr (can_point_to<T>) {
            return "function";
        } else {
            return "function+cvref_qualified";
        }
    } else {
        return cat<T>();
    }
}

/// coarse category (classes of n-ary cases)
template <typename T>
constexpr char const* coarse()
{
    // clang-format off
    if constexpr (std::is_void_v<T>) { return "void"; }
    else if constexpr (std::is_arithmetic_v<T> || std::is_enum_v<T>) { return "arith"; }
    else if constexpr (std::is_pointer_v<T> || std::is_null_pointer_v<T> || std::is_member_pointer_v<T>) { return "ptr"; }
    else if constexpr (std::is_lvalue_reference_v<T>) { return "lref"; }
    else if constexpr (std::is_rvalue_reference_v<T>) { return "rref"; }
    else if constexpr (std::is_array_v<T>) { return "array"; }
    else if constexpr (std::is_function_v<T>) { return "function"; }
    else { return "class"; }
    // clang-format on
}
template <typename T, typename...>
struct first_of {
    using type = T;
};

constexpr bool str_eq(char const* a, char const* b)
{
    while (*a != 0 && *a == *b) {
        ++a;
        ++b;
    }
    return *a == *b;
}
template <typename T, typename... U>
constexpr bool all_same()
{
    return (std::is_same_v<T, U> && ...);
}
template <typename T, typename...>
constexpr bool first_decays()
{
    if constexpr (std::is_reference_v<T> || std::is_void_v<T>) {
        return false;
    } else if constexpr (std::is_function_v<T>) {
        return true;
    } else {
        return !std::is_same_v<std::decay_t<T>, T>;
    }
}
/// Root-cause classes of facilities known to be stubs (computed from the case, not the result):
///  * is_trivially_constructible<T, Args...> never looks at Args (DESIGN 6.3 #27), and
///    is_trivially_copy/move_constructible<T> are built on it: every case with an argument;
///  * common_reference<T, U> is implemented for T == U only, as T itself (std applies the
///    conditional-operator / common_type rules: cv-qualified scalars, arrays and functions decay);
///    common_reference_with needs it
///    for T != U, and common_with needs common_reference_t<C&, T const&> for every T, U.
constexpr char const* root_cause_class(char const* trait, std::size_t arity, bool same, bool first_decays)
{
    if (str_eq(trait, "is_trivially_constructible") && arity >= 2) { return "args_ignored"; }
    if (str_eq(trait, "is_trivially_copy_constructible") || str_eq(trait, "is_trivially_move_constructible")) { return "args_ignored"; }
    if ((str_eq(trait, "common_reference") || str_eq(trait, "common_reference_with")) && arity >= 2 && !same) { return "types_differ"; }
    if ((str_eq(trait, "common_reference") || str_eq(trait, "common_reference_with")) && arity >= 2 && same && first_decays) { return "same_type_needing_decay"; }
    if (str_eq(trait, "common_with")) { return "needs_common_reference_of_distinct_types"; }
    return nullptr;
}

template <typename T, typename U>
constexpr bool lacks_common_reference()
{
    if constexpr (requires {
                      typename std::type_identity<std::remove_reference_t<T> const&>::type;
                      typename std::type_identity<std::remove_reference_t<U> const&>::type;
                  }) {
        return !std::common_reference_with<std::remove_reference_t<T> const&, std::remove_reference_t<U> const&>;
    } else {
        return true;
    }
}

/// the core type is the incomplete class (most std traits have a completeness precondition)
template <typename T>
inline constexpr bool incomplete_core
    = std::is_same_v<std::remove_cv_t<std::remove_all_extents_t<std::remove_reference_t<T>>>, zoo::Incomplete>;

// ---------------------------------------------------------------------------------------
// cells and columns
// ---------------------------------------------------------------------------------------
using ShowFn = std::string (*)();

struct Cell {
    char const* trait{""};    // "is_empty"
    char const* form{""};     // "<T>::value", "_v<T>", "<T>::type", "_t<T>", "<T> (concept)", ...
    char const* types[4]{nullptr, nullptr, nullptr, nullptr};
    char const* cls[4]{nullptr, nullptr, nullptr, nullptr};
    int state{0};             // 1 compared, 0 skipped (std precondition), -1 excluded (etl ill-formed, see probes)
    long long e{0}, s{0};     // etl / std value (type-valued results: see type_code_*)
    unsigned long long e2{0}, s2{0}; // second word (den of a ratio, high bits of a long double)
    bool nt{false};           // non-trivial by the trait's rule
    bool expect_const{false}; // identity checks: the std value is 1 for every case by construction
    ShowFn show{nullptr};     // optional: renders both results for the violation detail
};

template <typename Tr, typename... A>
constexpr Cell make_cell(tl<A...>)
{
    Cell c{};
    c.trait = Tr::name;
    c.form  = Tr::form;
    if constexpr (requires { Tr::constant_expected; }) { c.expect_const = true; }
    {
        char const* n[] = {tname<A>::value...};
        for (std::size_t i = 0; i < sizeof...(A) && i < 4; ++i) { c.types[i] = n[i]; }
        if constexpr (sizeof...(A) == 1) {
            c.cls[0] = (cat2<A>(), ...);
        } else {
            // n-ary cases: coarse category per argument, "same" for an argument equal to the first
            using First         = typename first_of<A...>::type;
            char const* k[]     = {coarse<A>()...};
            bool const same[]   = {std::is_same_v<A, First>...};
            for (std::size_t i = 0; i < sizeof...(A) && i < 4; ++i) { c.cls[i] = (i != 0 && same[i]) ? "same" : k[i]; }
        }
        // facilities that are stubs get one root-cause class for the whole unimplemented argument class,
        // so that one defect is one (subject, class) key
        if (char const* rc = root_cause_class(Tr::name, sizeof...(A), all_same<A...>(), first_decays<A...>())) {
            c.cls[0] = rc;
            c.cls[1] = c.cls[2] = c.cls[3] = nullptr;
        }
        // etl::assignable_from leaves out std's `common_reference_with<LHS const&, RHS const&>` clause (commented out in
        // the header) because etl::common_reference is a stub (known finding): the operand pairs for which exactly
        // that clause decides get their own class, computed from the case with std only
        if constexpr (sizeof...(A) == 2 && str_eq(Tr::name, "assignable_from")) {
            if constexpr (Tr::template ok<A...>) {
                if (lacks_common_reference<A...>()) {
                    c.cls[0] = "operands_without_common_reference";
                    c.cls[1] = c.cls[2] = c.cls[3] = nullptr;
                }
            }
        }
        // n-ary facilities whose argument lists are long (construction from 2 / 3 arguments): class = category of the
        // target + arity, so that one root cause is a handful of (subject, class) keys
        if constexpr (requires { Tr::class_is_target_and_arity; }) {
            c.cls[0] = coarse<typename first_of<A...>::type>();
            c.cls[1] = sizeof...(A) == 3 ? "two_arguments" : (sizeof...(A) == 4 ? "three_arguments" : "other_arity");
            c.cls[2] = c.cls[3] = nullptr;
        }
        // a facility may name its own argument classes (numeric_limits: the type; ratio: the value class)
        if constexpr (requires { Tr::template cls<typename first_of<A...>::type>(); }) {
            char const* own[] = {Tr::template cls<A>()...};
            for (std::size_t i = 0; i < sizeof...(A) && i < 4; ++i) { c.cls[i] = own[i]; }
        }
    }
    if constexpr (!Tr::template ok<A...>) {
        c.state = 0;
    } else if constexpr (Tr::template gap<A...>) {
        c.state = -1;
    } else {
        c.state = 1;
        c.e     = Tr::template e<A...>();
        c.s     = Tr::template s<A...>();
        c.show  = Tr::template show<A...>;
        c.nt    = Tr::template nontrivial<A...>(c.s);
        if constexpr (requires { Tr::template e2<A...>(); }) {
            c.e2 = Tr::template e2<A...>();
            c.s2 = Tr::template s2<A...>();
        }
    }
    return c;
}

template <typename Tr, typename... Cases>
constexpr auto make_column(tl<Cases...>)
{
    return std::array<Cell, sizeof...(Cases)>{make_cell<Tr>(Cases{})...};
}

/// the constexpr table of one trait over one case list
template <typename Tr, typename Cases>
inline constexpr auto column = make_column<Tr>(Cases{});

template <typename T>
std::string pretty()
{
    std::string s   = __PRETTY_FUNCTION__;
    auto const from = s.find("T = ");
    if (from == std::string::npos) { return s; }
    auto to = s.find("; std::string", from);
    if (to == std::string::npos) { to = s.rfind(']'); }
    return s.substr(from + 4, to - from - 4);
}

struct no_member_type { };
template <typename X>
struct member_type {
    using type = no_member_type;
};
template <typename X>
    requires requires { typename X::type; }
struct member_type<X> {
    using type = typename X::type;
};
template <typename X>
using member_type_t = typename member_type<X>::type;

template <typename E, typename S>
std::string show_two()
{
    auto one = []<typename X>(std::type_identity<X>) {
        if constexpr (std::is_same_v<X, no_member_type>) {
            return std::string("<no member type>");
        } else {
            return pretty<X>();
        }
    };
    return "etl: " + one(std::type_identity<E>{}) + "   std: " + one(std::type_identity<S>{});
}

/// Encoding of a type-valued result relative to the input type T, chosen so that the codes are
/// equal exactly when etl and std agree: 0 = no member `type`, 1 = the result is T itself,
/// 2 = the result is another type; the etl code is 3 when both exist but name different types.
template <typename T, typename S>
constexpr long long type_code_std()
{
    if constexpr (std::is_same_v<S, no_member_type>) {
        return 0;
    } else {
        return std::is_same_v<S, T> ? 1 : 2;
    }
}
template <typename T, typename E, typename S>
constexpr long long type_code_etl()
{
    if constexpr (std::is_same_v<E, no_member_type>) {
        return 0;
    } else if constexpr (std::is_same_v<S, no_member_type>) {
        return std::is_same_v<E, T> ? 1 : 2;
    } else {
        return std::is_same_v<E, S> ? type_code_std<T, S>() : 3;
    }
}

// ---------------------------------------------------------------------------------------
// run-time side: walk a table, count, compare, report
// ---------------------------------------------------------------------------------------
inline std::string case_text(Cell const& c)
{
    std::string s = "<";
    for (int i = 0; i < 4 && c.types[i] != nullptr; ++i) {
        if (i != 0) { s += ", "; }
        s += c.types[i];
    }
    s += ">";
    return s;
}
inline std::string class_text(Cell const& c)
{
    std::string s;
    for (int i = 0; i < 4 && c.cls[i] != nullptr; ++i) {
        if (i != 0) { s += ","; }
        s += c.cls[i];
    }
    return s;
}
inline std::string subject_text(Cell const& c)
{
    // form is a pattern in which '@' stands for the facility name
    std::string s;
    for (char const* p = c.form; *p != 0; ++p) {
        if (*p == '@') {
            s += c.trait;
        } else {
            s += *p;
        }
    }
    return s;
}

struct ColumnStats {
    std::uint64_t compared{0};
    std::uint64_t distinct_values{0};
};

inline void run_cells(mc::Reporter& r, Cell const* cells, std::size_t n)
{
    if (n == 0) { return; }
    std::string const subject = subject_text(cells[0]);
    if (!r.want(subject)) { return; }
    std::set<std::pair<long long, unsigned long long>> values;
    std::uint64_t compared = 0;
    for (std::size_t i = 0; i < n; ++i) {
        Cell const& c = cells[i];
        if (c.state == 0) {
            r.count("skipped_std_precondition");
            continue;
        }
        if (c.state < 0) {
            r.count("excluded_etl_ill_formed");
            continue;
        }
        ++compared;
        r.count("evaluations");
        values.insert({c.s, c.s2});
        r.outcome(mc::hash_mix(mc::hash_str(subject), mc::hash_mix(std::uint64_t(c.s), c.s2)));
        if (c.nt) { r.count("distinct_nontrivial"); }
        if (r.wants_sample() && c.nt && (i % 7 == 3)) {
            r.sample(subject + " " + case_text(c) + " -> etl " + std::to_string(c.e) + ", std " + std::to_string(c.s));
        }
        if (c.e != c.s || c.e2 != c.s2) {
            std::string d = "etl " + std::to_string(c.e) + " != std " + std::to_string(c.s);
            if (c.e2 != 0 || c.s2 != 0) { d += " (second word etl " + std::to_string(c.e2) + ", std " + std::to_string(c.s2) + ")"; }
            if (c.show != nullptr) { d += "; " + c.show(); }
            r.violation("C15", subject, class_text(c), subject + " with " + case_text(c), d);
        }
    }
    r.count("columns");
    if (compared != 0 && values.size() < 2 && !cells[0].expect_const) {
        r.count("constant_columns");
        r.note("constant column (std yields one value over the whole case list): " + subject);
    }
}

template <typename Cases, typename... Traits>
void run_columns(mc::Reporter& r)
{
    (run_cells(r, column<Traits, Cases>.data(), column<Traits, Cases>.size()), ...);
}


template <typename From, typename To>
concept can_static_cast = requires { static_cast<To>(std::declval<From>()); };

/// LWG 2116 (open): whether is_nothrow_constructible takes the destructor into account is not
/// settled and GCC's intrinsic answers differently for T and T[N]; types whose destructor may
/// throw are kept out of the nothrow-construction columns.
template <typename T>
constexpr bool lwg2116_f()
{
    if constexpr (incomplete_core<T> || std::is_reference_v<T>) {
        return false;
    } else {
        using X = std::remove_all_extents_t<T>;
        return std::is_destructible_v<X> && !std::is_nothrow_destructible_v<X>;
    }
}
template <typename T>
inline constexpr bool lwg2116 = lwg2116_f<T>();

// value trait, both spellings.  OK: std side well-formed with its precondition met;
// GAP: the etl side is a hard compile error for this T (covered by c15_probe.cpp).
#define C15_VALUE1(NAME, OK, GAP)                                                                                      \
    struct NAME##_S {                                                                                                  \
        static constexpr char const* name = #NAME;                                                                     \
        static constexpr char const* form = "@<T>::value";                                                             \
        template <typename T>                                                                                          \
        static constexpr bool ok = (OK);                                                                               \
        template <typename T>                                                                                          \
        static constexpr bool gap = (GAP);                                                                             \
        template <typename T>                                                                                          \
        static constexpr long long e()                                                                                 \
        {                                                                                                              \
            return static_cast<long long>(etl::NAME<T>::value);                                                        \
        }                                                                                                              \
        template <typename T>                                                                                          \
        static constexpr long long s()                                                                                 \
        {                                                                                                              \
            return static_cast<long long>(std::NAME<T>::value);                                                        \
        }                                                                                                              \
        template <typename T>                                                                                          \
        static constexpr ShowFn show = nullptr;                                                                        \
        template <typename T>                                                                                          \
        static constexpr bool nontrivial(long long sv)                                                                 \
        {                                                                                                              \
            return sv != 0;                                                                                            \
        }                                                                                                              \
    };                                                                                                                 \
    struct NAME##_V {                                                                                                  \
        static constexpr char const* name = #NAME;                                                                     \
        static constexpr char const* form = "@_v<T>";                                                                  \
        template <typename T>                                                                                          \
        static constexpr bool ok = (OK);                                                                               \
        template <typename T>                                                                                          \
        static constexpr bool gap = (GAP);                                                                             \
        template <typename T>                                                                                          \
        static constexpr long long e()                                                                                 \
        {                                                                                                              \
            return static_cast<long long>(etl::NAME##_v<T>);                                                           \
        }                                                                                                              \
        template <typename T>                                                                                          \
        static constexpr long long s()                                                                                 \
        {                                                                                                              \
            return static_cast<long long>(std::NAME##_v<T>);                                                           \
        }                                                                                                              \
        template <typename T>                                                                                          \
        static constexpr ShowFn show = nullptr;                                                                        \
        template <typename T>                                                                                          \
        static constexpr bool nontrivial(long long sv)                                                                 \
        {                                                                                                              \
            return sv != 0;                                                                                            \
        }                                                                                                              \
    };

#define C15_TYPE1(NAME, OK, GAP)                                                                                       \
    struct NAME##_T {                                                                                                  \
        static constexpr char const* name = #NAME;                                                                     \
        static constexpr char const* form = "@<T>::type";                                                              \
        template <typename T>                                                                                          \
        static constexpr bool ok = (OK);                                                                               \
        template <typename T>                                                                                          \
        static constexpr bool gap = (GAP);                                                                             \
        template <typename T>                                                                                          \
        static constexpr long long e()                                                                                 \
        {                                                                                                              \
            return type_code_etl<T, member_type_t<etl::NAME<T>>, member_type_t<std::NAME<T>>>();                         \
        }                                                                                                              \
        template <typename T>                                                                                          \
        static constexpr long long s()                                                                                 \
        {                                                                                                              \
            return type_code_std<T, member_type_t<std::NAME<T>>>();                                                      \
        }                                                                                                              \
        template <typename T>                                                                                          \
        static constexpr ShowFn show = &show_two<member_type_t<etl::NAME<T>>, member_type_t<std::NAME<T>>>;            \
        template <typename T>                                                                                          \
        static constexpr bool nontrivial(long long sv)                                                                 \
        {                                                                                                              \
            return sv == 2;                                                                                            \
        }                                                                                                              \
    };                                                                                                                 \
    template <typename T>                                                                                              \
    struct NAME##_etl_alias {                                                                                          \
    };                                                                                                                 \
    template <typename T>                                                                                              \
        requires requires { typename etl::NAME##_t<T>; }                                                               \
    struct NAME##_etl_alias<T> {                                                                                       \
        using type = etl::NAME##_t<T>;                                                                                 \
    };                                                                                                                 \
    template <typename T>                                                                                              \
    struct NAME##_std_alias {                                                                                          \
    };                                                                                                                 \
    template <typename T>                                                                                              \
        requires requires { typename std::NAME##_t<T>; }                                                               \
    struct NAME##_std_alias<T> {                                                                                       \
        using type = std::NAME##_t<T>;                                                                                 \
    };                                                                                                                 \
    struct NAME##_A {                                                                                                  \
        static constexpr char const* name = #NAME;                                                                     \
        static constexpr char const* form = "@_t<T>";                                                                  \
        template <typename T>                                                                                          \
        static constexpr bool ok = (OK);                                                                               \
        template <typename T>                                                                                          \
        static constexpr bool gap = (GAP);                                                                             \
        template <typename T>                                                                                          \
        static constexpr long long e()                                                                                 \
        {                                                                                                              \
            return type_code_etl<T, member_type_t<NAME##_etl_alias<T>>, member_type_t<NAME##_std_alias<T>>>();           \
        }                                                                                                              \
        template <typename T>                                                                                          \
        static constexpr long long s()                                                                                 \
        {                                                                                                              \
            return type_code_std<T, member_type_t<NAME##_std_alias<T>>>();                                               \
        }                                                                                                              \
        template <typename T>                                                                                          \
        static constexpr ShowFn show = &show_two<member_type_t<NAME##_etl_alias<T>>, member_type_t<NAME##_std_alias<T>>>; \
        template <typename T>                                                                                          \
        static constexpr bool nontrivial(long long sv)                                                                 \
        {                                                                                                              \
            return sv == 2;                                                                                            \
        }                                                                                                              \
    };


// the same for binary traits <T, U>.  OK: std side well-formed with its precondition met;
// GAP: the etl side is a hard compile error for this T (covered by c15_probe.cpp).
#define C15_VALUE2(NAME, OK, GAP)                                                                                      \
    struct NAME##_S2 {                                                                                                  \
        static constexpr char const* name = #NAME;                                                                     \
        static constexpr char const* form = "@<T,U>::value";                                                             \
        template <typename T, typename U>                                                                                          \
        static constexpr bool ok = (OK);                                                                               \
        template <typename T, typename U>                                                                                          \
        static constexpr bool gap = (GAP);                                                                             \
        template <typename T, typename U>                                                                                          \
        static constexpr long long e()                                                                                 \
        {                                                                                                              \
            return static_cast<long long>(etl::NAME<T, U>::value);                                                        \
        }                                                                                                              \
        template <typename T, typename U>                                                                                          \
        static constexpr long long s()                                                                                 \
        {                                                                                                              \
            return static_cast<long long>(std::NAME<T, U>::value);                                                        \
        }                                                                                                              \
        template <typename T, typename U>                                                                                          \
        static constexpr ShowFn show = nullptr;                                                                        \
        template <typename T, typename U>                                                                                          \
        static constexpr bool nontrivial(long long sv)                                                                 \
        {                                                                                                              \
            return sv != 0;                                                                                            \
        }                                                                                                              \
    };                                                                                                                 \
    struct NAME##_V2 {                                                                                                  \
        static constexpr char const* name = #NAME;                                                                     \
        static constexpr char const* form = "@_v<T,U>";                                                                  \
        template <typename T, typename U>                                                                                          \
        static constexpr bool ok = (OK);                                                                               \
        template <typename T, typename U>                                                                                          \
        static constexpr bool gap = (GAP);                                                                             \
        template <typename T, typename U>                                                                                          \
        static constexpr long long e()                                                                                 \
        {                                                                                                              \
            return static_cast<long long>(etl::NAME##_v<T, U>);                                                           \
        }                                                                                                              \
        template <typename T, typename U>                                                                                          \
        static constexpr long long s()                                                                                 \
        {                                                                                                              \
            return static_cast<long long>(std::NAME##_v<T, U>);                                                           \
        }                                                                                                              \
        template <typename T, typename U>                                                                                          \
        static constexpr ShowFn show = nullptr;                                                                        \
        template <typename T, typename U>                                                                                          \
        static constexpr bool nontrivial(long long sv)                                                                 \
        {                                                                                                              \
            return sv != 0;                                                                                            \
        }                                                                                                              \
    };

#define C15_TYPE2(NAME, OK, GAP)                                                                                       \
    struct NAME##_T2 {                                                                                                  \
        static constexpr char const* name = #NAME;                                                                     \
        static constexpr char const* form = "@<T,U>::type";                                                              \
        template <typename T, typename U>                                                                                          \
        static constexpr bool ok = (OK);                                                                               \
        template <typename T, typename U>                                                                                          \
        static constexpr bool gap = (GAP);                                                                             \
        template <typename T, typename U>                                                                                          \
        static constexpr long long e()                                                                                 \
        {                                                                                                              \
            return type_code_etl<T, member_type_t<etl::NAME<T, U>>, member_type_t<std::NAME<T, U>>>();                         \
        }                                                                                                              \
        template <typename T, typename U>                                                                                          \
        static constexpr long long s()                                                                                 \
        {                                                                                                              \
            return type_code_std<T, member_type_t<std::NAME<T, U>>>();                                                      \
        }                                                                                                              \
        template <typename T, typename U>                                                                                          \
        static constexpr ShowFn show = &show_two<member_type_t<etl::NAME<T, U>>, member_type_t<std::NAME<T, U>>>;            \
        template <typename T, typename U>                                                                                          \
        static constexpr bool nontrivial(long long sv)                                                                 \
        {                                                                                                              \
            return sv == 2;                                                                                            \
        }                                                                                                              \
    };                                                                                                                 \
    template <typename T, typename U>                                                                                              \
    struct NAME##_etl_alias2 {                                                                                          \
    };                                                                                                                 \
    template <typename T, typename U>                                                                                              \
        requires requires { typename etl::NAME##_t<T, U>; }                                                               \
    struct NAME##_etl_alias2<T, U> {                                                                                       \
        using type = etl::NAME##_t<T, U>;                                                                                 \
    };                                                                                                                 \
    template <typename T, typename U>                                                                                              \
    struct NAME##_std_alias2 {                                                                                          \
    };                                                                                                                 \
    template <typename T, typename U>                                                                                              \
        requires requires { typename std::NAME##_t<T, U>; }                                                               \
    struct NAME##_std_alias2<T, U> {                                                                                       \
        using type = std::NAME##_t<T, U>;                                                                                 \
    };                                                                                                                 \
    struct NAME##_A2 {                                                                                                  \
        static constexpr char const* name = #NAME;                                                                     \
        static constexpr char const* form = "@_t<T,U>";                                                                  \
        template <typename T, typename U>                                                                                          \
        static constexpr bool ok = (OK);                                                                               \
        template <typename T, typename U>                                                                                          \
        static constexpr bool gap = (GAP);                                                                             \
        template <typename T, typename U>                                                                                          \
        static constexpr long long e()                                                                                 \
        {                                                                                                              \
            return type_code_etl<T, member_type_t<NAME##_etl_alias2<T, U>>, member_type_t<NAME##_std_alias2<T, U>>>();           \
        }                                                                                                              \
        template <typename T, typename U>                                                                                          \
        static constexpr long long s()                                                                                 \
        {                                                                                                              \
            return type_code_std<T, member_type_t<NAME##_std_alias2<T, U>>>();                                               \
        }                                                                                                              \
        template <typename T, typename U>                                                                                          \
        static constexpr ShowFn show = &show_two<member_type_t<NAME##_etl_alias2<T, U>>, member_type_t<NAME##_std_alias2<T, U>>>; \
        template <typename T, typename U>                                                                                          \
        static constexpr bool nontrivial(long long sv)                                                                 \
        {                                                                                                              \
            return sv == 2;                                                                                            \
        }                                                                                                              \
    };


} // namespace c15
