// C20, pair / tuple whose elements OVERLAP: etl::pair and etl::tuple store their elements [[no_unique_address]], so a
// small element can live in the tail padding of the previous one (PadRec below: 5 bytes of data in 8, not a POD for
// layout purposes, so its padding is reusable).  Any operation on one element that touches sizeof(T) bytes - a bytewise
// swap, a memcpy assignment - then also moves the neighbour (added after seeded breakage c20_swap_bytewise_tail_padding:
// etl::swap got a run-time byte-copy path for trivially copyable types; pair::swap swapped `first` bytewise - taking
// `second` along - and then swapped `second` back).
// Enumerated: owners {pair<PadRec,char>, pair<PadRec,bool>, pair<char,PadRec>, tuple<PadRec,char>, tuple<PadRec,char,short>,
// tuple<PadRec,PadRec,char>, tuple<int,PadRec,bool>} x every pair of value assignments (two values per element) for the
// two operands x operations {member swap, ADL swap, etl::swap of the owners, swap of ONE element (get<I>) between the
// owners, copy assignment, move assignment, copy / move construction, assignment to ONE element through get<I>,
// converting assignment from the same owner with int in place of char where provided}; after each operation every
// element of both operands is compared with std::pair / std::tuple given the same operation.
#include "mc.hpp"

#include <etl/tuple.hpp>
#include <etl/utility.hpp>

#include <string>
#include <tuple>
#include <utility>

using mc::cat;

namespace {

struct PadRec {
    PadRec() { } // user-provided: not an aggregate / POD for layout, tail padding may be reused
    PadRec(int x) : i(x), c(static_cast<char>(x + 1)) { } // NOLINT
    int i{0};
    char c{0};
    friend bool operator==(PadRec const& a, PadRec const& b) { return a.i == b.i && a.c == b.c; }
};
static_assert(std::is_trivially_copyable_v<PadRec> && sizeof(PadRec) == 8);

inline int code(PadRec const& r) { return r.i * 256 + r.c; }
inline int code(char x) { return x; }
inline int code(bool x) { return x ? 1 : 0; }
inline int code(short x) { return x; }
inline int code(int x) { return x; }

template <typename T>
T value(int which, int slot)
{
    // two distinguishable values per element slot
    if constexpr (std::is_same_v<T, bool>) {
        return which == 0;
    } else {
        return T(10 * (slot + 1) + which * 3 + 1);
    }
}

template <typename Owner, std::size_t... I>
std::string show(Owner const& o, std::index_sequence<I...> /*q*/)
{
    std::string s = "(";
    using std::get;
    using etl::get;
    ((s += (I ? "," : "") + cat(code(get<I>(o)))), ...);
    return s + ")";
}

template <template <typename...> class Own, template <typename...> class EtlOwn, typename... Ts>
struct Kit {
    using O                        = Own<Ts...>;
    using EO                       = EtlOwn<Ts...>;
    static constexpr std::size_t N = sizeof...(Ts);
    using Seq                      = std::make_index_sequence<N>;

    template <std::size_t... I>
    static O build(unsigned mask, std::index_sequence<I...> /*q*/)
    {
        return O(value<Ts>(int((mask >> I) & 1U), int(I))...);
    }
    static O build(unsigned mask) { return build(mask, Seq{}); }

    // runs operation `op` on fresh operands and renders both afterwards
    static std::string run(int op, unsigned ma, unsigned mb)
    {
        using std::get;
        using etl::get;
        using std::swap;
        using etl::swap;
        O a = build(ma), b = build(mb);
        // tetl's tuple has no assignment operators and no free swap (API gaps): those operations are skipped for BOTH sides
        constexpr bool e_assign = requires(EO& x, EO& y) { x = y; };
        constexpr bool e_swap   = requires(EO& x, EO& y) { swap(x, y); };
        switch (op) {
        case 0: a.swap(b); break;
        case 1:
            if constexpr (e_swap) { swap(a, b); }
            break;
        case 2: {
            a.swap(b);
            a.swap(b);
            break;
        }
        case 3: swap(get<0>(a), get<0>(b)); break; // one element: the neighbours must stay
        case 4: swap(get<N - 1>(a), get<N - 1>(b)); break;
        case 5:
            if constexpr (e_assign) { a = b; }
            break;
        case 6:
            if constexpr (e_assign) { a = std::move(b); }
            break;
        case 7: {
            O c(b);
            a.swap(c);
            break;
        }
        case 8: {
            O c(std::move(b));
            a.swap(c);
            break;
        }
        case 9: get<0>(a) = get<0>(b); break; // assignment to one element
        case 10: get<N - 1>(a) = get<N - 1>(b); break;
        default: {
            auto tmp  = get<0>(a);
            get<0>(a) = get<0>(b);
            get<0>(b) = tmp;
            break;
        }
        }
        return cat("a=", show(a, Seq{}), " b=", show(b, Seq{}));
    }
};

constexpr char const* op_names[12] = {"a.swap(b)", "swap(a,b)", "a.swap(b) twice", "swap(get<0>(a),get<0>(b))", "swap(get<N-1>(a),get<N-1>(b))", "a = b", "a = move(b)",
    "c(b); a.swap(c)", "c(move(b)); a.swap(c)", "get<0>(a) = get<0>(b)", "get<N-1>(a) = get<N-1>(b)", "three-step exchange of get<0>"};
constexpr char const* op_subjects[12] = {"::swap(member)", ": swap(a,b)", "::swap(member)", ": swap of one element", ": swap of one element", "::operator=(const&)", "::operator=(&&)",
    ": copy construction", ": move construction", ": assignment to one element", ": assignment to one element", ": assignment to one element"};

template <template <typename...> class EOwn, template <typename...> class SOwn, typename... Ts>
void sweep(mc::Reporter& r, char const* name, std::uint64_t& ev)
{
    using EK = Kit<EOwn, EOwn, Ts...>;
    using SK = Kit<SOwn, EOwn, Ts...>;
    constexpr unsigned M = 1U << sizeof...(Ts);
    bool const overlaps  = sizeof(typename EK::O) < sizeof(typename SK::O);
    r.count(overlaps ? "owner_types_with_overlapping_elements" : "owner_types_without_overlap");
    for (int op = 0; op < 12; ++op) {
        for (unsigned ma = 0; ma < M; ++ma) {
            for (unsigned mb = 0; mb < M; ++mb) {
                std::string const e = EK::run(op, ma, mb);
                std::string const s = SK::run(op, ma, mb);
                ++ev;
                r.outcome(mc::hash_str(s));
                if (e != s) {
                    r.violation("C20", cat(name[0] == 'p' ? "pair" : "tuple", op_subjects[op]), overlaps ? "elements_share_tail_padding" : "general",
                        cat(name, " (sizeof etl ", sizeof(typename EK::O), ", std ", sizeof(typename SK::O), "): ", op_names[op], " with a=", show(EK::build(ma), typename EK::Seq{}), " b=", show(EK::build(mb), typename EK::Seq{})),
                        cat("tetl: ", e, " | std: ", s));
                }
            }
        }
    }
    r.sample(cat(name, ": 12 operations x every pair of value assignments; elements overlap in etl: ", overlaps));
}

// ---- elements with their OWN swap (added after seeded breakage c20_pair_swap_qualified_no_adl: pair::swap called
// etl::swap(first, other.first) qualified, which switches argument-dependent lookup off; for a proxy-reference element
// with assign-through semantics the generic three-move swap leaves both referenced slots with the same value).
// Enumerated: Cell (proxy to an int slot, hidden-friend swap that counts its calls) as first / second / both elements of
// pair and as every element position of tuple<Cell,int>, tuple<int,Cell>, tuple<Cell,Cell,int>; member swap and ADL swap of
// the owners; referenced slots and the number of calls of Cell's own swap against std::pair / std::tuple.
int g_cell_swaps = 0;
struct Cell {
    int* slot;
    explicit Cell(int* s) : slot(s) { }
    Cell(Cell const&) = default;
    Cell& operator=(Cell const& o) // assign-through, like bitset::reference
    {
        *slot = *o.slot;
        return *this;
    }
    friend void swap(Cell& a, Cell& b) noexcept
    {
        ++g_cell_swaps;
        int const t = *a.slot;
        *a.slot     = *b.slot;
        *b.slot     = t;
    }
};

template <template <typename...> class Own, int Shape>
std::string cell_run(bool member)
{
    using std::swap;
    using etl::swap;
    int s[4]     = {1, 2, 3, 4};
    g_cell_swaps = 0;
    auto do_swap = [&](auto& a, auto& b) {
        if constexpr (requires { swap(a, b); }) {
            member ? a.swap(b) : swap(a, b);
        } else {
            a.swap(b); // tetl's tuple has no free swap (API gap)
        }
    };
    if constexpr (Shape == 0) {
        Own<Cell, int> a{Cell{&s[0]}, 10}, b{Cell{&s[1]}, 20};
        do_swap(a, b);
    } else if constexpr (Shape == 1) {
        Own<int, Cell> a{10, Cell{&s[0]}}, b{20, Cell{&s[1]}};
        do_swap(a, b);
    } else if constexpr (Shape == 2) {
        Own<Cell, Cell> a{Cell{&s[0]}, Cell{&s[2]}}, b{Cell{&s[1]}, Cell{&s[3]}};
        do_swap(a, b);
    } else {
        Own<Cell, Cell, int> a{Cell{&s[0]}, Cell{&s[2]}, 10}, b{Cell{&s[1]}, Cell{&s[3]}, 20};
        do_swap(a, b);
    }
    return cat("slots (", s[0], ",", s[1], ",", s[2], ",", s[3], "), calls of Cell's swap: ", g_cell_swaps);
}

} // namespace

int main(int argc, char** argv)
{
    mc::Main m(argc, argv);
    m.job("padding/pair", {"quick", "thorough"}, [](mc::Reporter& r) {
        std::uint64_t ev = 0;
        sweep<etl::pair, std::pair, PadRec, char>(r, "pair<PadRec,char>", ev);
        sweep<etl::pair, std::pair, PadRec, bool>(r, "pair<PadRec,bool>", ev);
        sweep<etl::pair, std::pair, char, PadRec>(r, "pair<char,PadRec>", ev);
        sweep<etl::pair, std::pair, PadRec, PadRec>(r, "pair<PadRec,PadRec>", ev);
        r.count("evaluations", ev);
        r.count("distinct_nontrivial", ev);
    });
    m.job("padding/tuple", {"quick", "thorough"}, [](mc::Reporter& r) {
        std::uint64_t ev = 0;
        sweep<etl::tuple, std::tuple, PadRec, char>(r, "tuple<PadRec,char>", ev);
        sweep<etl::tuple, std::tuple, PadRec, char, short>(r, "tuple<PadRec,char,short>", ev);
        sweep<etl::tuple, std::tuple, PadRec, PadRec, char>(r, "tuple<PadRec,PadRec,char>", ev);
        sweep<etl::tuple, std::tuple, int, PadRec, bool>(r, "tuple<int,PadRec,bool>", ev);
        r.count("evaluations", ev);
        r.count("distinct_nontrivial", ev);
    });
    m.job("padding/adl-swap-elements", {"quick", "thorough"}, [](mc::Reporter& r) {
        std::uint64_t ev = 0;
        auto check = [&](char const* owner, char const* shape, bool member, std::string const& e, std::string const& s) {
            ++ev;
            r.outcome(mc::hash_str(s));
            if (e != s) { r.violation("C20", cat(owner, member ? "::swap(member)" : ": swap(a,b)"), "element_with_its_own_swap", cat(owner, "<", shape, "> holding proxy cells: ", member ? "a.swap(b)" : "swap(a,b)"), cat("tetl: ", e, " | std: ", s)); }
        };
        for (bool member : {true, false}) {
            check("pair", "Cell,int", member, cell_run<etl::pair, 0>(member), cell_run<std::pair, 0>(member));
            check("pair", "int,Cell", member, cell_run<etl::pair, 1>(member), cell_run<std::pair, 1>(member));
            check("pair", "Cell,Cell", member, cell_run<etl::pair, 2>(member), cell_run<std::pair, 2>(member));
            check("tuple", "Cell,int", member, cell_run<etl::tuple, 0>(true), cell_run<std::tuple, 0>(true));
            check("tuple", "int,Cell", member, cell_run<etl::tuple, 1>(true), cell_run<std::tuple, 1>(true));
            check("tuple", "Cell,Cell,int", member, cell_run<etl::tuple, 3>(true), cell_run<std::tuple, 3>(true));
        }
        r.sample("pair / tuple whose elements are proxy cells with a hidden-friend swap: referenced slots and number of calls of that swap");
        r.count("evaluations", ev);
        r.count("distinct_nontrivial", ev);
    });
    return m.run();
}
