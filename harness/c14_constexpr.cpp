// C14 round 2: the same functions evaluated BY THE COMPILER (constant evaluation) and compared,
// inside that evaluation, with closed-form references - on the complete domain of the 8-bit
// types (all values; all pairs for binary functions; u8 x every rotation count), on all values
// of the 16-bit types for unary functions, and on constexpr grids for 32/64-bit types (unary:
// the runs-of-ones grid, about 1500 / 6000 values; binary: a 35-45 value edge grid squared).
//
// Why: tetl's functions are constexpr and several take another path during constant evaluation
// (popcount: `if (not is_constant_evaluated())` selects the builtin at run time and the portable
// loop in constant evaluation).  The run-time sweeps (c14_bit/numeric/cmp.cpp) cannot see that
// path; this file sees only that path.  Together with them: constant evaluation == definition ==
// run time on the 8-bit full domain.
//
// A kernel is a struct with index axes and dom/call/ref/nt; `run_rows` walks a block of rows in
// one constant evaluation (<= 16384 cells, far below -fconstexpr-ops-limit) and returns counters
// plus the first mismatching cell.  Whether a block IS a constant expression is decided by a
// requires-expression, so undefined behaviour or a non-terminating loop inside tetl during constant
// evaluation becomes one reported cell (found by bisection), never a build failure.
//
// MC_PART=1: <bit> functions, byteswap, byte order.  MC_PART=2: saturation, midpoint, gcd, lcm, abs,
// idiv, ipow, ilog2 for i8 (all pairs) and the signed 32/64-bit types.  MC_PART=3 (thorough): the
// same for u8 and the unsigned types, mixed-type gcd/lcm.  MC_PART=4 and 6 (thorough): cmp_*.
// MC_PART=5 (thorough): in_range, saturate_cast.
// (The constant evaluator of g++ 12 needs about 10-20 us and 1 KB per cell: a translation unit
// holds about 1.2 million cells.)
#include "c14_common.hpp"

#include <etl/bit.hpp>
#include <etl/cmath.hpp>
#include <etl/experimental/net/byte_order.hpp>
#include <etl/numeric.hpp>
#include <etl/utility.hpp>

#include <array>

#ifndef MC_PART
    #define MC_PART 1
#endif

using namespace c14;
using mc::cat;

namespace {

using ll  = long long;
using ull = unsigned long long;

// ---------------------------------------------------------------------------------------
// axes (index -> value), all constexpr
// ---------------------------------------------------------------------------------------

/// every value of an 8- or 16-bit type
template <typename T>
struct All {
    static_assert(sizeof(T) <= 2);
    static constexpr int N = sizeof(T) == 1 ? 256 : 65536;
    static constexpr V at(int i) { return min_v<T> + i; }
};

struct One {
    static constexpr int N = 1;
    static constexpr V at(int) { return 0; }
};

template <int Lo, int Hi>
struct Range {
    static constexpr int N = Hi - Lo + 1;
    static constexpr V at(int i) { return Lo + i; }
};

template <std::size_t Cap>
struct Buf {
    std::array<std::uint64_t, Cap> v{};
    int n{0};
    constexpr void add(std::uint64_t x) { v[std::size_t(n++)] = x; }
};

/// RunGrid-of-ones grid of a 32/64-bit type, duplicate-free by construction (see the comments):
/// with r(j,k) = 2^k - 2^j (bits j..k-1 set)
template <typename T>
constexpr auto make_runs()
{
    using U         = std::make_unsigned_t<T>;
    constexpr int W = width_v<T>;
    Buf<3 * W * (W + 1) / 2 + W + 16> b;
    auto r = [](int j, int k) { return std::uint64_t(U((u128(1) << k) - (u128(1) << j))); };
    b.add(0);
    for (int k = 1; k <= W; ++k) {
        for (int j = 0; j < k; ++j) { b.add(r(j, k)); } // one run (single bits, all-ones-below, high runs = -2^j)
    }
    for (int j = 1; j < W; ++j) {
        for (int k = j + 1; k < W; ++k) { b.add(std::uint64_t(U(~U(r(j, k))))); } // a low run and a high run
    }
    for (int j = 1; j < W; ++j) {
        for (int k = j + 2; k < W; ++k) { b.add(std::uint64_t(U(U(0) - U(r(j, k))))); } // bit j and a high run: -(2^k - 2^j)
    }
    for (int k = 2; k <= W - 2; ++k) { b.add(std::uint64_t(U((u128(1) << k) + 1))); } // 2^k + 1
    for (std::uint64_t p : {0x5555555555555555ULL, 0xAAAAAAAAAAAAAAAAULL, 0x3333333333333333ULL, 0x0F0F0F0F0F0F0F0FULL, 0x0123456789ABCDEFULL,
             0xDEADBEEFCAFEBABEULL}) {
        b.add(std::uint64_t(U(p)));
    }
    return b;
}

template <typename T>
struct RunGrid {
    static constexpr auto buf = make_runs<T>();
    static constexpr int N    = buf.n;
    static constexpr V at(int i) { return V(T(std::make_unsigned_t<T>(buf.v[std::size_t(i)]))); }
};

/// edge grid of a 32/64-bit type for binary functions (35-45 values, duplicate-free)
template <typename T>
constexpr auto make_edges()
{
    using U         = std::make_unsigned_t<T>;
    constexpr int W = width_v<T>;
    Buf<96> b;
    auto add = [&](V x) {
        if (x < min_v<T> || x > max_v<T>) { return; }
        auto const u = std::uint64_t(U(T(x)));
        for (int i = 0; i < b.n; ++i) {
            if (b.v[std::size_t(i)] == u) { return; }
        }
        b.add(u);
    };
    for (V x : {0, 1, 2, 3, 5, 7, 10, 12, 100}) {
        add(x);
        add(-x);
    }
    for (V d = 0; d <= 2; ++d) {
        add(max_v<T> - d);
        add(min_v<T> + d);
    }
    for (int k : {W / 2 - 1, W / 2, W - 2, W - 1}) {
        V const p = V(1) << k;
        for (V d = -1; d <= 1; ++d) {
            add(p + d);
            add(-(p + d));
        }
    }
    add(max_v<T> / 2);
    add(max_v<T> / 3);
    add(V(0x5555555555555555ULL & std::uint64_t(max_v<T>)));
    return b;
}

template <typename T>
struct EdgeGrid {
    static constexpr auto buf = make_edges<T>();
    static constexpr int N    = buf.n;
    static constexpr V at(int i) { return V(T(std::make_unsigned_t<T>(buf.v[std::size_t(i)]))); }
};

/// the axis used for a type: all values up to 16 bits; above, Wide<T> (runs for unary, edges for binary)
template <typename T, template <typename> class Wide>
using Axis = std::conditional_t<(sizeof(T) <= 2), All<std::conditional_t<(sizeof(T) <= 2), T, u8>>, Wide<T>>;

/// rotation counts: [-130,130], +-2^k and neighbours for k in {8,15,16,30,31}, 9 values at each limit of int
constexpr auto make_counts()
{
    Buf<512> b; // holds the counts biased by 2^31
    auto add = [&](V s) {
        if (s < min_v<int> || s > max_v<int>) { return; }
        auto const u = std::uint64_t(s - min_v<int>);
        for (int i = 0; i < b.n; ++i) {
            if (b.v[std::size_t(i)] == u) { return; }
        }
        b.add(u);
    };
    for (V s = -130; s <= 130; ++s) { add(s); }
    for (int k : {8, 15, 16, 30, 31}) {
        V const p = V(1) << k;
        for (V d : {-1, 0, 1}) {
            add(p + d);
            add(-(p + d));
        }
    }
    for (V d = 0; d <= 8; ++d) {
        add(max_v<int> - d);
        add(min_v<int> + d);
    }
    return b;
}
struct Counts {
    static constexpr auto buf = make_counts();
    static constexpr int N    = buf.n;
    static constexpr V at(int i) { return V(buf.v[std::size_t(i)]) + min_v<int>; }
};

// ---------------------------------------------------------------------------------------
// closed-form references (constexpr, mathematical integers)
// ---------------------------------------------------------------------------------------

template <typename T>
constexpr u128 ubits(V x) // the bit pattern of x in T, as a non-negative number
{
    return u128(std::make_unsigned_t<T>(T(x)));
}
template <typename T>
constexpr V from_bits(u128 b) // the value of T with that bit pattern
{
    return V(T(std::make_unsigned_t<T>(b)));
}
template <typename T>
constexpr int c_popcount(V x)
{
    int n = 0;
    for (int i = 0; i < width_v<T>; ++i) { n += int((ubits<T>(x) >> i) & 1U); }
    return n;
}
template <typename T>
constexpr int c_countl(V x, unsigned bit)
{
    int n = 0;
    for (int i = width_v<T> - 1; i >= 0 && ((ubits<T>(x) >> i) & 1U) == bit; --i) { ++n; }
    return n;
}
template <typename T>
constexpr int c_countr(V x, unsigned bit)
{
    int n = 0;
    for (int i = 0; i < width_v<T> && ((ubits<T>(x) >> i) & 1U) == bit; ++i) { ++n; }
    return n;
}
template <typename T>
constexpr V c_rotl(V x, V s)
{
    constexpr int W = width_v<T>;
    int const k     = int(((s % W) + W) % W);
    u128 const w    = ubits<T>(x);
    return from_bits<T>((w << k) | (w >> (W - k)));
}
template <typename T>
constexpr V c_byteswap(V x)
{
    u128 u = ubits<T>(x), o = 0;
    for (std::size_t i = 0; i < sizeof(T); ++i) {
        o = (o << 8) | (u & 0xFF);
        u >>= 8;
    }
    return from_bits<T>(o);
}
template <typename T>
constexpr V c_clamp(V v)
{
    return v < min_v<T> ? min_v<T> : (v > max_v<T> ? max_v<T> : v);
}
constexpr V c_abs(V v) { return v < 0 ? -v : v; }
constexpr V c_gcd(V a, V b)
{
    a = c_abs(a);
    b = c_abs(b);
    while (b != 0) {
        V const t = a % b;
        a         = b;
        b         = t;
    }
    return a;
}
constexpr V c_lcm(V a, V b) // |a|,|b| < 2^64: the product of the reduced factors fits 128 bits unsigned
{
    if (a == 0 || b == 0) { return 0; }
    u128 const l = u128(c_abs(a) / c_gcd(a, b)) * u128(c_abs(b));
    return l > u128(max_v<std::int64_t>) * 4 ? V(-1) : V(l); // -1: far outside every range (never in the domain)
}
template <typename T>
constexpr bool c_pow(V base, V exp, V& out) // false: some partial product leaves T (outside the domain)
{
    V r = 1;
    for (V i = 0; i < exp; ++i) {
        if (__builtin_mul_overflow(r, base, &r)) { return false; }
        if (r < min_v<T> || r > max_v<T>) { return false; }
    }
    out = r;
    return true;
}
template <typename T>
constexpr bool c_pow_ok(V base, V exp)
{
    V out = 0;
    return c_pow<T>(base, exp, out);
}
template <typename T>
constexpr V c_pow_or_0(V base, V exp)
{
    V out = 0;
    return c_pow<T>(base, exp, out) ? out : 0;
}
constexpr int c_ilog2(V x) // x >= 1
{
    int n = -1;
    while (x > 0) {
        x >>= 1;
        ++n;
    }
    return n;
}

// ---------------------------------------------------------------------------------------
// the evaluator
// ---------------------------------------------------------------------------------------

struct Res {
    std::uint64_t evals{0}, nontriv{0}, skipped{0}, mism{0};
    std::uint64_t hash{0};
    int fi{0}, fj{0}; // first mismatching cell
    V got{0}, want{0};
};

template <class K>
constexpr Res run_cells(int ilo, int ihi, int jlo, int jhi)
{
    Res r;
    for (int i = ilo; i < ihi; ++i) {
        V const x = K::AX::at(i);
        for (int j = jlo; j < jhi; ++j) {
            V const y = K::AY::at(j);
            if (!K::dom(x, y)) {
                ++r.skipped;
                continue;
            }
            V const g = K::call(x, y);
            V const w = K::ref(x, y);
            ++r.evals;
            r.nontriv += K::nt(x, y) ? 1 : 0;
            r.hash = r.hash * 1099511628211ULL + std::uint64_t(u128(g));
            if (g != w && r.mism++ == 0) {
                r.fi   = i;
                r.fj   = j;
                r.got  = g;
                r.want = w;
            }
        }
    }
    return r;
}

template <class K, int ILo, int IHi, int JLo, int JHi>
concept cells_constant = requires { typename std::bool_constant<(run_cells<K>(ILo, IHi, JLo, JHi), true)>; };

struct Summary {
    Res res{};          // over every block that is a constant expression
    bool constant{true};
    int bad_i{0}, bad_j{0}; // first cell whose evaluation is not a constant expression
};

constexpr void merge(Res& a, Res const& b)
{
    if (a.mism == 0 && b.mism != 0) {
        a.fi   = b.fi;
        a.fj   = b.fj;
        a.got  = b.got;
        a.want = b.want;
    }
    a.evals += b.evals;
    a.nontriv += b.nontriv;
    a.skipped += b.skipped;
    a.mism += b.mism;
    a.hash = a.hash * 31 + b.hash;
}

/// first cell (row-major) of rows [ILo,IHi) that is not a constant expression
template <class K, int ILo, int IHi>
consteval int bad_row()
{
    if constexpr (IHi - ILo == 1) {
        return ILo;
    } else if constexpr (!cells_constant<K, ILo, (ILo + IHi) / 2, 0, K::AY::N>) {
        return bad_row<K, ILo, (ILo + IHi) / 2>();
    } else {
        return bad_row<K, (ILo + IHi) / 2, IHi>();
    }
}
template <class K, int I, int JLo, int JHi>
consteval int bad_col()
{
    if constexpr (JHi - JLo == 1) {
        return JLo;
    } else if constexpr (!cells_constant<K, I, I + 1, JLo, (JLo + JHi) / 2>) {
        return bad_col<K, I, JLo, (JLo + JHi) / 2>();
    } else {
        return bad_col<K, I, (JLo + JHi) / 2, JHi>();
    }
}

template <class K>
inline constexpr int rows_per_block = (16384 / K::AY::N) > 0 ? (16384 / K::AY::N) : 1;

template <class K, int B>
consteval Summary block()
{
    constexpr int lo = B * rows_per_block<K>;
    constexpr int hi = (lo + rows_per_block<K>) < K::AX::N ? (lo + rows_per_block<K>) : K::AX::N;
    Summary s;
    if constexpr (cells_constant<K, lo, hi, 0, K::AY::N>) {
        s.res = run_cells<K>(lo, hi, 0, K::AY::N); // the same call as in the probe: served from the evaluator's cache
    } else {
        s.constant       = false;
        constexpr int bi = bad_row<K, lo, hi>();
        s.bad_i          = bi;
        s.bad_j          = bad_col<K, bi, 0, K::AY::N>();
        if constexpr (bi > lo) { s.res = run_cells<K>(lo, bi, 0, K::AY::N); }
    }
    return s;
}

template <class K, int... B>
consteval Summary summarize(std::integer_sequence<int, B...>)
{
    Summary total;
    Summary const parts[] = {block<K, B>()...};
    for (Summary const& p : parts) {
        merge(total.res, p.res);
        if (total.constant && !p.constant) {
            total.constant = false;
            total.bad_i    = p.bad_i;
            total.bad_j    = p.bad_j;
        }
    }
    return total;
}

template <class K>
inline constexpr int block_count = (K::AX::N + rows_per_block<K> - 1) / rows_per_block<K>;

template <class K>
inline constexpr Summary summary = summarize<K>(std::make_integer_sequence<int, block_count<K>>{});

// ---------------------------------------------------------------------------------------
// run-time side: report what the compiler computed
// ---------------------------------------------------------------------------------------

template <class K>
std::string kase(int i, int j)
{
    V const x     = K::AX::at(i);
    std::string s = cat(K::note(), K::note()[0] ? " " : "", K::tix().name, " ", K::xname(), "=", show(x, K::tix()));
    if (K::AY::N > 1 || K::binary) { s += cat(" ", K::tiy().name, " ", K::yname(), "=", show(K::AY::at(j), K::tiy())); }
    return s;
}

template <class K>
void report(Ctx& c)
{
    char const* subject = K::subject();
    if (!c.r.want(subject)) { return; }
    constexpr Summary const& s = summary<K>;
    c.evals += s.res.evals;
    c.nontriv += s.res.nontriv;
    c.skipped += s.res.skipped;
    c.r.count("kernels", 1);
    c.r.count("cells_constant_evaluated", s.res.evals);
    c.r.outcome(mc::hash_mix(mc::hash_str(subject), s.res.hash));
    if (s.res.mism != 0) {
        c.r.violation("C14", subject, "constant_evaluation", cat("constant evaluation: ", kase<K>(s.res.fi, s.res.fj)),
            cat("tetl=", dec(s.res.got), " reference=", dec(s.res.want), " (", s.res.mism, " cells of this table differ)"));
    }
    if (!s.constant) {
        c.r.violation("C14", subject, "constant_evaluation+not_a_constant_expression", cat("constant evaluation: ", kase<K>(s.bad_i, s.bad_j)),
            "the call is not a constant expression for this in-domain argument (undefined behaviour or no termination inside the constexpr function)");
        c.r.not_exhaustive(cat("constant evaluation of ", subject, " stopped at the first non-constant cell of a block"));
    }
    if (c.r.wants_sample()) {
        int const i = K::AX::N / 3, j = K::AY::N / 2;
        if (K::dom(K::AX::at(i), K::AY::at(j))) { c.r.sample(cat("consteval ", subject, " ", kase<K>(i, j), " -> ", dec(K::ref(K::AX::at(i), K::AY::at(j))))); }
    }
}

template <class... Ks>
void report_all(Ctx& c)
{
    (report<Ks>(c), ...);
}

// ---------------------------------------------------------------------------------------
// kernel bases and the macro that declares kernels
// ---------------------------------------------------------------------------------------

template <typename T, class AXIS>
struct UnaryBase {
    using AX                     = AXIS;
    using AY                     = One;
    static constexpr bool binary = false;
    static TI tix() { return ti<T>(); }
    static TI tiy() { return ti<T>(); }
    static char const* xname() { return "x"; }
    static char const* yname() { return "y"; }
    static char const* note() { return ""; }
};
template <typename T, typename U, class AXIS, class AYIS>
struct BinaryBase {
    using AX                     = AXIS;
    using AY                     = AYIS;
    static constexpr bool binary = true;
    static TI tix() { return ti<T>(); }
    static TI tiy() { return ti<U>(); }
    static char const* xname() { return "x"; }
    static char const* yname() { return "y"; }
    static char const* note() { return ""; }
};

// x (and y) are mathematical integers that are values of T (and U)
#define C14_K1(Name, Subject, Dom, Call, Ref, Nt)                                                                                                    \
    template <typename T, class AXIS = Axis<T, RunGrid>>                                                                                                \
    struct Name : UnaryBase<T, AXIS> {                                                                                                               \
        static char const* subject() { return Subject; }                                                                                             \
        static constexpr bool dom([[maybe_unused]] V x, V) { return Dom; }                                                                           \
        static constexpr V call([[maybe_unused]] V x, V) { return V(Call); }                                                                         \
        static constexpr V ref([[maybe_unused]] V x, V) { return V(Ref); }                                                                           \
        static constexpr bool nt([[maybe_unused]] V x, V) { return Nt; }                                                                             \
    }
#define C14_K2(Name, Subject, Dom, Call, Ref, Nt)                                                                                                    \
    template <typename T, typename U = T, class AXIS = Axis<T, EdgeGrid>, class AYIS = Axis<U, EdgeGrid>>                                                  \
    struct Name : BinaryBase<T, U, AXIS, AYIS> {                                                                                                     \
        static char const* subject() { return Subject; }                                                                                             \
        static constexpr bool dom([[maybe_unused]] V x, [[maybe_unused]] V y) { return Dom; }                                                        \
        static constexpr V call([[maybe_unused]] V x, [[maybe_unused]] V y) { return V(Call); }                                                      \
        static constexpr V ref([[maybe_unused]] V x, [[maybe_unused]] V y) { return V(Ref); }                                                        \
        static constexpr bool nt([[maybe_unused]] V x, [[maybe_unused]] V y) { return Nt; }                                                          \
    }

#if MC_PART == 1
// ---- <bit> ------------------------------------------------------------------------------
C14_K1(KPopcount, "popcount(x)", true, etl::popcount(T(x)), c_popcount<T>(x), x != 0 && x != max_v<T>);
C14_K1(KCountlZero, "countl_zero(x)", true, etl::countl_zero(T(x)), c_countl<T>(x, 0), x != 0 && x != max_v<T>);
C14_K1(KCountlOne, "countl_one(x)", true, etl::countl_one(T(x)), c_countl<T>(x, 1), x != 0 && x != max_v<T>);
C14_K1(KCountrZero, "countr_zero(x)", true, etl::countr_zero(T(x)), c_countr<T>(x, 0), x != 0 && x != max_v<T>);
C14_K1(KCountrOne, "countr_one(x)", true, etl::countr_one(T(x)), c_countr<T>(x, 1), x != 0 && x != max_v<T>);
C14_K1(KBitWidth, "bit_width(x)", true, etl::bit_width(T(x)), width_v<T> - c_countl<T>(x, 0), x != 0 && x != max_v<T>);
C14_K1(KBitFloor, "bit_floor(x)", true, etl::bit_floor(T(x)), x == 0 ? V(0) : V(1) << (width_v<T> - 1 - c_countl<T>(x, 0)), x != 0 && x != max_v<T>);
C14_K1(KBitCeil, "bit_ceil(x)", x <= (V(1) << (width_v<T> - 1)), etl::bit_ceil(T(x)),
    x <= 1 ? V(1) : V(1) << (width_v<T> - c_countl<T>(x - 1, 0)), x > 2 && c_popcount<T>(x) != 1);
C14_K1(KHasSingleBit, "has_single_bit(x)", true, etl::has_single_bit(T(x)), c_popcount<T>(x) == 1, x != 0 && x != max_v<T>);
C14_K1(KByteswap, "byteswap(x)", true, etl::byteswap(T(x)), c_byteswap<T>(x), c_byteswap<T>(x) != x);
C14_K1(KHton, "net::hton(v)", true, etl::experimental::net::hton(T(x)), c_byteswap<T>(x), c_byteswap<T>(x) != x);
C14_K1(KNtoh, "net::ntoh(v)", true, etl::experimental::net::ntoh(T(x)), c_byteswap<T>(x), c_byteswap<T>(x) != x);

C14_K2(KRotl, "rotl(x,s)", true, etl::rotl(T(x), int(y)), c_rotl<T>(x, y), y % width_v<T> != 0 && x != 0 && x != max_v<T>);
C14_K2(KRotr, "rotr(x,s)", true, etl::rotr(T(x), int(y)), c_rotl<T>(x, -y), y % width_v<T> != 0 && x != 0 && x != max_v<T>);

C14_K2(KSetBit, "set_bit(word,pos)", true, etl::set_bit(T(x), T(y)), from_bits<T>(ubits<T>(x) | (u128(1) << int(y))), ((ubits<T>(x) >> int(y)) & 1U) == 0);
C14_K2(KSetBitTrue, "set_bit(word,pos,true)", true, etl::set_bit(T(x), T(y), true), from_bits<T>(ubits<T>(x) | (u128(1) << int(y))),
    ((ubits<T>(x) >> int(y)) & 1U) == 0);
C14_K2(KSetBitFalse, "set_bit(word,pos,false)", true, etl::set_bit(T(x), T(y), false), from_bits<T>(ubits<T>(x) & ~(u128(1) << int(y))),
    ((ubits<T>(x) >> int(y)) & 1U) != 0);
C14_K2(KResetBit, "reset_bit(word,pos)", true, etl::reset_bit(T(x), T(y)), from_bits<T>(ubits<T>(x) & ~(u128(1) << int(y))),
    ((ubits<T>(x) >> int(y)) & 1U) != 0);
C14_K2(KFlipBit, "flip_bit(word,pos)", true, etl::flip_bit(T(x), T(y)), from_bits<T>(ubits<T>(x) ^ (u128(1) << int(y))), true);
C14_K2(KTestBit, "test_bit(word,pos)", true, etl::test_bit(T(x), T(y)), (ubits<T>(x) >> int(y)) & 1U, ((ubits<T>(x) >> int(y)) & 1U) != 0);

template <typename U>
void bit_unary(Ctx& c)
{
    report_all<KPopcount<U>, KCountlZero<U>, KCountlOne<U>, KCountrZero<U>, KCountrOne<U>, KBitWidth<U>, KBitFloor<U>, KBitCeil<U>, KHasSingleBit<U>>(c);
}
template <typename U, class AXIS>
void bit_binary(Ctx& c)
{
    using P = Range<0, width_v<U> - 1>;
    report_all<KRotl<U, int, AXIS, Counts>, KRotr<U, int, AXIS, Counts>, KSetBit<U, U, AXIS, P>, KSetBitTrue<U, U, AXIS, P>, KSetBitFalse<U, U, AXIS, P>,
        KResetBit<U, U, AXIS, P>, KFlipBit<U, U, AXIS, P>, KTestBit<U, U, AXIS, P>>(c);
}
#endif

#if MC_PART == 2 || MC_PART == 3
// ---- <numeric>, integer math ------------------------------------------------------------
C14_K2(KAddSat, "add_sat(x,y)", true, etl::add_sat(T(x), T(y)), c_clamp<T>(x + y), x + y != c_clamp<T>(x + y));
C14_K2(KAddSatFallback, "detail::add_sat_fallback(x,y)", true, etl::detail::add_sat_fallback(T(x), T(y)), c_clamp<T>(x + y), x + y != c_clamp<T>(x + y));
C14_K2(KDivSat, "div_sat(x,y)", y != 0, etl::div_sat(T(x), T(y)), c_clamp<T>(x / y), x != 0 && (c_abs(y) > 1 || x == min_v<T>));
C14_K2(KMidpoint, "midpoint(a,b)", true, etl::midpoint(T(x), T(y)), x + (y - x) / 2, x != y);
template <typename T, typename U>
constexpr bool gcd_dom(V x, V y) // |m|, |n| representable in the common type
{
    return c_abs(x) <= max_v<std::common_type_t<T, U>> && c_abs(y) <= max_v<std::common_type_t<T, U>>;
}
template <typename T, typename U>
constexpr bool lcm_dom(V x, V y) // ... and the result too
{
    return gcd_dom<T, U>(x, y) && c_lcm(x, y) >= 0 && c_lcm(x, y) <= max_v<std::common_type_t<T, U>>;
}
C14_K2(KGcd, "gcd(m,n)", (gcd_dom<T, U>(x, y)), etl::gcd(T(x), U(y)), c_gcd(x, y), x != 0 && y != 0 && x != y);
C14_K2(KLcm, "lcm(m,n)", (lcm_dom<T, U>(x, y)), etl::lcm(T(x), U(y)), c_lcm(x, y), x != 0 && y != 0 && x != y);
C14_K2(KIdivQuot, "idiv(x,y).quot", y != 0 && !(x == min_v<T> && y == -1), etl::idiv(T(x), T(y)).quot, x / y, x != 0 && c_abs(y) > 1);
C14_K2(KIdivRem, "idiv(x,y).rem", y != 0 && !(x == min_v<T> && y == -1), etl::idiv(T(x), T(y)).rem, x % y, x != 0 && c_abs(y) > 1);
C14_K2(KIpow, "ipow(base,exponent)", y >= 0 && c_pow_ok<T>(x, y), etl::ipow(T(x), T(y)), c_pow_or_0<T>(x, y), y >= 2 && c_abs(x) >= 2);

C14_K1(KAbs, "abs(x)", std::is_unsigned_v<T> || x != min_v<T>, etl::abs(T(x)), c_abs(x), x < 0);
C14_K1(KAbsT, "abs<T>(x)", std::is_unsigned_v<T> || x != min_v<T>, etl::abs<T>(T(x)), c_abs(x), x < 0);
C14_K1(KIlog2, "ilog2(x)", x >= 1, etl::ilog2(T(x)), c_ilog2(x), x >= 2);

template <typename T, T Base>
struct KIpowFixed : UnaryBase<T, Range<0, 70>> {
    static char const* subject() { return "ipow<Base>(exponent)"; }
    static char const* xname() { return "exponent"; }
    static char const* note()
    {
        static std::string const s = cat("Base=", dec(V(Base)));
        return s.c_str();
    }
    static constexpr bool dom(V e, V)
    {
        V out = 0;
        return c_pow<T>(V(Base), e, out);
    }
    static constexpr V call(V e, V) { return V(etl::ipow<Base>(T(e))); }
    static constexpr V ref(V e, V) { return c_pow_or_0<T>(V(Base), e); }
    static constexpr bool nt(V e, V) { return e >= 2; }
};

template <typename T>
void numeric_same_type(Ctx& c)
{
    report_all<KAddSat<T>, KAddSatFallback<T>, KDivSat<T>, KMidpoint<T>, KGcd<T>, KLcm<T>, KIdivQuot<T>, KIdivRem<T>>(c);
    report_all<KAbs<T>, KAbsT<T>, KIlog2<T>>(c);
    // ipow: every 8-bit base x exponent 0..255; wider types: the edge grid x exponent 0..70
    if constexpr (sizeof(T) == 1) {
        report_all<KIpow<T, T, All<T>, Range<0, int(max_v<T>)>>>(c);
    } else {
        report_all<KIpow<T, T, Axis<T, EdgeGrid>, Range<0, 70>>>(c);
    }
    report_all<KIpowFixed<T, T(0)>, KIpowFixed<T, T(1)>, KIpowFixed<T, T(2)>, KIpowFixed<T, T(3)>, KIpowFixed<T, T(4)>, KIpowFixed<T, T(8)>, KIpowFixed<T, T(10)>, KIpowFixed<T, T(16)>>(c);
    if constexpr (std::is_signed_v<T>) { report_all<KIpowFixed<T, T(-1)>, KIpowFixed<T, T(-2)>, KIpowFixed<T, T(-3)>, KIpowFixed<T, T(-4)>>(c); }
}
#endif

#if MC_PART >= 4
// ---- <utility> comparisons, casts ------------------------------------------------------------
C14_K2(KCmpEqual, "cmp_equal(t,u)", true, etl::cmp_equal(T(x), U(y)), x == y, x != y);
C14_K2(KCmpNotEqual, "cmp_not_equal(t,u)", true, etl::cmp_not_equal(T(x), U(y)), x != y, x != y);
C14_K2(KCmpLess, "cmp_less(t,u)", true, etl::cmp_less(T(x), U(y)), x < y, x != y);
C14_K2(KCmpGreater, "cmp_greater(t,u)", true, etl::cmp_greater(T(x), U(y)), x > y, x != y);
C14_K2(KCmpLessEqual, "cmp_less_equal(t,u)", true, etl::cmp_less_equal(T(x), U(y)), x <= y, x != y);
C14_K2(KCmpGreaterEqual, "cmp_greater_equal(t,u)", true, etl::cmp_greater_equal(T(x), U(y)), x >= y, x != y);

template <typename T, typename U>
void cmp_pair(Ctx& c)
{
    report_all<KCmpEqual<T, U>, KCmpNotEqual<T, U>, KCmpLess<T, U>, KCmpGreater<T, U>, KCmpLessEqual<T, U>, KCmpGreaterEqual<T, U>>(c);
}

template <typename To, typename From, class AXIS>
struct KInRange : UnaryBase<From, AXIS> {
    static char const* subject() { return "in_range<R>(t)"; }
    static char const* note()
    {
        static std::string const s = cat("R=", tname<To>());
        return s.c_str();
    }
    static constexpr bool dom(V, V) { return true; }
    static constexpr V call(V x, V) { return V(etl::in_range<To>(From(x))); }
    static constexpr V ref(V x, V) { return V(x >= min_v<To> && x <= max_v<To>); }
    static constexpr bool nt(V x, V) { return !(x >= min_v<To> && x <= max_v<To>); }
};
template <typename To, typename From, class AXIS>
struct KSaturateCast : UnaryBase<From, AXIS> {
    static char const* subject() { return "saturate_cast<To>(x)"; }
    static char const* note()
    {
        static std::string const s = cat("To=", tname<To>());
        return s.c_str();
    }
    static constexpr bool dom(V, V) { return true; }
    static constexpr V call(V x, V) { return V(etl::saturate_cast<To>(From(x))); }
    static constexpr V ref(V x, V) { return c_clamp<To>(x); }
    static constexpr bool nt(V x, V) { return !(x >= min_v<To> && x <= max_v<To>); }
};

template <typename From, class AXIS, typename... Tos>
void range_from(Ctx& c)
{
    report_all<KInRange<Tos, From, AXIS>...>(c);
    report_all<KSaturateCast<Tos, From, AXIS>...>(c);
}
template <typename T, typename... Us>
void cmp_row(Ctx& c)
{
    (cmp_pair<T, Us>(c), ...);
}
#endif

} // namespace

int main(int argc, char** argv)
{
    mc::Main m(argc, argv);
    std::vector<std::string> const tiers{"quick", "thorough"};
    std::vector<std::string> const slow{"thorough"};
#if MC_PART == 1
    m.job("consteval-bit-8", tiers, [](mc::Reporter& r) {
        Ctx c(r);
        bit_unary<u8>(c);
        bit_binary<u8, All<u8>>(c);
        report_all<KByteswap<u8>, KByteswap<i8>, KByteswap<char>, KByteswap<char8_t>, KHton<u8>, KHton<i8>, KHton<char>, KNtoh<u8>, KNtoh<i8>, KNtoh<char>>(c);
    });
    m.job("consteval-bit-16", tiers, [](mc::Reporter& r) {
        // the 16-bit runs-of-ones grid (about 400 values); rotations/positions: the edge grid x counts / positions
        Ctx c(r);
        report_all<KPopcount<u16, RunGrid<u16>>, KCountlZero<u16, RunGrid<u16>>, KCountlOne<u16, RunGrid<u16>>, KCountrZero<u16, RunGrid<u16>>,
            KCountrOne<u16, RunGrid<u16>>, KBitWidth<u16, RunGrid<u16>>, KBitFloor<u16, RunGrid<u16>>, KBitCeil<u16, RunGrid<u16>>,
            KHasSingleBit<u16, RunGrid<u16>>>(c);
        report_all<KByteswap<u16, RunGrid<u16>>, KByteswap<i16, RunGrid<i16>>, KByteswap<char16_t, RunGrid<char16_t>>, KHton<u16, RunGrid<u16>>,
            KNtoh<u16, RunGrid<u16>>>(c);
        bit_binary<u16, EdgeGrid<u16>>(c);
    });
    m.job("consteval-bit-32-64", tiers, [](mc::Reporter& r) {
        Ctx c(r);
        bit_unary<u32>(c);
        bit_unary<u64>(c);
        bit_unary<ull>(c);
        report_all<KByteswap<u32>, KByteswap<i32>, KByteswap<char32_t>, KByteswap<wchar_t>, KByteswap<u64>, KByteswap<i64>, KByteswap<ll>, KByteswap<ull>,
            KHton<u32>, KNtoh<u32>>(c);
        bit_binary<u32, EdgeGrid<u32>>(c);
        bit_binary<u64, EdgeGrid<u64>>(c);
        bit_binary<ull, EdgeGrid<ull>>(c);
    });
#elif MC_PART == 2
    m.job("consteval-numeric-i8", tiers, [](mc::Reporter& r) {
        Ctx c(r);
        numeric_same_type<i8>(c);
    });
    m.job("consteval-numeric-signed-wide", tiers, [](mc::Reporter& r) {
        Ctx c(r);
        numeric_same_type<i32>(c);
        numeric_same_type<i64>(c);
        numeric_same_type<ll>(c);
        report_all<KAbs<i16, RunGrid<i16>>, KAbsT<i16, RunGrid<i16>>, KIlog2<i16, RunGrid<i16>>>(c);
    });
#elif MC_PART == 3
    m.job("consteval-numeric-u8", slow, [](mc::Reporter& r) {
        Ctx c(r);
        numeric_same_type<u8>(c);
    });
    m.job("consteval-numeric-mixed-8", slow, [](mc::Reporter& r) {
        Ctx c(r);
        report_all<KGcd<i8, u8>, KGcd<u8, i8>, KLcm<i8, u8>, KLcm<u8, i8>>(c);
    });
    m.job("consteval-numeric-unsigned-wide", slow, [](mc::Reporter& r) {
        Ctx c(r);
        numeric_same_type<u32>(c);
        numeric_same_type<u64>(c);
        numeric_same_type<ull>(c);
        report_all<KAbsT<u16, RunGrid<u16>>, KIlog2<u16, RunGrid<u16>>, KIlog2<char16_t, RunGrid<char16_t>>>(c);
        report_all<KGcd<i32, u64>, KGcd<u64, i32>, KGcd<i64, u32>, KGcd<ll, u64>, KLcm<i32, u64>, KLcm<u64, i32>, KLcm<i64, u32>, KLcm<ll, u64>>(c);
    });
#elif MC_PART == 4
    m.job("consteval-cmp-i8", slow, [](mc::Reporter& r) {
        Ctx c(r);
        cmp_row<i8, i8, u8>(c);
    });
    m.job("consteval-cmp-wide", slow, [](mc::Reporter& r) {
        // every ordered pair of {i32,u32,i64,u64,ll,ull} on the edge grids
        Ctx c(r);
        cmp_row<i32, i32, u32, i64, u64, ll, ull>(c);
        cmp_row<u32, i32, u32, i64, u64, ll, ull>(c);
        cmp_row<i64, i32, u32, i64, u64, ll, ull>(c);
        cmp_row<u64, i32, u32, i64, u64, ll, ull>(c);
        cmp_row<ll, i32, u32, i64, u64, ll, ull>(c);
        cmp_row<ull, i32, u32, i64, u64, ll, ull>(c);
    });
#elif MC_PART == 6
    m.job("consteval-cmp-u8", slow, [](mc::Reporter& r) {
        Ctx c(r);
        cmp_row<u8, i8, u8>(c);
    });
#else
    m.job("consteval-range-narrow", slow, [](mc::Reporter& r) {
        // every value of the 8-bit sources, the runs-of-ones grid of the 16-bit sources, all ten targets
        Ctx c(r);
        range_from<i8, All<i8>, i8, u8, i16, u16, i32, u32, i64, u64, ll, ull>(c);
        range_from<u8, All<u8>, i8, u8, i16, u16, i32, u32, i64, u64, ll, ull>(c);
        range_from<i16, RunGrid<i16>, i8, u8, i16, u16, i32, u32, i64, u64, ll, ull>(c);
        range_from<u16, RunGrid<u16>, i8, u8, i16, u16, i32, u32, i64, u64, ll, ull>(c);
    });
    m.job("consteval-range-wide", slow, [](mc::Reporter& r) {
        // the runs-of-ones grid of the 32/64-bit sources, all ten targets
        Ctx c(r);
        range_from<i32, RunGrid<i32>, i8, u8, i16, u16, i32, u32, i64, u64, ll, ull>(c);
        range_from<u32, RunGrid<u32>, i8, u8, i16, u16, i32, u32, i64, u64, ll, ull>(c);
        range_from<i64, RunGrid<i64>, i8, u8, i16, u16, i32, u32, i64, u64, ll, ull>(c);
        range_from<u64, RunGrid<u64>, i8, u8, i16, u16, i32, u32, i64, u64, ll, ull>(c);
        range_from<ll, RunGrid<ll>, i8, u8, i16, u16, i32, u32, i64, u64, ll, ull>(c);
        range_from<ull, RunGrid<ull>, i8, u8, i16, u16, i32, u32, i64, u64, ll, ull>(c);
    });
#endif
    return m.run();
}
