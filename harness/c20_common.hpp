// C20 shared pieces: the reference-side twin of mc::Tracked (with its own copy/move counters),
// value injection, the state box (implementation object placed over poisoned storage + model),
// lifetime-registry plumbing (reported as C03), value-category names and the call log used by the
// callable-wrapper harnesses.
#pragma once
#include "explore.hpp"
#include "tracked.hpp"

#include <cstring>
#include <string>
#include <type_traits>
#include <utility>
#include <vector>

namespace c20 {

using mc::cat;
using mc::Cx;
using mc::registry;

// ---------------------------------------------------------------------------------------
// Plain<F,Tag>: what the std model holds where the implementation holds mc::Tracked<F,Tag>.
// Same special members, same conversions, same "moved-from reads -1" marker; no registry
// traffic, but it counts its own copy/move constructions and assignments so that the number of
// copies and moves an operation performs can be compared between tetl and std.
// ---------------------------------------------------------------------------------------
struct TwinCounts {
    std::uint64_t copies{0}, moves{0}, copy_assigns{0}, move_assigns{0};
};
inline TwinCounts& twin_counts()
{
    static TwinCounts c;
    return c;
}
// the implementation side counts through a thin layer over the registry counters
struct ImplCounts {
    std::uint64_t copies{0}, moves{0};
};
inline ImplCounts impl_counts() { return ImplCounts{registry().copies, registry().moves}; }

template <int F, int Tag = 0>
struct Plain {
    int v;
    Plain() : v(0) { }
    explicit(false) Plain(int x) : v(x) { }
    Plain(Plain const& o) noexcept(F == mc::rule3)
        requires(F != mc::move_only)
        : v(o.v)
    {
        ++twin_counts().copies;
    }
    Plain(Plain&& o) noexcept
        requires(F != mc::copy_only && F != mc::rule3)
        : v(o.v)
    {
        ++twin_counts().moves;
        if (this != &o) { o.v = -1; }
    }
    auto operator=(Plain const& o) -> Plain&
        requires(F == mc::rule3)
    = default; // rule3: trivial copy assignment, user-provided copy constructor + destructor, no move members
    auto operator=(Plain const& o) -> Plain&
        requires(F != mc::move_only && F != mc::rule3)
    {
        ++twin_counts().copy_assigns;
        v = o.v;
        return *this;
    }
    auto operator=(Plain&& o) noexcept -> Plain&
        requires(F != mc::copy_only && F != mc::rule3)
    {
        ++twin_counts().move_assigns;
        if (this != &o) {
            v   = o.v;
            o.v = -1;
        }
        return *this;
    }
    ~Plain() { }
    [[nodiscard]] int value() const { return v; }
    friend bool operator==(Plain const& a, Plain const& b) { return a.v == b.v; }
    friend bool operator<(Plain const& a, Plain const& b) { return a.v < b.v; }
    friend bool operator!=(Plain const& a, Plain const& b) { return !(a == b); }
    friend bool operator>(Plain const& a, Plain const& b) { return b < a; }
    friend bool operator<=(Plain const& a, Plain const& b) { return !(b < a); }
    friend bool operator>=(Plain const& a, Plain const& b) { return !(a < b); }
};

template <typename T>
struct twin {
    using type = T;
};
template <int F, int Tag>
struct twin<mc::Tracked<F, Tag>> {
    using type = Plain<F, Tag>;
};
template <typename T>
using twin_t = typename twin<T>::type;

template <typename T>
inline constexpr bool is_plain_v = false;
template <int F, int Tag>
inline constexpr bool is_plain_v<Plain<F, Tag>> = true;

template <typename A>
A make(int k)
{
    return A(static_cast<std::conditional_t<std::is_arithmetic_v<A>, A, int>>(k));
}

template <typename A>
int val(A const& x)
{
    if constexpr (mc::is_tracked_v<A> || is_plain_v<A>) {
        return x.value();
    } else {
        return static_cast<int>(x);
    }
}

template <typename A>
std::string aname()
{
    using B = std::remove_cv_t<A>;
    std::string c = std::is_const_v<A> ? " const" : "";
    if constexpr (std::is_same_v<B, int>) {
        return "int" + c;
    } else if constexpr (std::is_same_v<B, short>) {
        return "short" + c;
    } else if constexpr (std::is_same_v<B, long>) {
        return "long" + c;
    } else if constexpr (std::is_same_v<B, char>) {
        return "char" + c;
    } else if constexpr (std::is_same_v<B, mc::Tracked<mc::copy_move, 0>> || std::is_same_v<B, Plain<mc::copy_move, 0>>) {
        return "Tracked" + c;
    } else if constexpr (std::is_same_v<B, mc::Tracked<mc::move_only, 0>> || std::is_same_v<B, Plain<mc::move_only, 0>>) {
        return "TrackedMoveOnly" + c;
    } else if constexpr (std::is_same_v<B, mc::Tracked<mc::copy_only, 0>> || std::is_same_v<B, Plain<mc::copy_only, 0>>) {
        return "TrackedCopyOnly" + c;
    } else {
        return "?";
    }
}

// value category + constness of an expression of type X (X = decltype((expr)) or a forwarding T&&)
template <typename X>
std::string catname()
{
    std::string s = std::is_const_v<std::remove_reference_t<X>> ? "const" : "";
    s += std::is_lvalue_reference_v<X> ? "&" : "&&";
    return s;
}

struct Action {
    int k, a, b;
};

// ---------------------------------------------------------------------------------------
// lifetime registry -> C03
// ---------------------------------------------------------------------------------------
inline void drain_lifetimes(Cx& cx, std::string const& subject, std::string const& cls)
{
    for (auto const& e : registry().take_errors()) { cx.fail("C03", subject, cat(cls, "/lifetime:", e), e); }
}

inline void check_live(Cx& cx, std::string const& subject, std::string const& cls, void const* lo, void const* hi,
    std::size_t expected, char const* what)
{
    auto const live = registry().live_in(lo, hi);
    if (live != expected) {
        cx.fail("C03", subject, cat(cls, "/live-count"), cat(what, ": live tracked objects inside the owner: ", live, ", expected: ", expected));
    }
}

/// The explorer rebuilds states by replaying their history against a scratch Reporter (job name empty);
/// whole-registry checks only make sense on a first execution, where exactly the operands are alive.
inline bool first_execution(Cx const& cx) { return !cx.r.job.empty(); }

/// retire() runs after the explorer may have appended a node (its case-description callback then refers to
/// a relocated history), so end-of-life findings are reported with a self-contained case text.
inline void drain_lifetimes_at_retire(Cx& cx, std::string const& subject, std::string const& cls, std::string const& kase)
{
    for (auto const& e : registry().take_errors()) {
        cx.failed = true;
        cx.r.violation("C03", subject, cat(cls, "/lifetime:", e), kase, e);
    }
}

/// After a live-total mismatch was reported: drop every registry entry outside the given boxes (leaked
/// temporaries), so that one leak is reported once and not by every later transition.
inline void purge_outside(void const* lo1, void const* hi1, void const* lo2, void const* hi2)
{
    auto& slots = registry().slots;
    for (auto it = slots.begin(); it != slots.end();) {
        bool const in1 = it->first >= lo1 && it->first < hi1;
        bool const in2 = lo2 != nullptr && it->first >= lo2 && it->first < hi2;
        if (in1 || in2) {
            ++it;
        } else {
            it = slots.erase(it);
        }
    }
}

template <typename A, typename B>
bool ceq(Cx& cx, std::string const& prop, std::string const& subject, std::string const& cls, char const* what, A const& got, B const& want)
{
    cx.r.count("comparisons");
    return cx.eq(prop, subject, cls, what, got, want);
}
template <typename A, typename B>
bool ceq(Cx& cx, std::string const& prop, std::string const& subject, std::string const& cls, std::string const& what, A const& got, B const& want)
{
    return ceq(cx, prop, subject, cls, what.c_str(), got, want);
}

/// distinct non-trivial case = (configuration, canonical from-state, action + argument, canonical partner state)
inline void note_case(Cx& cx, std::string const& config, std::string const& from, Action const& a, std::string const& partner)
{
    auto h = mc::hash_str(config);
    h      = mc::hash_mix(h, mc::hash_str(from));
    h      = mc::hash_mix(h, std::uint64_t(a.k) * 1000003ULL + std::uint64_t(a.a + 16) * 1009ULL + std::uint64_t(a.b + 16));
    h      = mc::hash_mix(h, mc::hash_str(partner));
    cx.r.nontrivial(h);
}

// ---------------------------------------------------------------------------------------
// Box: the implementation object lives in a poisoned buffer of its own (default-initialised
// there, re-created there by every constructor action), the model next to it.
// ---------------------------------------------------------------------------------------
template <typename V, typename M>
struct Box {
    alignas(alignof(V) > 16 ? alignof(V) : 16) unsigned char buf[sizeof(V) + 32];
    V* v;
    M m;
    bool dead{false};
    unsigned char poison;

    explicit Box(unsigned char p) : m(), poison(p)
    {
        std::memset(buf, p, sizeof buf);
        v = ::new (static_cast<void*>(buf)) V; // default-initialisation
    }
    Box(Box const&)            = delete;
    Box& operator=(Box const&) = delete;
    ~Box()
    {
        if (!dead) { v->~V(); }
        // whatever a defective operation leaked inside this box was reported when it happened; it must not
        // be seen again by later, unrelated transitions that reuse the address
        registry().forget_range(lo(), hi());
    }
    void const* lo() const { return buf; }
    void const* hi() const { return buf + sizeof buf; }

    /// destroys the current object, re-poisons the storage and constructs V(args...) there;
    /// args must not refer to the current object
    template <typename... A>
    void recreate(A&&... a)
    {
        v->~V();
        std::memset(buf, poison, sizeof buf);
        v = ::new (static_cast<void*>(buf)) V(std::forward<A>(a)...);
    }
    /// same with list-initialisation V{args...}
    template <typename... A>
    void recreate_braced(A&&... a)
    {
        v->~V();
        std::memset(buf, poison, sizeof buf);
        v = ::new (static_cast<void*>(buf)) V{std::forward<A>(a)...};
    }
};

template <typename Sys, typename... A>
void explore(mc::Reporter& r, A... args)
{
    Sys sys{args...};
    mc::ExploreLimits lim;
    lim.max_states = 200000;
    lim.max_depth  = 64;
    mc::Explorer<Sys> ex(sys, r, lim);
    ex.run();
}

// ---------------------------------------------------------------------------------------
// call log: every instrumented callable appends one line per invocation
//   "<target>@<object category>(<argument category>:<value>, ...)"
// ---------------------------------------------------------------------------------------
inline std::vector<std::string>& call_log()
{
    static std::vector<std::string> l;
    return l;
}
inline std::string take_log()
{
    std::string o;
    for (auto const& s : call_log()) {
        if (!o.empty()) { o += " ; "; }
        o += s;
    }
    call_log().clear();
    return o;
}

template <typename X>
std::string show_arg(X&& x)
{
    using B = std::remove_cvref_t<X>;
    if constexpr (mc::is_tracked_v<B> || is_plain_v<B>) {
        return cat(catname<X&&>(), ":T", x.value());
    } else if constexpr (std::is_arithmetic_v<B>) {
        return cat(catname<X&&>(), ":", static_cast<long>(x));
    } else {
        return cat(catname<X&&>(), ":?");
    }
}

template <typename... A>
std::string show_args(A&&... a)
{
    std::string o;
    ((o += (o.empty() ? "" : ",") + show_arg(std::forward<A>(a))), ...);
    return o;
}

} // namespace c20
