// C20 (c) and the inplace_function part of C03:
// etl::inplace_function<int(int), Cap> explored as a state machine to a fixed point.
//
// State   = (empty | holds a callable of kind K with captured value v [and call counter c]).
// Kinds   = function pointer, small trivially copyable functor, capacity-filling functor with a
//           tracked (lifetime-registered) capture and a pattern-filled tail, stateful counter functor
//           (trivially copyable), stateful counter functor with a tracked capture.
// Actions = default / value-init / nullptr / callable (rvalue, const lvalue) construction, copy and move
//           construction (same capacity, into a larger capacity, from a smaller capacity), = nullptr,
//           = callable, copy/move assignment (other state, self, from a smaller capacity), swap (member,
//           free, self, other state), call (on empty: must reach etl::exception_handler without calling
//           anything), bool / == nullptr / != nullptr observers.
// Oracle  = a hand model (kind, v, counter): every call reaches the target exactly once, on the stored
//           object as a non-const lvalue, with the same argument, and returns its result unchanged; copies
//           call an equivalent but independent target; the source of a move is empty; nothing else ever
//           calls the target; the lifetime registry (C03) sees no illegal transition, the number of live
//           captures inside the function object equals the model's, and nothing is alive after the
//           function object is destroyed.
//
// Round 2: the same state machine is instantiated for the call signatures void(), int(int,int), int(MoveOnly&&)
// and int&(int) (signature adapters Sig1..Sig4 below; -DMC_PART=2): the target kinds, the action menu and the model
// are identical, only the way a call is made and its result is observed differs (void(): argument and result travel
// through globals; int(int,int): the second argument must arrive as first+1000; int(MoveOnly&&): the argument must
// arrive as the very same object, neither copied nor moved; int&(int): the returned reference must name the cell the
// target returned).
//
// API gaps (not exercised, they do not compile): inplace_function<void(...)> around a callable that
// returns a value; member pointers as targets; conversion to a smaller capacity (static_assert);
// move-only callables (static_assert); const- or noexcept-qualified signatures.
#include "c20_common.hpp"

#include <etl/functional.hpp>

using namespace c20;

namespace {

struct CallRec {
    int calls{0};
    int last_x{0};
    int last_kind{-1};
    char last_q{'?'};
};
CallRec g_rec;

void rec(int kind, char q, int x)
{
    ++g_rec.calls;
    g_rec.last_x    = x;
    g_rec.last_kind = kind;
    g_rec.last_q    = q;
}

constexpr int k_fp = 0, k_small = 1, k_big = 2, k_counter = 3, k_tcounter = 4, kind_count = 5;

char const* kind_name(int k)
{
    static char const* n[] = {"empty", "fnptr", "small", "big_tracked", "counter", "tracked_counter"};
    return n[k + 1];
}

int encode(int kind, int v, int count) { return 1000 * (kind + 1) + 100 * v + 10 * count; }

using MOArg = mc::Tracked<mc::move_only>;
int g_arg = 0;      // void(): the argument travels through a global
int g_ret = -12345; // void() / int&(int): the result cell
void const* g_arg_addr = nullptr;

// x < 0 is a "peek": the target reports its identity and state without logging or mutating
template <int V>
int fp_go(int x)
{
    if (x < 0) { return encode(k_fp, V, 0); }
    rec(k_fp, '&', x);
    return encode(k_fp, V, 0) + x;
}
template <int V>
int fp(int x)
{
    return fp_go<V>(x);
}
template <int V>
void fp_void()
{
    g_ret = fp_go<V>(g_arg);
}
template <int V>
int fp_two(int x, int y)
{
    return y == x + 1000 ? fp_go<V>(x) : -8888;
}
template <int V>
int fp_mo(MOArg&& m)
{
    g_arg_addr = &m;
    return fp_go<V>(m.value());
}
template <int V>
int& fp_ref(int x)
{
    g_ret = fp_go<V>(x);
    return g_ret;
}
#define C20_FP_OF(NAME)                                                                                                          \
    switch (v) {                                                                                                                 \
    case 0: return &NAME<0>;                                                                                                     \
    case 1: return &NAME<1>;                                                                                                     \
    case 2: return &NAME<2>;                                                                                                     \
    default: return &NAME<3>;                                                                                                    \
    }

// signature adapters: how a call with the abstract argument x is made and what abstract result it produced
struct Sig0 {
    static constexpr int id = 0;
    using sig               = int(int);
    static char const* name() { return "int(int)"; }
    static auto fp_of(int v) -> int (*)(int) { C20_FP_OF(fp) }
    template <typename Fn>
    static int call(Fn&& f, int x)
    {
        return f(x);
    }
};
struct Sig1 {
    static constexpr int id = 1;
    using sig               = void();
    static char const* name() { return "void()"; }
    static auto fp_of(int v) -> void (*)() { C20_FP_OF(fp_void) }
    template <typename Fn>
    static int call(Fn&& f, int x)
    {
        g_arg = x;
        g_ret = -12345; // stays if nothing was called
        static_assert(std::is_void_v<decltype(f())>);
        f();
        return g_ret;
    }
};
struct Sig2 {
    static constexpr int id = 2;
    using sig               = int(int, int);
    static char const* name() { return "int(int,int)"; }
    static auto fp_of(int v) -> int (*)(int, int) { C20_FP_OF(fp_two) }
    template <typename Fn>
    static int call(Fn&& f, int x)
    {
        return f(x, x + 1000);
    }
};
struct Sig3 {
    static constexpr int id = 3;
    using sig               = int(MOArg&&);
    static char const* name() { return "int(MoveOnly&&)"; }
    static auto fp_of(int v) -> int (*)(MOArg&&) { C20_FP_OF(fp_mo) }
    template <typename Fn>
    static int call(Fn&& f, int x)
    {
        MOArg m(x);
        g_arg_addr        = nullptr;
        auto const moves  = registry().moves;
        int const r       = f(std::move(m));
        if (registry().moves != moves) { return -9999; } // the argument was moved on its way to the target
        if (g_arg_addr != nullptr && g_arg_addr != &m) { return -9997; } // the target saw another object
        if (m.value() != x) { return -9996; }
        return r;
    }
};
struct Sig4 {
    static constexpr int id = 4;
    using sig               = int&(int);
    static char const* name() { return "int&(int)"; }
    static auto fp_of(int v) -> int& (*)(int) { C20_FP_OF(fp_ref) }
    template <typename Fn>
    static int call(Fn&& f, int x)
    {
        static_assert(std::is_same_v<decltype(f(x)), int&>);
        int& r = f(x);
        if (&r != &g_ret) { return -9998; } // not the cell the target returned
        return r;
    }
};

#define C20_CALL_OPERATORS_Q(QUAL, QC)                                                                                          \
    int operator()(int x) QUAL                                                                                                   \
        requires(S::id == 0)                                                                                                     \
    {                                                                                                                            \
        return go(QC, x);                                                                                                        \
    }                                                                                                                            \
    void operator()() QUAL                                                                                                       \
        requires(S::id == 1)                                                                                                     \
    {                                                                                                                            \
        g_ret = go(QC, g_arg);                                                                                                   \
    }                                                                                                                            \
    int operator()(int x, int y) QUAL                                                                                            \
        requires(S::id == 2)                                                                                                     \
    {                                                                                                                            \
        return y == x + 1000 ? go(QC, x) : -8888;                                                                                \
    }                                                                                                                            \
    int operator()(MOArg&& m) QUAL                                                                                               \
        requires(S::id == 3)                                                                                                     \
    {                                                                                                                            \
        g_arg_addr = &m;                                                                                                         \
        return go(QC, m.value());                                                                                                \
    }                                                                                                                            \
    int& operator()(int x) QUAL                                                                                                  \
        requires(S::id == 4)                                                                                                     \
    {                                                                                                                            \
        g_ret = go(QC, x);                                                                                                       \
        return g_ret;                                                                                                            \
    }
#define C20_CALL_OPERATORS                                                                                                       \
    C20_CALL_OPERATORS_Q(&, '&')                                                                                                 \
    C20_CALL_OPERATORS_Q(const&, 'c')                                                                                            \
    C20_CALL_OPERATORS_Q(&&, 'r')                                                                                                \
    C20_CALL_OPERATORS_Q(const&&, 'k')

template <typename S>
struct Small {
    int v;
    C20_CALL_OPERATORS
    int go(char q, int x) const
    {
        if (x < 0) { return encode(k_small, v, 0); }
        rec(k_small, q, x);
        return encode(k_small, v, 0) + x;
    }
};
static_assert(std::is_trivially_copyable_v<Small<Sig0>>);

using TC = mc::Tracked<mc::copy_move>;

template <std::size_t Cap, typename S>
struct Big {
    TC t;
    unsigned char pad[Cap - sizeof(TC)];
    static unsigned char pat(int v, std::size_t i) { return static_cast<unsigned char>(v * 37 + int(i) * 11 + 5); }
    explicit Big(int v) : t(v)
    {
        for (std::size_t i = 0; i < sizeof pad; ++i) { pad[i] = pat(v, i); }
    }
    C20_CALL_OPERATORS
    int go(char q, int x) const
    {
        int const v = t.value();
        for (std::size_t i = 0; i < sizeof pad; ++i) {
            if (pad[i] != pat(v, i)) { return -7777; } // the tail of the object was not carried along
        }
        if (x < 0) { return encode(k_big, v, 0); }
        rec(k_big, q, x);
        return encode(k_big, v, 0) + x;
    }
};

template <int CMAX, typename S>
struct Counter {
    int v;
    mutable int count;
    C20_CALL_OPERATORS
    int go(char q, int x) const
    {
        if (x < 0) { return encode(k_counter, v, count); }
        count = count < CMAX ? count + 1 : CMAX;
        rec(k_counter, q, x);
        return encode(k_counter, v, count) + x;
    }
};
static_assert(std::is_trivially_copyable_v<Counter<2, Sig0>>);

template <int CMAX, typename S>
struct TCounter {
    TC t;
    mutable int count{0};
    explicit TCounter(int v) : t(v) { }
    C20_CALL_OPERATORS
    int go(char q, int x) const
    {
        if (x < 0) { return encode(k_tcounter, t.value(), count); }
        count = count < CMAX ? count + 1 : CMAX;
        rec(k_tcounter, q, x);
        return encode(k_tcounter, t.value(), count) + x;
    }
};

enum Kind : int {
    c_default,
    c_value_init,
    c_nullptr,
    c_callable_r,
    c_callable_l,
    c_copy,
    c_move,
    c_conv_copy_up,
    c_conv_move_up,
    c_from_small_copy,
    c_from_small_move,
    a_nullptr,
    a_callable_r,
    a_callable_l,
    a_from_small_copy,
    a_from_small_move,
    a_self_copy,
    a_self_move,
    swap_self_member,
    swap_self_free,
    call,
    b_copy_assign,
    b_move_assign,
    b_swap_member,
    b_swap_free,
    b_copy_construct,
    b_move_construct,
    kind_total
};

char const* kind_subject(int k)
{
    static char const* names[] = {"inplace_function::inplace_function()", "inplace_function::inplace_function() value-init",
        "inplace_function::inplace_function(nullptr_t)", "inplace_function::inplace_function(T&&)", "inplace_function::inplace_function(T&&)",
        "inplace_function::inplace_function(inplace_function const&)", "inplace_function::inplace_function(inplace_function&&)",
        "inplace_function::inplace_function(inplace_function<Sig,Cap2> const&)", "inplace_function::inplace_function(inplace_function<Sig,Cap2>&&)",
        "inplace_function::inplace_function(inplace_function<Sig,Cap2> const&)", "inplace_function::inplace_function(inplace_function<Sig,Cap2>&&)",
        "inplace_function::operator=(nullptr_t)", "inplace_function::operator=(inplace_function) from callable",
        "inplace_function::operator=(inplace_function) from callable", "inplace_function::operator=(inplace_function) from smaller capacity",
        "inplace_function::operator=(inplace_function) from smaller capacity", "inplace_function::operator=(inplace_function)",
        "inplace_function::operator=(inplace_function)", "inplace_function::swap(inplace_function&)",
        "etl::swap(inplace_function&,inplace_function&)", "inplace_function::operator()", "inplace_function::operator=(inplace_function)",
        "inplace_function::operator=(inplace_function)", "inplace_function::swap(inplace_function&)",
        "etl::swap(inplace_function&,inplace_function&)", "inplace_function::inplace_function(inplace_function const&)",
        "inplace_function::inplace_function(inplace_function&&)"};
    static_assert(sizeof(names) / sizeof(names[0]) == kind_total);
    return names[k];
}

char const* kind_show(int k)
{
    static char const* names[] = {"default-init", "value-init", "construct(nullptr)", "construct(callable&&)", "construct(callable const&)",
        "copy-construct a temporary and call it", "move-construct a temporary and call it", "copy-construct a larger-capacity temporary and call it",
        "move-construct a larger-capacity temporary and call it", "construct from smaller-capacity function const&",
        "construct from smaller-capacity function&&", "= nullptr", "= callable&&", "= callable const&", "= smaller-capacity function const&",
        "= smaller-capacity function&&", "f = f", "f = move(f)", "f.swap(f)", "swap(f, f)", "call", "copy-assign", "move-assign", "member swap",
        "free swap", "re-construct as copy of", "re-construct by moving from"};
    static_assert(sizeof(names) / sizeof(names[0]) == kind_total);
    return names[k];
}

struct Model {
    int kind{-1};
    int v{0};
    int count{0};
};

template <std::size_t Cap, int NV, int CMAX, typename S = Sig0>
struct FnSys {
    using V      = etl::inplace_function<typename S::sig, Cap>;
    using VL     = etl::inplace_function<typename S::sig, 2 * Cap>;
    using VS     = etl::inplace_function<typename S::sig, 8>;
    using State  = Box<V, Model>;
    using Action = c20::Action;
    static constexpr bool has_small = Cap > 8;
    static_assert(sizeof(Big<Cap, S>) == Cap, "the capacity-filling functor must fill the capacity exactly");
    static_assert(sizeof(TCounter<CMAX, S>) <= 8 && sizeof(Counter<CMAX, S>) <= 8);

    std::string name() const { return cat("inplace_function<", S::name(), ",", Cap, "> values<", NV, " counter<=", CMAX); }
    std::string family() const { return "inplace_function"; }
    std::string show(Action const& a) const
    {
        switch (a.k) {
        case c_callable_r:
        case c_callable_l:
        case a_callable_r:
        case a_callable_l:
        case c_from_small_copy:
        case c_from_small_move:
        case a_from_small_copy:
        case a_from_small_move: return cat(kind_show(a.k), "[", kind_name(a.a), " v=", a.b, "]");
        case call: return cat(a.b ? "const call(" : "call(", a.a, ")");
        default: return kind_show(a.k);
        }
    }
    std::string subject(Action const& a) const { return kind_subject(a.k); }

    static std::string st(Model const& m) { return kind_name(m.kind); }
    static std::string mshow(Model const& m) { return m.kind < 0 ? std::string("empty") : cat(kind_name(m.kind), "(v=", m.v, ",c=", m.count, ")"); }
    static bool tracked_kind(int k) { return k == k_big || k == k_tcounter; }
    static std::size_t live_of(Model const& m) { return tracked_kind(m.kind) ? 1U : 0U; }
    static int peek_of(Model const& m) { return encode(m.kind, m.v, m.count); }
    static int model_call(Model& m, int x)
    {
        if (m.kind == k_counter || m.kind == k_tcounter) { m.count = m.count < CMAX ? m.count + 1 : CMAX; }
        return encode(m.kind, m.v, m.count) + x;
    }

    // f(callable prvalue of the requested kind holding v)
    template <typename F>
    static void with_callable(int kind, int v, F&& f)
    {
        switch (kind) {
        case k_fp: f(S::fp_of(v)); break;
        case k_small: f(Small<S>{v}); break;
        case k_big: f(Big<Cap, S>(v)); break;
        case k_counter: f(Counter<CMAX, S>{v, 0}); break;
        default: f(TCounter<CMAX, S>(v)); break;
        }
    }
    // kinds that fit into the 8-byte function type
    template <typename F>
    static void with_small_callable(int kind, int v, F&& f)
    {
        switch (kind) {
        case k_fp: f(S::fp_of(v)); break;
        case k_small: f(Small<S>{v}); break;
        case k_counter: f(Counter<CMAX, S>{v, 0}); break;
        default: f(TCounter<CMAX, S>(v)); break;
        }
    }

    void unary(State const& /*s*/, std::vector<Action>& out) const
    {
        out.push_back({c_default, 0, 0});
        out.push_back({c_value_init, 0, 0});
        out.push_back({c_nullptr, 0, 0});
        for (int k = 0; k < kind_count; ++k) {
            for (int v = 0; v < NV; ++v) {
                out.push_back({c_callable_r, k, v});
                out.push_back({c_callable_l, k, v});
                out.push_back({a_callable_r, k, v});
                out.push_back({a_callable_l, k, v});
                if constexpr (has_small) {
                    if (k != k_big) {
                        out.push_back({c_from_small_copy, k, v});
                        out.push_back({c_from_small_move, k, v});
                        out.push_back({a_from_small_copy, k, v});
                        out.push_back({a_from_small_move, k, v});
                    }
                }
            }
        }
        out.push_back({c_copy, 0, 0});
        out.push_back({c_move, 0, 0});
        out.push_back({c_conv_copy_up, 0, 0});
        out.push_back({c_conv_move_up, 0, 0});
        out.push_back({a_nullptr, 0, 0});
        out.push_back({a_self_copy, 0, 0});
        out.push_back({a_self_move, 0, 0});
        out.push_back({swap_self_member, 0, 0});
        out.push_back({swap_self_free, 0, 0});
        out.push_back({call, 0, 0});
        out.push_back({call, 1, 0});
        out.push_back({call, 0, 1});
    }

    void binary(std::vector<Action>& out) const
    {
        out.push_back({b_copy_assign, 0, 0});
        out.push_back({b_move_assign, 0, 0});
        out.push_back({b_swap_member, 0, 0});
        out.push_back({b_swap_free, 0, 0});
        out.push_back({b_copy_construct, 0, 0});
        out.push_back({b_move_construct, 0, 0});
    }

    // emptiness observers + identity of the target (peek) against the model
    template <typename Fn>
    bool same(Cx& cx, std::string const& subj, std::string const& cls, Fn const& f, Model const& m, char const* what) const
    {
        bool const b = static_cast<bool>(f);
        if (b != (m.kind >= 0)) {
            cx.r.count("comparisons");
            cx.fail("C20", subj, cls, cat(what, ": bool(f) tetl=", b, " model=", m.kind >= 0, " (model holds ", mshow(m), ")"));
            return false;
        }
        bool ok = true;
        ok &= ceq(cx, "C20", subj, cls, cat(what, ": f == nullptr"), f == nullptr, m.kind < 0);
        ok &= ceq(cx, "C20", subj, cls, cat(what, ": nullptr == f"), nullptr == f, m.kind < 0);
        ok &= ceq(cx, "C20", subj, cls, cat(what, ": f != nullptr"), f != nullptr, m.kind >= 0);
        ok &= ceq(cx, "C20", subj, cls, cat(what, ": nullptr != f"), nullptr != f, m.kind >= 0);
        if (b) { ok &= ceq(cx, "C20", subj, cls, cat(what, ": identity and state of the stored target"), S::call(f, -1), peek_of(m)); }
        return ok;
    }

    // one logged call through f, compared with the model (which is advanced)
    template <typename Fn>
    void call_once(Cx& cx, std::string const& subj, std::string const& cls, Fn& f, Model& m, int x, int& expected_calls, char const* what) const
    {
        int const before = g_rec.calls;
        int const got    = S::call(f, x);
        int const want   = model_call(m, x);
        ++expected_calls;
        ceq(cx, "C20", subj, cls, cat(what, ": result of the call"), got, want);
        ceq(cx, "C20", subj, cls, cat(what, ": number of target invocations for one call"), g_rec.calls - before, 1);
        if (g_rec.calls - before >= 1) {
            ceq(cx, "C20", subj, cls, cat(what, ": argument seen by the target"), g_rec.last_x, x);
            ceq(cx, "C20", subj, cls, cat(what, ": kind of target invoked"), g_rec.last_kind, m.kind);
            ceq(cx, "C20", subj, cls, cat(what, ": target invoked as (& = non-const lvalue)"), g_rec.last_q, '&');
        }
    }

    void lifetimes(Cx& cx, std::string const& subj, std::string const& cls, State const& s, char const* what) const
    {
        drain_lifetimes(cx, subj, cls);
        check_live(cx, subj, cls, s.lo(), s.hi(), live_of(s.m), what);
    }

    void apply(State& s, Action const& a, State* p, Cx& cx)
    {
        V& v            = *s.v;
        Model& m        = s.m;
        auto const subj = subject(a);
        std::string cls = st(m);
        if (p != nullptr) { cls += "+" + st(p->m); }
        note_case(cx, name(), mshow(m), a, p != nullptr ? mshow(p->m) : std::string());
        g_rec              = CallRec{};
        int expected_calls = 0;
        (void)registry().take_errors(); // stale entries from rebuilt prefixes were reported when first explored
        switch (a.k) {
        case c_default: {
            cls = "general";
            v.~V();
            std::memset(s.buf, s.poison, sizeof s.buf);
            s.v = ::new (static_cast<void*>(s.buf)) V;
            m   = Model{};
            break;
        }
        case c_value_init: {
            cls = "general";
            v.~V();
            std::memset(s.buf, s.poison, sizeof s.buf);
            s.v = ::new (static_cast<void*>(s.buf)) V{};
            m   = Model{};
            break;
        }
        case c_nullptr: {
            cls = "general";
            s.recreate(nullptr);
            m = Model{};
            break;
        }
        case c_callable_r: {
            cls = cat("arg_", kind_name(a.a));
            with_callable(a.a, a.b, [&](auto&& c) { s.recreate(std::move(c)); });
            m = Model{a.a, a.b, 0};
            break;
        }
        case c_callable_l: {
            cls = cat("arg_", kind_name(a.a));
            with_callable(a.a, a.b, [&](auto&& c) {
                auto const& cc = c;
                s.recreate(cc);
                ceq(cx, "C20", subj, cls, "source callable after being copied in", S::call(cc, -1), encode(a.a, a.b, 0));
            });
            m = Model{a.a, a.b, 0};
            break;
        }
        case c_copy: {
            {
                V const& cv = v;
                V t(cv);
                Model mt = m;
                same(cx, subj, cls, t, mt, "copy");
                if (mt.kind >= 0) { call_once(cx, subj, cls, t, mt, 1, expected_calls, "copy"); }
                same(cx, subj, cls, t, mt, "copy after one call");
                same(cx, subj, cls, v, m, "source after the copy was called (independent state)");
            }
            break;
        }
        case c_move: {
            {
                V t(std::move(v));
                Model mt = m;
                m        = Model{};
                same(cx, subj, cls, t, mt, "move target");
                same(cx, subj, cls, v, m, "source of the move (must be empty)");
                if (mt.kind >= 0) { call_once(cx, subj, cls, t, mt, 1, expected_calls, "move target"); }
                same(cx, subj, cls, t, mt, "move target after one call");
            }
            break;
        }
        case c_conv_copy_up: {
            {
                V const& cv = v;
                VL t(cv);
                Model mt = m;
                same(cx, subj, cls, t, mt, "larger-capacity copy");
                if (mt.kind >= 0) { call_once(cx, subj, cls, t, mt, 1, expected_calls, "larger-capacity copy"); }
                same(cx, subj, cls, t, mt, "larger-capacity copy after one call");
                same(cx, subj, cls, v, m, "source after the copy was called (independent state)");
                // the larger function object is itself copyable / movable
                VL t2(static_cast<VL const&>(t));
                same(cx, subj, cls, t2, mt, "copy of the larger-capacity copy");
                VL t3(std::move(t2));
                same(cx, subj, cls, t3, mt, "move of the larger-capacity copy");
                same(cx, subj, cls, t2, Model{}, "moved-from larger-capacity copy");
            }
            break;
        }
        case c_conv_move_up: {
            {
                VL t(std::move(v));
                Model mt = m;
                m        = Model{};
                same(cx, subj, cls, t, mt, "larger-capacity move target");
                same(cx, subj, cls, v, m, "source of the move (must be empty)");
                if (mt.kind >= 0) { call_once(cx, subj, cls, t, mt, 1, expected_calls, "larger-capacity move target"); }
                same(cx, subj, cls, t, mt, "larger-capacity move target after one call");
            }
            break;
        }
        case c_from_small_copy:
        case c_from_small_move:
        case a_from_small_copy:
        case a_from_small_move: {
            if constexpr (has_small) {
                cls = cat(st(m), "<-", kind_name(a.a));
                with_small_callable(a.a, a.b, [&](auto&& c) {
                    VS src(std::move(c));
                    Model ms{a.a, a.b, 0};
                    call_once(cx, subj, cls, src, ms, 0, expected_calls, "smaller-capacity source"); // counters carry state 1
                    VS const& csrc = src;
                    switch (a.k) {
                    case c_from_small_copy: s.recreate(csrc); break;
                    case c_from_small_move: s.recreate(std::move(src)); break;
                    case a_from_small_copy: v = csrc; break;
                    default: v = std::move(src); break;
                    }
                    m = ms;
                    if (a.k == c_from_small_copy || a.k == a_from_small_copy) {
                        same(cx, subj, cls, src, ms, "smaller-capacity source after the copy");
                    } else {
                        same(cx, subj, cls, src, Model{}, "smaller-capacity source of the move (must be empty)");
                    }
                });
            }
            break;
        }
        case a_nullptr: {
            v = nullptr;
            m = Model{};
            break;
        }
        case a_callable_r: {
            cls = cat(st(m), "<-", kind_name(a.a));
            with_callable(a.a, a.b, [&](auto&& c) { v = std::move(c); });
            m = Model{a.a, a.b, 0};
            break;
        }
        case a_callable_l: {
            cls = cat(st(m), "<-", kind_name(a.a));
            with_callable(a.a, a.b, [&](auto&& c) {
                auto const& cc = c;
                v              = cc;
                ceq(cx, "C20", subj, cls, "source callable after being copied in", S::call(cc, -1), encode(a.a, a.b, 0));
            });
            m = Model{a.a, a.b, 0};
            break;
        }
        case a_self_copy: {
            cls            = "self/" + st(m);
            V const& alias = v;
            v              = alias;
            break;
        }
        case a_self_move: {
            cls      = "self/" + st(m);
            V& alias = v;
            v        = std::move(alias);
            // self move-assignment is only required to leave a valid object: empty, or the same target
            if (!static_cast<bool>(v)) { m = Model{}; }
            break;
        }
        case swap_self_member: {
            cls      = "self/" + st(m);
            V& alias = v;
            v.swap(alias);
            break;
        }
        case swap_self_free: {
            cls      = "self/" + st(m);
            V& alias = v;
            using etl::swap;
            swap(v, alias);
            break;
        }
        case call: {
            if (m.kind < 0) {
                int r      = 0;
                mc::Trap t = mc::guarded([&] { r = S::call(v, a.a); });
                cx.r.count("empty_calls");
                if constexpr (S::id == 3) {
                    // the trap unwinds past the adapter's argument object without destroying it
                    if (t != mc::Trap::none) { purge_outside(s.lo(), s.hi(), nullptr, nullptr); }
                }
                if (t == mc::Trap::none) {
                    cx.fail("C20", subj, cls, cat("calling an empty inplace_function returned ", r, " instead of reaching etl::exception_handler"));
                } else if (t != mc::Trap::exception_raised) {
                    cx.fail("C02", subj, cls, cat("calling an empty inplace_function: ", mc::describe_trap(t)));
                }
            } else {
                if (a.b == 0) {
                    call_once(cx, subj, cls, v, m, a.a, expected_calls, "call");
                } else {
                    // the const call operator reaches the same (mutable) target
                    V const& cv = v;
                    call_once(cx, subj, cls, cv, m, a.a, expected_calls, "call through const&");
                }
            }
            break;
        }
        case b_copy_assign: {
            V const& src = *p->v;
            v            = src;
            m            = p->m;
            break;
        }
        case b_move_assign: {
            v    = std::move(*p->v);
            m    = p->m;
            p->m = Model{};
            break;
        }
        case b_swap_member: {
            v.swap(*p->v);
            std::swap(m, p->m);
            break;
        }
        case b_swap_free: {
            using etl::swap;
            swap(v, *p->v);
            std::swap(m, p->m);
            break;
        }
        case b_copy_construct: {
            V const& src = *p->v;
            s.recreate(src);
            m = p->m;
            break;
        }
        case b_move_construct: {
            s.recreate(std::move(*p->v));
            m    = p->m;
            p->m = Model{};
            break;
        }
        default: break;
        }
        same(cx, subj, cls, *s.v, m, "after the operation");
        lifetimes(cx, subj, cls, s, "after the operation");
        if (p != nullptr) {
            same(cx, subj, cls, *p->v, p->m, "other operand after the operation");
            check_live(cx, subj, cls, p->lo(), p->hi(), live_of(p->m), "other operand");
        }
        ceq(cx, "C20", subj, cls, "target invocations during the whole operation", g_rec.calls, expected_calls);
        auto const total = registry().live_count();
        auto const want  = live_of(m) + (p != nullptr ? live_of(p->m) : 0U);
        if (first_execution(cx) && total != want) {
            cx.fail("C03", subj, cls + "/live-total", cat("live tracked captures after the operation: ", total, ", expected: ", want, " (a temporary or displaced target was not destroyed)"));
            purge_outside(s.lo(), s.hi(), p != nullptr ? p->lo() : nullptr, p != nullptr ? p->hi() : nullptr);
        }
    }

    void observe(State const& s, Cx& cx) const
    {
        auto const cls = st(s.m);
        same(cx, "inplace_function::operator bool", cls, *s.v, s.m, "observers");
        static_assert(std::is_same_v<typename V::capacity, etl::integral_constant<etl::size_t, Cap>>);
        static_assert(sizeof(V) >= Cap);
        drain_lifetimes(cx, "inplace_function::operator bool", cls);
    }

    std::string obs(State const& s) const
    {
        if (!static_cast<bool>(*s.v)) { return "E"; }
        return cat("F", S::call(*s.v, -1));
    }
    std::string key(State const& s) const { return cat(s.m.kind, ",", s.m.v, ",", s.m.count, "|", obs(s)); }

    void retire(State& s, Cx& cx) const
    {
        if (s.dead) { return; }
        auto const kase = cat(name(), ": <any history reaching ", mshow(s.m), "> => destroy the function object");
        s.v->~V();
        s.dead = true;
        drain_lifetimes_at_retire(cx, "inplace_function::~inplace_function", st(s.m), kase);
        auto const live = registry().live_in(s.lo(), s.hi());
        if (live != 0) {
            cx.failed = true;
            cx.r.violation("C03", "inplace_function::~inplace_function", st(s.m) + "/leak", kase, cat(live, " capture(s) still alive after the function object was destroyed"));
            registry().forget_range(s.lo(), s.hi());
        }
    }
};

} // namespace

int main(int argc, char** argv)
{
    mc::Main m(argc, argv);
    std::vector<std::string> const both{"quick", "thorough"};
    std::vector<std::string> const th{"thorough"};
#if !defined(MC_PART) || MC_PART == 1
    m.job("inplace_function<int(int),8>/v2c2", both, [](mc::Reporter& r) { explore<FnSys<8, 2, 2>>(r); });
    m.job("inplace_function<int(int),16>/v2c2", both, [](mc::Reporter& r) { explore<FnSys<16, 2, 2>>(r); });
    m.job("inplace_function<int(int),32>/v2c2", both, [](mc::Reporter& r) { explore<FnSys<32, 2, 2>>(r); });
    m.job("inplace_function<int(int),8>/v3c3", th, [](mc::Reporter& r) { explore<FnSys<8, 3, 3>>(r); });
    m.job("inplace_function<int(int),16>/v3c3", th, [](mc::Reporter& r) { explore<FnSys<16, 3, 3>>(r); });
    m.job("inplace_function<int(int),24>/v3c3", th, [](mc::Reporter& r) { explore<FnSys<24, 3, 3>>(r); });
    m.job("inplace_function<int(int),64>/v3c3", th, [](mc::Reporter& r) { explore<FnSys<64, 3, 3>>(r); });
#endif
#if !defined(MC_PART) || MC_PART == 2
    // round 2: the other call signatures
    m.job("inplace_function<void(),16>/v2c2", both, [](mc::Reporter& r) { explore<FnSys<16, 2, 2, Sig1>>(r); });
    m.job("inplace_function<int(int,int),16>/v2c2", both, [](mc::Reporter& r) { explore<FnSys<16, 2, 2, Sig2>>(r); });
    m.job("inplace_function<int(MoveOnly&&),16>/v2c2", both, [](mc::Reporter& r) { explore<FnSys<16, 2, 2, Sig3>>(r); });
    m.job("inplace_function<int&(int),16>/v2c2", both, [](mc::Reporter& r) { explore<FnSys<16, 2, 2, Sig4>>(r); });
#endif
#if !defined(MC_PART) || MC_PART == 3
    m.job("inplace_function<void(),8>/v2c2", th, [](mc::Reporter& r) { explore<FnSys<8, 2, 2, Sig1>>(r); });
    m.job("inplace_function<void(),32>/v3c3", th, [](mc::Reporter& r) { explore<FnSys<32, 3, 3, Sig1>>(r); });
    m.job("inplace_function<int(int,int),8>/v2c2", th, [](mc::Reporter& r) { explore<FnSys<8, 2, 2, Sig2>>(r); });
    m.job("inplace_function<int(int,int),32>/v3c3", th, [](mc::Reporter& r) { explore<FnSys<32, 3, 3, Sig2>>(r); });
    m.job("inplace_function<int(MoveOnly&&),8>/v2c2", th, [](mc::Reporter& r) { explore<FnSys<8, 2, 2, Sig3>>(r); });
    m.job("inplace_function<int(MoveOnly&&),32>/v3c3", th, [](mc::Reporter& r) { explore<FnSys<32, 3, 3, Sig3>>(r); });
    m.job("inplace_function<int&(int),8>/v2c2", th, [](mc::Reporter& r) { explore<FnSys<8, 2, 2, Sig4>>(r); });
    m.job("inplace_function<int&(int),32>/v3c3", th, [](mc::Reporter& r) { explore<FnSys<32, 3, 3, Sig4>>(r); });
#endif
    return m.run();
}
