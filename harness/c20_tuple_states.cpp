// C20 (a) and the pair/tuple part of C03:
// etl::pair<T1,T2> / etl::tuple<Ts...> explored as state machines in lock-step with
// std::pair / std::tuple holding the reference twin of every instrumented element.
//
// State   = the element values (domain {0..K-1}, plus "moved-from" = -1 for instrumented elements).
// Actions = every constructor form that exists (default, value-init, (T const&...), (U&&...) from rvalues of
//           the element types and of convertible types, pair converting copy/move, make_pair/make_tuple, copy
//           and move construction), pair assignment (copy, move, converting copy/move, self), swap (member;
//           free for pair; self), consumption through apply / make_from_tuple / tuple_cat of an rvalue, and over
//           every ordered pair of states: copy/move assignment (pair), swap, all six relations + != (pair),
//           == and != incl. mixed element types (tuple), copy/move construction from the other state.
// Observers in every state: get<I> on & / const& / && / const&& (address identity and result types against
//           std), structured bindings (pair), tuple_size / tuple_element, apply / make_from_tuple with a
//           category-logging callable on all four value categories, tuple_cat of one and two const lvalues.
// Oracle  = lock-step with libstdc++; for instrumented elements also the number of copy and move constructions
//           of every operation (each element must be forwarded exactly as std forwards it); lifetime registry
//           (C03): no illegal transition, live elements inside the owner = element count, nothing alive after
//           the owner is destroyed.
//
// API gaps (do not compile, not exercised): tuple has no assignment operators (copy assignment is implicitly
// deleted), no converting constructors from tuple<U...>/pair, no get<T>, no relational operators besides ==,
// no free swap, no structured bindings (no std::tuple_size specialisation), tuple<> does not instantiate;
// pair has no get<T>, no piecewise constructor, no operator<=>, no mixed-type comparison;
// tuple_cat does not compile for two or more arguments when one is a non-const lvalue, nor for move-only elements;
// etl::apply only finds get(pair) when <etl/utility.hpp> is included before <etl/tuple.hpp>.
#include "c20_common.hpp"

#include <etl/utility.hpp> // first: etl::apply calls etl::get qualified and only sees the overloads declared before it

#include <etl/functional.hpp>
#include <etl/tuple.hpp>

#include <optional>
#include <tuple>

using namespace c20;

namespace {

template <typename...>
struct TL { };

template <bool IsPair, typename... X>
struct etl_of {
    using type = etl::tuple<X...>;
};
template <typename A, typename B>
struct etl_of<true, A, B> {
    using type = etl::pair<A, B>;
};
template <bool IsPair, typename... X>
struct std_of {
    using type = std::tuple<X...>;
};
template <typename A, typename B>
struct std_of<true, A, B> {
    using type = std::pair<A, B>;
};

// etl::tuple<X...> -> std::tuple<X...>, etl::pair<A,B> -> std::pair<A,B> (for result-type comparisons)
template <typename T>
struct to_std {
    using type = T;
};
template <typename... X>
struct to_std<etl::tuple<X...>> {
    using type = std::tuple<X...>;
};
template <typename A, typename B>
struct to_std<etl::pair<A, B>> {
    using type = std::pair<A, B>;
};
template <typename T>
using to_std_t = typename to_std<T>::type;

template <std::size_t I, typename T>
decltype(auto) eget(T&& t)
{
    using etl::get;
    using std::get;
    return get<I>(std::forward<T>(t));
}

template <std::size_t N, typename T>
std::string tl_show(T const& t)
{
    return [&]<std::size_t... I>(std::index_sequence<I...>) {
        std::string o = "(";
        ((o += (I ? "," : "") + std::to_string(val(eget<I>(t)))), ...);
        return o + ")";
    }(std::make_index_sequence<N>{});
}

template <typename T>
std::string tn()
{
    std::string p = __PRETTY_FUNCTION__;
    auto b        = p.find("T = ");
    if (b == std::string::npos) { return p; }
    b += 4;
    auto e = p.find_first_of(";]", b);
    return p.substr(b, e - b);
}

template <typename Got, typename Want>
void type_is(Cx& cx, std::string const& subj, std::string const& cls, std::string const& what)
{
    cx.r.count("type_checks");
    if constexpr (!std::is_same_v<Got, Want>) { cx.fail("C20", subj, cls, cat(what, ": type tetl=", tn<Got>(), " std=", tn<Want>())); }
}

// a sink for make_from_tuple: holds what it was constructed from, element by element
template <typename... X>
struct Sink {
    std::tuple<X...> held;
    template <typename... A>
        requires(sizeof...(A) == sizeof...(X))
    explicit Sink(A&&... a) : held(std::forward<A>(a)...)
    {
    }
};

// a sink that only records the value categories it was constructed from
struct CatSink {
    std::string cats;
    template <typename... A>
    explicit CatSink(A&&... a) : cats(show_args(std::forward<A>(a)...))
    {
    }
};

enum Kind : int {
    c_default,
    c_value_init,
    c_values_l,
    c_values_r,
    c_values_conv,
    c_conv_copy,
    c_conv_move,
    c_make,
    c_copy,
    c_move,
    a_conv_copy,
    a_conv_move,
    a_self_copy,
    a_self_move,
    swap_self_member,
    swap_self_free,
    apply_r,
    mft_r,
    cat_r,
    cat2_r,
    take_element,
    b_copy_assign,
    b_move_assign,
    b_swap_member,
    b_swap_free,
    b_relational,
    b_eq_mixed,
    b_copy_construct,
    b_move_construct,
    kind_total
};

char const* kind_text(int k)
{
    static char const* names[] = {"X::X() default-init", "X::X() value-init", "X::X(T const&...)", "X::X(U&&...)", "X::X(U&&...) converting",
        "pair::pair(pair<U1,U2> const&)", "pair::pair(pair<U1,U2>&&)", "make_X(T&&...)", "X::X(X const&)", "X::X(X&&)",
        "pair::operator=(pair<U1,U2> const&)", "pair::operator=(pair<U1,U2>&&)", "pair::operator=(pair const&)", "pair::operator=(pair&&)",
        "X::swap(X&)", "etl::swap(pair&,pair&)", "apply(F&&,X&&)", "make_from_tuple<T>(X&&)", "tuple_cat(X&&)", "tuple_cat(X&&,Y&&)", "get<I>(X&&)",
        "pair::operator=(pair const&)", "pair::operator=(pair&&)", "X::swap(X&)", "etl::swap(pair&,pair&)", "X relational operators",
        "tuple::operator==(tuple<U...>)", "X::X(X const&)", "X::X(X&&)"};
    static_assert(sizeof(names) / sizeof(names[0]) == kind_total);
    return names[k];
}

std::string kind_subject(int k, bool is_pair)
{
    std::string s = kind_text(k);
    for (auto pos = s.find('X'); pos != std::string::npos; pos = s.find('X', pos + 4)) { s.replace(pos, 1, is_pair ? "pair" : "tuple"); }
    return s;
}

template <bool IsPair, int K, typename TsL, typename UsL>
struct TupSys;

template <bool IsPair, int K, typename... Ts, typename... Us>
struct TupSys<IsPair, K, TL<Ts...>, TL<Us...>> {
    static constexpr std::size_t N = sizeof...(Ts);
    static_assert(sizeof...(Us) == N);
    using V      = typename etl_of<IsPair, Ts...>::type;
    using M      = typename std_of<IsPair, twin_t<Ts>...>::type;
    using VU     = typename etl_of<IsPair, Us...>::type;
    using MU     = typename std_of<IsPair, Us...>::type;
    using SV     = typename std_of<IsPair, Ts...>::type; // std type with identical element types: type comparisons only
    using Seq    = std::make_index_sequence<N>;
    using State  = Box<V, M>;
    using Action = c20::Action;
    static constexpr bool tracked      = (mc::is_tracked_v<Ts> || ...);
    static constexpr bool copyable     = (std::is_copy_constructible_v<Ts> && ...);
    static constexpr bool copy_assign  = IsPair && (std::is_copy_assignable_v<Ts> && ...);
    static constexpr bool move_assign  = IsPair && (std::is_move_assignable_v<Ts> && ...);
    static constexpr bool conv_copy_ok = IsPair && (std::is_constructible_v<Ts, Us const&> && ...);
    static constexpr bool conv_copy_assign = IsPair && (std::is_assignable_v<Ts&, Us const&> && ...);
    static constexpr bool conv_move_assign = IsPair && (std::is_assignable_v<Ts&, Us&&> && ...);

    static constexpr int ncodes()
    {
        int n = 1;
        for (std::size_t i = 0; i < N; ++i) { n *= K; }
        return n;
    }
    static int dig(int code, std::size_t i)
    {
        for (std::size_t j = 0; j < i; ++j) { code /= K; }
        return code % K;
    }

    std::string name() const
    {
        std::string o = IsPair ? "pair<" : "tuple<";
        std::size_t i = 0;
        ((o += (i++ ? "," : "") + aname<Ts>()), ...);
        return o + cat("> values<", K);
    }
    std::string family() const { return IsPair ? "pair" : "tuple"; }
    std::string show(Action const& a) const
    {
        switch (a.k) {
        case c_values_l:
        case c_values_r:
        case c_values_conv:
        case c_conv_copy:
        case c_conv_move:
        case c_make:
        case a_conv_copy:
        case a_conv_move:
        case take_element: return cat("take get<", a.a, ">(move(x))");
        case cat2_r: {
            std::string o = kind_subject(a.k, IsPair) + "[";
            for (std::size_t i = 0; i < N; ++i) { o += (i ? "," : "") + std::to_string(dig(a.a, i)); }
            return o + "]";
        }
        default: return kind_subject(a.k, IsPair);
        }
    }
    std::string subject(Action const& a) const { return kind_subject(a.k, IsPair); }

    static std::string mshow(M const& m) { return tl_show<N>(m); }
    static std::string st(M const& m)
    {
        bool moved = false;
        [&]<std::size_t... I>(std::index_sequence<I...>) { ((moved = moved || val(eget<I>(m)) < 0), ...); }(Seq{});
        return moved ? "moved-from" : "general";
    }

    // ---- builders -------------------------------------------------------------------------
    template <typename F>
    static decltype(auto) with_values(int code, F&& f) // f(prvalues of the element types)
    {
        return [&]<std::size_t... I>(std::index_sequence<I...>) -> decltype(auto) { return f(make<Ts>(dig(code, I))...); }(Seq{});
    }
    template <typename F>
    static decltype(auto) with_twin_values(int code, F&& f)
    {
        return [&]<std::size_t... I>(std::index_sequence<I...>) -> decltype(auto) { return f(make<twin_t<Ts>>(dig(code, I))...); }(Seq{});
    }
    template <typename F>
    static decltype(auto) with_u_values(int code, F&& f)
    {
        return [&]<std::size_t... I>(std::index_sequence<I...>) -> decltype(auto) { return f(make<Us>(dig(code, I))...); }(Seq{});
    }
    static VU mk_vu(int code)
    {
        return with_u_values(code, [](auto&&... u) { return VU(std::move(u)...); });
    }
    static MU mk_mu(int code)
    {
        return with_u_values(code, [](auto&&... u) { return MU(std::move(u)...); });
    }

    void unary(State const& /*s*/, std::vector<Action>& out) const
    {
        out.push_back({c_default, 0, 0});
        out.push_back({c_value_init, 0, 0});
        for (int c = 0; c < ncodes(); ++c) {
            if constexpr (copyable) { out.push_back({c_values_l, c, 0}); }
            out.push_back({c_values_r, c, 0});
            out.push_back({c_values_conv, c, 0});
            out.push_back({c_make, c, 0});
            if constexpr (IsPair) {
                if constexpr (conv_copy_ok) { out.push_back({c_conv_copy, c, 0}); }
                if constexpr (conv_copy_assign) { out.push_back({a_conv_copy, c, 0}); }
                out.push_back({c_conv_move, c, 0});
                if constexpr (conv_move_assign) { out.push_back({a_conv_move, c, 0}); }
            }
            if constexpr (copyable) { out.push_back({cat2_r, c, 0}); }
        }
        if constexpr (copyable) { out.push_back({c_copy, 0, 0}); }
        out.push_back({c_move, 0, 0});
        if constexpr (copy_assign) { out.push_back({a_self_copy, 0, 0}); }
        if constexpr (move_assign) { out.push_back({a_self_move, 0, 0}); }
        out.push_back({swap_self_member, 0, 0});
        if constexpr (IsPair) { out.push_back({swap_self_free, 0, 0}); }
        out.push_back({apply_r, 0, 0});
        out.push_back({mft_r, 0, 0});
        if constexpr (copyable) { out.push_back({cat_r, 0, 0}); }
        for (int i = 0; i < int(N); ++i) { out.push_back({take_element, i, 0}); }
    }

    void binary(std::vector<Action>& out) const
    {
        if constexpr (copy_assign) { out.push_back({b_copy_assign, 0, 0}); }
        if constexpr (move_assign) { out.push_back({b_move_assign, 0, 0}); }
        out.push_back({b_swap_member, 0, 0});
        if constexpr (IsPair) { out.push_back({b_swap_free, 0, 0}); }
        out.push_back({b_relational, 0, 0});
        if constexpr (!IsPair) { out.push_back({b_eq_mixed, 0, 0}); }
        if constexpr (copyable) { out.push_back({b_copy_construct, 0, 0}); }
        out.push_back({b_move_construct, 0, 0});
    }

    template <typename X, typename Y>
    bool same(Cx& cx, std::string const& subj, std::string const& cls, X const& v, Y const& m, char const* what) const
    {
        return ceq(cx, "C20", subj, cls, cat(what, ": element values"), tl_show<N>(v), tl_show<N>(m));
    }

    void lifetimes(Cx& cx, std::string const& subj, std::string const& cls, State const& s, char const* what) const
    {
        if constexpr (tracked) {
            drain_lifetimes(cx, subj, cls);
            check_live(cx, subj, cls, s.lo(), s.hi(), (std::size_t(mc::is_tracked_v<Ts>) + ...), what);
        }
    }

    // runs the tetl operation and the std operation and compares the number of copy / move constructions
    template <typename FI, typename FM>
    void counted(Cx& cx, std::string const& subj, std::string const& cls, char const* what, FI&& fi, FM&& fm) const
    {
        auto const i0 = impl_counts();
        fi();
        auto const i1 = impl_counts();
        auto const t0 = twin_counts();
        fm();
        auto const t1 = twin_counts();
        if constexpr (tracked) {
            ceq(cx, "C20", subj, cls, cat(what, ": copy constructions of instrumented elements"), i1.copies - i0.copies, t1.copies - t0.copies);
            ceq(cx, "C20", subj, cls, cat(what, ": move constructions of instrumented elements"), i1.moves - i0.moves, t1.moves - t0.moves);
        }
    }

    void apply(State& s, Action const& a, State* p, Cx& cx)
    {
        V& v            = *s.v;
        M& m            = s.m;
        auto const subj = subject(a);
        std::string cls = st(m);
        if (p != nullptr) { cls += "+" + st(p->m); }
        note_case(cx, name(), mshow(m), a, p != nullptr ? mshow(p->m) : std::string());
        std::optional<M> nm; // the model's new value when the action constructs
        if constexpr (tracked) { (void)registry().take_errors(); } // stale entries from rebuilt prefixes were reported when first explored
        switch (a.k) {
        case c_default: {
            cls = "general";
            v.~V();
            std::memset(s.buf, s.poison, sizeof s.buf);
            s.v = ::new (static_cast<void*>(s.buf)) V;
            nm.emplace();
            break;
        }
        case c_value_init: {
            cls = "general";
            v.~V();
            std::memset(s.buf, s.poison, sizeof s.buf);
            s.v = ::new (static_cast<void*>(s.buf)) V{};
            nm.emplace();
            break;
        }
        case c_values_l: {
            if constexpr (copyable) {
                cls = "general";
                with_values(a.a, [&](auto&&... x) {
                    with_twin_values(a.a, [&](auto&&... y) {
                        counted(
                            cx, subj, cls, "construction from const lvalues", [&] { s.recreate(std::as_const(x)...); }, [&] { nm.emplace(std::as_const(y)...); });
                        ceq(cx, "C20", subj, cls, "sources after the copy", show_args(x...), show_args(y...));
                    });
                });
            }
            break;
        }
        case c_values_r: {
            cls = "general";
            with_values(a.a, [&](auto&&... x) {
                with_twin_values(a.a, [&](auto&&... y) {
                    counted(cx, subj, cls, "construction from rvalues", [&] { s.recreate(std::move(x)...); }, [&] { nm.emplace(std::move(y)...); });
                    ceq(cx, "C20", subj, cls, "sources after the move", show_args(x...), show_args(y...));
                });
            });
            break;
        }
        case c_values_conv: {
            cls = "general";
            with_u_values(a.a, [&](auto&&... x) {
                with_u_values(a.a, [&](auto&&... y) {
                    counted(cx, subj, cls, "construction from convertible rvalues", [&] { s.recreate(std::move(x)...); }, [&] { nm.emplace(std::move(y)...); });
                });
            });
            break;
        }
        case c_conv_copy: {
            if constexpr (IsPair && conv_copy_ok) {
                cls            = "general";
                VU const src   = mk_vu(a.a);
                MU const msrc  = mk_mu(a.a);
                counted(cx, subj, cls, "converting copy construction", [&] { s.recreate(src); }, [&] { nm.emplace(msrc); });
                same(cx, subj, cls, src, msrc, "source after the converting copy");
            }
            break;
        }
        case c_conv_move: {
            if constexpr (IsPair) {
                cls     = "general";
                VU src  = mk_vu(a.a);
                MU msrc = mk_mu(a.a);
                counted(cx, subj, cls, "converting move construction", [&] { s.recreate(std::move(src)); }, [&] { nm.emplace(std::move(msrc)); });
                same(cx, subj, cls, src, msrc, "source after the converting move");
            }
            break;
        }
        case c_make: {
            cls = "general";
            with_values(a.a, [&](auto&&... x) {
                with_twin_values(a.a, [&](auto&&... y) {
                    if constexpr (IsPair) {
                        type_is<to_std_t<decltype(etl::make_pair(std::move(x)...))>, decltype(std::make_pair(std::move(x)...))>(cx, subj, cls, "make_pair(rvalues)");
                        counted(
                            cx, subj, cls, "make_pair", [&] { s.recreate(etl::make_pair(std::move(x)...)); }, [&] { nm.emplace(std::make_pair(std::move(y)...)); });
                    } else {
                        type_is<to_std_t<decltype(etl::make_tuple(std::move(x)...))>, decltype(std::make_tuple(std::move(x)...))>(cx, subj, cls, "make_tuple(rvalues)");
                        counted(
                            cx, subj, cls, "make_tuple", [&] { s.recreate(etl::make_tuple(std::move(x)...)); }, [&] { nm.emplace(std::make_tuple(std::move(y)...)); });
                    }
                });
            });
            break;
        }
        case c_copy: {
            if constexpr (copyable) {
                std::optional<V> t;
                std::optional<M> mt;
                counted(cx, subj, cls, "copy construction", [&] { t.emplace(std::as_const(v)); }, [&] { mt.emplace(std::as_const(m)); });
                same(cx, subj, cls, *t, *mt, "copy");
                t.reset();
            }
            break;
        }
        case c_move: {
            std::optional<V> t;
            std::optional<M> mt;
            counted(cx, subj, cls, "move construction", [&] { t.emplace(std::move(v)); }, [&] { mt.emplace(std::move(m)); });
            same(cx, subj, cls, *t, *mt, "move target");
            t.reset();
            break;
        }
        case a_conv_copy: {
            if constexpr (conv_copy_assign) {
                VU const src  = mk_vu(a.a);
                MU const msrc = mk_mu(a.a);
                counted(cx, subj, cls, "converting copy assignment", [&] { v = src; }, [&] { m = msrc; });
                same(cx, subj, cls, src, msrc, "source after the converting copy assignment");
            }
            break;
        }
        case a_conv_move: {
            if constexpr (conv_move_assign) {
                VU src  = mk_vu(a.a);
                MU msrc = mk_mu(a.a);
                counted(cx, subj, cls, "converting move assignment", [&] { v = std::move(src); }, [&] { m = std::move(msrc); });
                same(cx, subj, cls, src, msrc, "source after the converting move assignment");
            }
            break;
        }
        case a_self_copy: {
            if constexpr (copy_assign) {
                cls             = "self/" + st(m);
                V const& alias  = v;
                M const& malias = m;
                counted(cx, subj, cls, "self copy assignment", [&] { v = alias; }, [&] { m = malias; });
            }
            break;
        }
        case a_self_move: {
            if constexpr (move_assign) {
                // only required to leave a valid object: the model follows the implementation's values
                cls      = "self/" + st(m);
                V& alias = v;
                v        = std::move(alias);
                [&]<std::size_t... I>(std::index_sequence<I...>) { ((eget<I>(m) = std::tuple_element_t<I, M>(val(eget<I>(v)))), ...); }(Seq{});
            }
            break;
        }
        case swap_self_member: {
            cls       = "self/" + st(m);
            V& alias  = v;
            M& malias = m;
            counted(cx, subj, cls, "self swap", [&] { v.swap(alias); }, [&] { m.swap(malias); });
            break;
        }
        case swap_self_free: {
            if constexpr (IsPair) {
                cls       = "self/" + st(m);
                V& alias  = v;
                M& malias = m;
                counted(
                    cx, subj, cls, "self swap", [&] {
                        using etl::swap;
                        swap(v, alias);
                    },
                    [&] {
                        using std::swap;
                        swap(m, malias);
                    });
            }
            break;
        }
        case apply_r: {
            // a consumer that takes every element by value: rvalue elements must be moved out, not copied
            std::string li, lm;
            auto fi = [&](Ts... x) { li = show_args(x...); };
            auto fm = [&](twin_t<Ts>... y) { lm = show_args(y...); };
            counted(cx, subj, cls, "apply to an rvalue", [&] { etl::apply(fi, std::move(v)); }, [&] { std::apply(fm, std::move(m)); });
            ceq(cx, "C20", subj, cls, "values received by the callable", li, lm);
            break;
        }
        case mft_r: {
            std::optional<Sink<Ts...>> si;
            std::optional<Sink<twin_t<Ts>...>> sm;
            counted(
                cx, subj, cls, "make_from_tuple from an rvalue", [&] { si.emplace(etl::make_from_tuple<Sink<Ts...>>(std::move(v))); },
                [&] { sm.emplace(std::make_from_tuple<Sink<twin_t<Ts>...>>(std::move(m))); });
            ceq(cx, "C20", subj, cls, "values the object was made from", tl_show<N>(si->held), tl_show<N>(sm->held));
            si.reset();
            break;
        }
        case cat_r: {
            if constexpr (copyable) {
                using RI = decltype(etl::tuple_cat(std::move(v)));
                using RM = decltype(std::tuple_cat(std::move(m)));
                type_is<to_std_t<RI>, decltype(std::tuple_cat(std::declval<SV&&>()))>(cx, subj, cls, "tuple_cat(X&&)");
                std::optional<RI> ri;
                std::optional<RM> rm;
                counted(cx, subj, cls, "tuple_cat of one rvalue", [&] { ri.emplace(etl::tuple_cat(std::move(v))); }, [&] { rm.emplace(std::tuple_cat(std::move(m))); });
                ceq(cx, "C20", subj, cls, "values of the concatenation", tl_show<N>(*ri), tl_show<N>(*rm));
                ri.reset();
            }
            break;
        }
        case cat2_r: {
            if constexpr (copyable) {
                using RI = decltype(etl::tuple_cat(std::move(v), mk_vu(0)));
                using RM = decltype(std::tuple_cat(std::move(m), mk_mu(0)));
                type_is<to_std_t<RI>, decltype(std::tuple_cat(std::declval<SV&&>(), std::declval<MU&&>()))>(cx, subj, cls, "tuple_cat(X&&,Y&&)");
                std::optional<RI> ri;
                std::optional<RM> rm;
                counted(
                    cx, subj, cls, "tuple_cat of two rvalues", [&] { ri.emplace(etl::tuple_cat(std::move(v), mk_vu(a.a))); },
                    [&] { rm.emplace(std::tuple_cat(std::move(m), mk_mu(a.a))); });
                ceq(cx, "C20", subj, cls, "values of the concatenation", tl_show<2 * N>(*ri), tl_show<2 * N>(*rm));
                ri.reset();
            }
            break;
        }
        case take_element: {
            // move one element out through get<I>(X&&): only that element becomes moved-from
            [&]<std::size_t... I>(std::index_sequence<I...>) {
                ((int(I) == a.a ? (void)[&] {
                    using EI = std::tuple_element_t<I, std::tuple<Ts...>>;
                    using MI = twin_t<EI>;
                    std::optional<EI> ti;
                    std::optional<MI> tm;
                    counted(cx, subj, cls, "construction from get<I>(X&&)", [&] { ti.emplace(etl::get<I>(std::move(v))); }, [&] { tm.emplace(std::get<I>(std::move(m))); });
                    ceq(cx, "C20", subj, cls, "value taken", val(*ti), val(*tm));
                }() : void()),
                    ...);
            }(Seq{});
            break;
        }
        case b_copy_assign: {
            if constexpr (copy_assign) { counted(cx, subj, cls, "copy assignment", [&] { v = std::as_const(*p->v); }, [&] { m = std::as_const(p->m); }); }
            break;
        }
        case b_move_assign: {
            if constexpr (move_assign) { counted(cx, subj, cls, "move assignment", [&] { v = std::move(*p->v); }, [&] { m = std::move(p->m); }); }
            break;
        }
        case b_swap_member: {
            counted(cx, subj, cls, "swap", [&] { v.swap(*p->v); }, [&] { m.swap(p->m); });
            break;
        }
        case b_swap_free: {
            if constexpr (IsPair) {
                counted(
                    cx, subj, cls, "swap", [&] {
                        using etl::swap;
                        swap(v, *p->v);
                    },
                    [&] {
                        using std::swap;
                        swap(m, p->m);
                    });
            }
            break;
        }
        case b_relational: {
            V const& x  = v;
            V const& y  = *p->v;
            M const& mx = m;
            M const& my = p->m;
            auto ci     = impl_counts();
            ceq(cx, "C20", subj, cls, "a == b", x == y, mx == my);
            ceq(cx, "C20", subj, cls, "b == a", y == x, my == mx);
            ceq(cx, "C20", subj, cls, "a != b", x != y, mx != my);
            ceq(cx, "C20", subj, cls, "b != a", y != x, my != mx);
            if constexpr (IsPair) {
                ceq(cx, "C20", subj, cls, "a < b", x < y, mx < my);
                ceq(cx, "C20", subj, cls, "b < a", y < x, my < mx);
                ceq(cx, "C20", subj, cls, "a <= b", x <= y, mx <= my);
                ceq(cx, "C20", subj, cls, "b <= a", y <= x, my <= mx);
                ceq(cx, "C20", subj, cls, "a > b", x > y, mx > my);
                ceq(cx, "C20", subj, cls, "b > a", y > x, my > mx);
                ceq(cx, "C20", subj, cls, "a >= b", x >= y, mx >= my);
                ceq(cx, "C20", subj, cls, "b >= a", y >= x, my >= mx);
            }
            auto cj = impl_counts();
            if constexpr (tracked) { ceq(cx, "C20", subj, cls, "element copies+moves made by comparisons", (cj.copies - ci.copies) + (cj.moves - ci.moves), 0U); }
            break;
        }
        case b_eq_mixed: {
            if constexpr (!IsPair) {
                // compare with a tuple of different (convertible) element types carrying the other state's values
                bool ok  = true;
                int code = 0;
                int mul  = 1;
                [&]<std::size_t... I>(std::index_sequence<I...>) {
                    ((ok = ok && val(eget<I>(p->m)) >= 0, code += (val(eget<I>(p->m)) < 0 ? 0 : val(eget<I>(p->m))) * mul, mul *= K), ...);
                }(Seq{});
                if (ok) {
                    VU const y  = mk_vu(code);
                    MU const my = mk_mu(code);
                    V const& x  = v;
                    M const& mx = m;
                    ceq(cx, "C20", subj, cls, "tuple<Ts...> == tuple<Us...>", x == y, mx == my);
                    ceq(cx, "C20", subj, cls, "tuple<Us...> == tuple<Ts...>", y == x, my == mx);
                    ceq(cx, "C20", subj, cls, "tuple<Ts...> != tuple<Us...>", x != y, mx != my);
                }
            }
            break;
        }
        case b_copy_construct: {
            if constexpr (copyable) { counted(cx, subj, cls, "copy construction", [&] { s.recreate(std::as_const(*p->v)); }, [&] { nm.emplace(std::as_const(p->m)); }); }
            break;
        }
        case b_move_construct: {
            counted(cx, subj, cls, "move construction", [&] { s.recreate(std::move(*p->v)); }, [&] { nm.emplace(std::move(p->m)); });
            break;
        }
        default: break;
        }
        if (nm.has_value()) {
            // M may hold move-only twins: element-wise move assignment
            [&]<std::size_t... I>(std::index_sequence<I...>) { ((eget<I>(m) = std::move(eget<I>(*nm))), ...); }(Seq{});
        }
        same(cx, subj, cls, *s.v, m, "after the operation");
        lifetimes(cx, subj, cls, s, "after the operation");
        if (p != nullptr) {
            same(cx, subj, cls, *p->v, p->m, "other operand after the operation");
            if constexpr (tracked) { check_live(cx, subj, cls, p->lo(), p->hi(), (std::size_t(mc::is_tracked_v<Ts>) + ...), "other operand"); }
        }
        if constexpr (tracked) {
            auto const total = registry().live_count();
            auto const want  = (std::size_t(mc::is_tracked_v<Ts>) + ...) * (p != nullptr ? 2U : 1U);
            if (first_execution(cx) && total != want) {
                cx.fail("C03", subj, cls + "/live-total", cat("live instrumented elements after the operation: ", total, ", expected: ", want));
                purge_outside(s.lo(), s.hi(), p != nullptr ? p->lo() : nullptr, p != nullptr ? p->hi() : nullptr);
            }
        }
    }

    template <std::size_t I>
    void observe_get(State const& s, Cx& cx, std::string const& cls) const
    {
        std::string const subj = cat(IsPair ? "get<I>(pair" : "get<I>(tuple", ")");
        V& v                   = *s.v;
        V const& cv            = v;
        // result types against std (same element types)
        type_is<decltype(etl::get<I>(std::declval<V&>())), decltype(std::get<I>(std::declval<SV&>()))>(cx, subj, cls, cat("get<", I, ">(X&)"));
        type_is<decltype(etl::get<I>(std::declval<V const&>())), decltype(std::get<I>(std::declval<SV const&>()))>(cx, subj, cls, cat("get<", I, ">(X const&)"));
        type_is<decltype(etl::get<I>(std::declval<V&&>())), decltype(std::get<I>(std::declval<SV&&>()))>(cx, subj, cls, cat("get<", I, ">(X&&)"));
        type_is<decltype(etl::get<I>(std::declval<V const&&>())), decltype(std::get<I>(std::declval<SV const&&>()))>(cx, subj, cls, cat("get<", I, ">(X const&&)"));
        type_is<etl::tuple_element_t<I, V>, std::tuple_element_t<I, SV>>(cx, cat("tuple_element<I,", family(), ">"), cls, cat("tuple_element_t<", I, ">"));
        // all four overloads name the same element
        auto& r1       = etl::get<I>(v);
        auto const& r2 = etl::get<I>(cv);
        auto&& r3      = etl::get<I>(std::move(v));
        auto&& r4      = etl::get<I>(std::move(cv));
        void const* a1 = &r1;
        void const* a2 = &r2;
        void const* a3 = &r3;
        void const* a4 = &r4;
        ceq(cx, "C20", subj, cls, cat("get<", I, ">: const& overload names the same element"), a1 == a2, true);
        ceq(cx, "C20", subj, cls, cat("get<", I, ">: && overload names the same element"), a1 == a3, true);
        ceq(cx, "C20", subj, cls, cat("get<", I, ">: const&& overload names the same element"), a1 == a4, true);
        if constexpr (IsPair) {
            void const* member = (I == 0) ? static_cast<void const*>(&v.first) : static_cast<void const*>(&v.second);
            ceq(cx, "C20", subj, cls, cat("get<", I, "> names first/second"), a1 == member, true);
        }
        ceq(cx, "C20", subj, cls, cat("get<", I, "> value"), val(r2), val(std::get<I>(s.m)));
    }

    void observe(State const& s, Cx& cx) const
    {
        auto const cls = st(s.m);
        V& v           = *s.v;
        V const& cv    = v;
        M& m           = const_cast<M&>(s.m);
        M const& cm    = m;
        same(cx, cat(family(), "::<observers>"), cls, cv, cm, "observers");
        [&]<std::size_t... I>(std::index_sequence<I...>) { (observe_get<I>(s, cx, cls), ...); }(Seq{});
        ceq(cx, "C20", cat("tuple_size<", family(), ">"), cls, "tuple_size_v", etl::tuple_size_v<V>, std::tuple_size_v<SV>);
        ceq(cx, "C20", cat("tuple_size<", family(), ">"), cls, "tuple_size_v<const>", etl::tuple_size_v<V const>, std::tuple_size_v<SV const>);
        if constexpr (IsPair) {
            auto& [a, b]         = v;
            auto const& [ca, cb] = cv;
            ceq(cx, "C20", "pair structured bindings", cls, "auto& [a,b] names first and second",
                static_cast<void const*>(&a) == &v.first && static_cast<void const*>(&b) == &v.second, true);
            ceq(cx, "C20", "pair structured bindings", cls, "auto const& [a,b] names first and second",
                static_cast<void const*>(&ca) == &v.first && static_cast<void const*>(&cb) == &v.second, true);
        }
        // apply: value categories and values seen by the callable, on all four categories of the tuple
        {
            std::string const subj = cat("apply(F&&,", family(), ")");
            std::string li, lm;
            int calls_i = 0, calls_m = 0;
            auto fi = [&](auto&&... x) {
                ++calls_i;
                li = show_args(std::forward<decltype(x)>(x)...);
                return 7;
            };
            auto fm = [&](auto&&... y) {
                ++calls_m;
                lm = show_args(std::forward<decltype(y)>(y)...);
                return 7;
            };
            int ri = etl::apply(fi, v);
            int rm = std::apply(fm, m);
            ceq(cx, "C20", subj, cls, "apply(f, X&): arguments", li, lm);
            ri += etl::apply(fi, cv);
            rm += std::apply(fm, cm);
            ceq(cx, "C20", subj, cls, "apply(f, X const&): arguments", li, lm);
            ri += etl::apply(fi, std::move(v));
            rm += std::apply(fm, std::move(m));
            ceq(cx, "C20", subj, cls, "apply(f, X&&): arguments", li, lm);
            ri += etl::apply(fi, std::move(cv));
            rm += std::apply(fm, std::move(cm));
            ceq(cx, "C20", subj, cls, "apply(f, X const&&): arguments", li, lm);
            ceq(cx, "C20", subj, cls, "apply: sum of results", ri, rm);
            ceq(cx, "C20", subj, cls, "apply: number of invocations", calls_i, calls_m);
            type_is<decltype(etl::apply(fi, v)), decltype(std::apply(fm, m))>(cx, subj, cls, "apply result type");
            // callable value category: an rvalue callable is invoked as an rvalue
            struct Q {
                std::string* out;
                void operator()(Ts const&...) & { *out = "&"; }
                void operator()(Ts const&...) const& { *out = "const&"; }
                void operator()(Ts const&...) && { *out = "&&"; }
                void operator()(Ts const&...) const&& { *out = "const&&"; }
            };
            std::string q;
            Q fq{&q};
            Q const cq{&q};
            etl::apply(fq, cv);
            ceq(cx, "C20", subj, cls, "apply(F&): callable invoked as", q, std::string("&"));
            etl::apply(cq, cv);
            ceq(cx, "C20", subj, cls, "apply(F const&): callable invoked as", q, std::string("const&"));
            etl::apply(std::move(fq), cv);
            ceq(cx, "C20", subj, cls, "apply(F&&): callable invoked as", q, std::string("&&"));
            etl::apply(std::move(cq), cv);
            ceq(cx, "C20", subj, cls, "apply(F const&&): callable invoked as", q, std::string("const&&"));
        }
        // make_from_tuple: categories on all four, values on const&
        {
            std::string const subj = cat("make_from_tuple<T>(", family(), ")");
            ceq(cx, "C20", subj, cls, "make_from_tuple(X&)", etl::make_from_tuple<CatSink>(v).cats, std::make_from_tuple<CatSink>(m).cats);
            ceq(cx, "C20", subj, cls, "make_from_tuple(X const&)", etl::make_from_tuple<CatSink>(cv).cats, std::make_from_tuple<CatSink>(cm).cats);
            ceq(cx, "C20", subj, cls, "make_from_tuple(X&&)", etl::make_from_tuple<CatSink>(std::move(v)).cats, std::make_from_tuple<CatSink>(std::move(m)).cats);
            ceq(cx, "C20", subj, cls, "make_from_tuple(X const&&)", etl::make_from_tuple<CatSink>(std::move(cv)).cats,
                std::make_from_tuple<CatSink>(std::move(cm)).cats);
            if constexpr (copyable) {
                std::optional<Sink<Ts...>> si;
                std::optional<Sink<twin_t<Ts>...>> sm;
                counted(
                    cx, subj, cls, "make_from_tuple from a const lvalue", [&] { si.emplace(etl::make_from_tuple<Sink<Ts...>>(cv)); },
                    [&] { sm.emplace(std::make_from_tuple<Sink<twin_t<Ts>...>>(cm)); });
                ceq(cx, "C20", subj, cls, "values the object was made from", tl_show<N>(si->held), tl_show<N>(sm->held));
            }
        }
        // tuple_cat of const lvalues (copies)
        if constexpr (copyable) {
            std::string const subj = cat("tuple_cat(", family(), " const&...)");
            using R1               = decltype(etl::tuple_cat(cv));
            type_is<to_std_t<R1>, decltype(std::tuple_cat(std::declval<SV const&>()))>(cx, subj, cls, "tuple_cat(X const&)");
            std::optional<R1> r1;
            std::optional<decltype(std::tuple_cat(cm))> m1;
            counted(cx, subj, cls, "tuple_cat of one const lvalue", [&] { r1.emplace(etl::tuple_cat(cv)); }, [&] { m1.emplace(std::tuple_cat(cm)); });
            ceq(cx, "C20", subj, cls, "tuple_cat(X const&) values", tl_show<N>(*r1), tl_show<N>(*m1));
            using R2 = decltype(etl::tuple_cat(cv, cv));
            type_is<to_std_t<R2>, decltype(std::tuple_cat(std::declval<SV const&>(), std::declval<SV const&>()))>(cx, subj, cls, "tuple_cat(X const&, X const&)");
            std::optional<R2> r2;
            std::optional<decltype(std::tuple_cat(cm, cm))> m2;
            counted(cx, subj, cls, "tuple_cat of two const lvalues", [&] { r2.emplace(etl::tuple_cat(cv, cv)); }, [&] { m2.emplace(std::tuple_cat(cm, cm)); });
            ceq(cx, "C20", subj, cls, "tuple_cat(X const&, X const&) values", tl_show<2 * N>(*r2), tl_show<2 * N>(*m2));
        }
        // tuple_cat of ONE NON-const lvalue must copy its elements and leave the source untouched (added after seeded
        // breakage c20_tuple_cat_single_lvalue_moves: the single-argument entry point moved from an lvalue)
        if constexpr (copyable) {
            std::string const subj = cat("tuple_cat(", family(), "&)");
            using R1               = decltype(etl::tuple_cat(v));
            type_is<to_std_t<R1>, decltype(std::tuple_cat(std::declval<SV&>()))>(cx, subj, cls, "tuple_cat(X&)");
            std::optional<R1> r1;
            std::optional<decltype(std::tuple_cat(m))> m1;
            counted(cx, subj, cls, "tuple_cat of one non-const lvalue", [&] { r1.emplace(etl::tuple_cat(v)); }, [&] { m1.emplace(std::tuple_cat(m)); });
            ceq(cx, "C20", subj, cls, "tuple_cat(X&) values", tl_show<N>(*r1), tl_show<N>(*m1));
            same(cx, subj, cls, cv, cm, "source after tuple_cat(X&)");
        }
        same(cx, cat(family(), "::<observers>"), cls, cv, cm, "after the observers");
        if constexpr (tracked) { drain_lifetimes(cx, cat(family(), "::<observers>"), cls); }
    }

    std::string obs(State const& s) const { return tl_show<N>(*s.v); }
    std::string key(State const& s) const { return mshow(s.m) + "|" + obs(s); }

    void retire(State& s, Cx& cx) const
    {
        if (s.dead) { return; }
        auto const kase = cat(name(), ": <any history reaching ", mshow(s.m), "> => destroy the owner");
        s.v->~V();
        s.dead = true;
        if constexpr (tracked) {
            auto const subj = cat(family(), "::~", family());
            drain_lifetimes_at_retire(cx, subj, st(s.m), kase);
            auto const live = registry().live_in(s.lo(), s.hi());
            if (live != 0) {
                cx.failed = true;
                cx.r.violation("C03", subj, st(s.m) + "/leak", kase, cat(live, " element(s) still alive after the owner was destroyed"));
                registry().forget_range(s.lo(), s.hi());
            }
        }
    }
};

using TCM = mc::Tracked<mc::copy_move>;
using TMO = mc::Tracked<mc::move_only>;
using TCO = mc::Tracked<mc::copy_only>;
using TR3 = mc::Tracked<mc::rule3>;

} // namespace

int main(int argc, char** argv)
{
    mc::Main m(argc, argv);
    std::vector<std::string> const both{"quick", "thorough"};
    std::vector<std::string> const th{"thorough"};
#if !defined(MC_PART) || MC_PART == 1
    m.job("pair<int,int>/k3", both, [](mc::Reporter& r) { explore<TupSys<true, 3, TL<int, int>, TL<short, short>>>(r); });
    m.job("pair<int,Tracked>/k3", both, [](mc::Reporter& r) { explore<TupSys<true, 3, TL<int, TCM>, TL<short, int>>>(r); });
    m.job("pair<TrackedMoveOnly,int>/k3", both, [](mc::Reporter& r) { explore<TupSys<true, 3, TL<TMO, int>, TL<int, short>>>(r); });
    m.job("pair<int,int>/k4", th, [](mc::Reporter& r) { explore<TupSys<true, 4, TL<int, int>, TL<short, short>>>(r); });
    m.job("pair<int,Tracked>/k4", th, [](mc::Reporter& r) { explore<TupSys<true, 4, TL<int, TCM>, TL<short, int>>>(r); });
#endif
#if !defined(MC_PART) || MC_PART == 2
    m.job("pair<Tracked,Tracked>/k3", both, [](mc::Reporter& r) { explore<TupSys<true, 3, TL<TCM, TCM>, TL<int, short>>>(r); });
    m.job("pair<TrackedCopyOnly,int>/k3", both, [](mc::Reporter& r) { explore<TupSys<true, 3, TL<TCO, int>, TL<int, short>>>(r); });
    m.job("pair<TrackedRule3,int>/k3", both, [](mc::Reporter& r) { explore<TupSys<true, 3, TL<TR3, int>, TL<int, short>>>(r); });
    m.job("tuple<int,TrackedRule3>/k3", both, [](mc::Reporter& r) { explore<TupSys<false, 3, TL<int, TR3>, TL<short, int>>>(r); });
    m.job("tuple<int>/k3", both, [](mc::Reporter& r) { explore<TupSys<false, 3, TL<int>, TL<long>>>(r); });
    m.job("tuple<Tracked>/k3", both, [](mc::Reporter& r) { explore<TupSys<false, 3, TL<TCM>, TL<int>>>(r); });
    m.job("pair<Tracked,Tracked>/k4", th, [](mc::Reporter& r) { explore<TupSys<true, 4, TL<TCM, TCM>, TL<int, short>>>(r); });
#endif
#if !defined(MC_PART) || MC_PART == 3
    m.job("tuple<int,int,int>/k3", both, [](mc::Reporter& r) { explore<TupSys<false, 3, TL<int, int, int>, TL<long, short, char>>>(r); });
    m.job("tuple<Tracked,Tracked,Tracked>/k3", th, [](mc::Reporter& r) { explore<TupSys<false, 3, TL<TCM, TCM, TCM>, TL<int, short, char>>>(r); });
    m.job("pair<TrackedMoveOnly,TrackedCopyOnly>/k3", th, [](mc::Reporter& r) { explore<TupSys<true, 3, TL<TMO, TCO>, TL<int, short>>>(r); });
    m.job("tuple<int,int,int>/k4", th, [](mc::Reporter& r) { explore<TupSys<false, 4, TL<int, int, int>, TL<long, short, char>>>(r); });
#endif
#if !defined(MC_PART) || MC_PART == 4
    m.job("tuple<int,Tracked,short>/k3", both, [](mc::Reporter& r) { explore<TupSys<false, 3, TL<int, TCM, short>, TL<short, int, char>>>(r); });
    m.job("tuple<int,Tracked,short>/k4", th, [](mc::Reporter& r) { explore<TupSys<false, 4, TL<int, TCM, short>, TL<short, int, char>>>(r); });
    m.job("tuple<TrackedMoveOnly,int>/k3", both, [](mc::Reporter& r) { explore<TupSys<false, 3, TL<TMO, int>, TL<int, short>>>(r); });
#endif
    return m.run();
}
