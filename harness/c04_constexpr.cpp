// C04 round 2, direction 5: constant evaluation.
//
// ALL histories of length <= 3 over a menu of K total actions (every action carries its own guard, so every history is
// valid) are replayed on etl::inplace_string<7> and etl::inplace_string<16> three times:
//   (1) by the compiler, during constant evaluation, into constexpr TABLES (one per first action; no static_assert:
//       "is the table a constant expression" is decided by a requires-expression, so a history that stops being a
//       constant expression is one reported case, never a build failure);
//   (2) at run time on a real object (same function, arguments not known to the compiler);
//   (3) at run time on std::string (same generic action code).
// Compared per history: size, every character up to capacity... no: the characters [0,size()), the terminator, and
// three observers (find, rfind, compare sign).  (1) != (2) is a constant-evaluation divergence, (2) != (3) a
// functional one.
#include "mc.hpp"

#include <etl/string.hpp>
#include <etl/string_view.hpp>

#include <array>
#include <string>
#include <string_view>

using mc::cat;

namespace {

constexpr std::size_t NPOS = std::size_t(-1);

template <auto F>
concept constant_expression = requires { typename std::bool_constant<(F(), true)>; };

template <typename T>
struct view_of;
template <std::size_t N>
struct view_of<etl::inplace_string<N>> {
    using type = etl::string_view;
};
template <>
struct view_of<std::string> {
    using type = std::string_view;
};

struct ActInfo {
    char const* subject;
    char const* text;
};
constexpr ActInfo acts[] = {
    {"append(count,ch)", "if (s+3<=N) append(3,'a')"},
    {"append(cstr)", "if (s+2<=N) append(\"bc\")"},
    {"append(sv,pos,count)", "if (s+2<=N) append(sv(\"wxyz\"),1,2)"},
    {"push_back", "if (s<N) push_back('d')"},
    {"insert(index,count,ch)", "if (s>=1 && s+2<=N) insert(1,2,'e')"},
    {"insert(index,cstr)", "if (s+2<=N) insert(0,\"fg\")"},
    {"erase(index,count)", "if (s>=1) erase(0,1)"},
    {"erase(first,last)", "if (s>=2) erase(begin+1,end)"},
    {"pop_back", "if (s>=1) pop_back()"},
    {"resize(count,ch)", "resize(N,'h')"},
    {"resize(count)", "if (s>=2) resize(s-2)"},
    {"replace(pos,count,ptr,count2)", "if (s>=2) replace(0,2,\"ij\",2)"},
    {"clear", "clear()"},
    {"assign(count,ch)", "assign(N-1,'k')"},
    {"operator=(cstr)", "= \"lmn\""},
    {"swap(other)", "{T o(\"op\"); swap(o);}"},
    {"substr(pos,count)", "if (s>=1) t = t.substr(1,3)"},
    {"operator+=(str)", "if (2*s<=N) t += t"},
    {"operator+(str,ch)", "if (s<N) t = t + 'q'"},
    {"etl::erase(str,ch)", "erase(t,'a')"},
    {"insert(index,sv)", "if (s+2<=N) insert(s/2, sv(\"rs\"))"},
    {"resize(count)", "if (s+2<=N) resize(s+2)"},
    {"erase(pos)", "if (s>=1) erase(begin+s/2)"},
    {"replace(first,last,count2,ch)", "if (s>=1) replace(end-1,end,1,'t')"},
};
constexpr int K = int(sizeof(acts) / sizeof(acts[0]));

// one action; the same code for etl::inplace_string (constant evaluation and run time) and std::string
template <typename T>
constexpr void step(T& t, int id, std::size_t N)
{
    using V             = typename view_of<T>::type;
    std::size_t const s = t.size();
    switch (id) {
    case 0:
        if (s + 3 <= N) { t.append(3, 'a'); }
        break;
    case 1:
        if (s + 2 <= N) { t.append("bc"); }
        break;
    case 2:
        if (s + 2 <= N) { t.append(V("wxyz"), 1, 2); }
        break;
    case 3:
        if (s < N) { t.push_back('d'); }
        break;
    case 4:
        if (s >= 1 && s + 2 <= N) { t.insert(1, 2, 'e'); }
        break;
    case 5:
        if (s + 2 <= N) { t.insert(0, "fg"); }
        break;
    case 6:
        if (s >= 1) { t.erase(0, 1); }
        break;
    case 7:
        if (s >= 2) { t.erase(t.begin() + 1, t.end()); }
        break;
    case 8:
        if (s >= 1) { t.pop_back(); }
        break;
    case 9: t.resize(N, 'h'); break;
    case 10:
        if (s >= 2) { t.resize(s - 2); }
        break;
    case 11:
        if (s >= 2) { t.replace(0, 2, "ij", 2); }
        break;
    case 12: t.clear(); break;
    case 13: t.assign(N - 1, 'k'); break;
    case 14: t = "lmn"; break;
    case 15: {
        T o("op");
        t.swap(o);
        break;
    }
    case 16:
        if (s >= 1) { t = t.substr(1, 3); }
        break;
    case 17:
        if (2 * s <= N) {
            T const& a = t;
            t += a;
        }
        break;
    case 18:
        if (s < N) { t = t + 'q'; }
        break;
    case 19:
        if constexpr (requires { t.full(); }) {
            etl::erase(t, 'a');
        } else {
            std::erase(t, 'a');
        }
        break;
    case 20:
        if (s + 2 <= N) { t.insert(s / 2, V("rs")); }
        break;
    case 21:
        if (s + 2 <= N) { t.resize(s + 2); }
        break;
    case 22:
        if (s >= 1) { t.erase(t.begin() + static_cast<std::ptrdiff_t>(s / 2)); }
        break;
    case 23:
        if (s >= 1) { t.replace(t.end() - 1, t.end(), 1, 't'); }
        break;
    default: break;
    }
}

template <std::size_t N>
struct Out {
    char buf[N + 1]{};
    unsigned short size{0};
    signed char term{0}; // data()[size()] == 0
    short f1{0}, f2{0};  // find('a'), rfind('b') (npos = -1)
    signed char cmp{0};  // sign of compare("bc")
    constexpr bool operator==(Out const&) const = default;
};

template <std::size_t N, typename T>
constexpr Out<N> snapshot(T const& t)
{
    Out<N> o;
    o.size = static_cast<unsigned short>(t.size());
    for (std::size_t i = 0; i < t.size() && i < N + 1; ++i) { o.buf[i] = t.data()[i]; }
    o.term       = (t.size() <= N && t.data()[t.size()] == '\0') ? 1 : 0;
    auto const a = t.find('a');
    auto const b = t.rfind('b', NPOS);
    o.f1         = a == NPOS ? short(-1) : short(a);
    o.f2         = b == NPOS ? short(-1) : short(b);
    int const c  = t.compare("bc");
    o.cmp        = static_cast<signed char>((c > 0) - (c < 0));
    return o;
}

template <std::size_t N, typename T>
constexpr Out<N> replay(int a, int b, int c)
{
    T t;
    if (a >= 0) { step(t, a, N); }
    if (b >= 0) { step(t, b, N); }
    if (c >= 0) { step(t, c, N); }
    return snapshot<N>(t);
}

constexpr int rows = 1 + K + K * K; // (a), (a,b), (a,b,c) for a fixed a
constexpr int row_of(int b, int c) { return b < 0 ? 0 : (c < 0 ? 1 + b : 1 + K + b * K + c); }

template <std::size_t N, int A>
constexpr std::array<Out<N>, rows> table()
{
    using S = etl::inplace_string<N>;
    std::array<Out<N>, rows> t{};
    t[0] = replay<N, S>(A, -1, -1);
    for (int b = 0; b < K; ++b) {
        t[std::size_t(row_of(b, -1))] = replay<N, S>(A, b, -1);
        for (int c = 0; c < K; ++c) { t[std::size_t(row_of(b, c))] = replay<N, S>(A, b, c); }
    }
    return t;
}

template <std::size_t N>
std::string show(Out<N> const& o)
{
    return cat(mc::show_chars(o.buf, o.buf + std::min<std::size_t>(o.size, N + 1)), " size=", o.size, o.term ? "" : " NO-TERMINATOR", " find('a')=", o.f1, " rfind('b')=", o.f2,
        " compare(\"bc\")=", int(o.cmp));
}

inline std::string hist(int a, int b, int c)
{
    std::string o = cat("t; ", acts[a].text);
    if (b >= 0) { o += cat("; ", acts[b].text); }
    if (c >= 0) { o += cat("; ", acts[c].text); }
    return o;
}

template <std::size_t N, int A>
void check_first(mc::Reporter& r)
{
    using S               = etl::inplace_string<N>;
    std::string const cfg = cat("inplace_string<", N, ">");
    constexpr auto probe  = [] { return table<N, A>(); };
    if constexpr (!constant_expression<probe>) {
        r.violation("C04", "basic_inplace_string (constant evaluation)", cat("not_a_constant_expression"), cat(cfg, ": histories of length <= 3 starting with ", acts[A].text),
            "the valid histories are not a constant expression (a step is not usable in constant evaluation)");
        r.count("evaluations", 1);
    } else {
        static constexpr auto tab = table<N, A>();
        volatile int va           = A;
        for (int b = -1; b < K; ++b) {
            for (int c = -1; c < K; ++c) {
                if (b < 0 && c >= 0) { continue; }
                volatile int vb = b;
                volatile int vc = c;
                auto const& ct  = tab[std::size_t(row_of(b, c))];
                Out<N> rt{};
                Out<N> md{};
                int const last = c >= 0 ? c : (b >= 0 ? b : A);
                std::string const subject = cat("basic_inplace_string::", acts[last].subject);
                mc::Trap const trap = mc::guarded([&] {
                    rt = replay<N, S>(va, vb, vc);
                    md = replay<N, std::string>(va, vb, vc);
                });
                r.count("evaluations", 3);
                r.count("distinct_nontrivial", 1);
                r.outcome(mc::fnv1a(&ct, sizeof ct));
                if (trap != mc::Trap::none) {
                    bool const contract = (trap == mc::Trap::assert_fired || trap == mc::Trap::exception_raised);
                    r.violation(contract ? "C05" : "C02", subject, contract ? "handler-on-valid-call" : mc::trap_name(trap), cat(cfg, ": ", hist(A, b, c)), mc::describe_trap(trap));
                    continue;
                }
                if (!(ct == rt)) {
                    r.violation("C04", subject, "constant_evaluation_differs", cat(cfg, ": ", hist(A, b, c)), cat("constant evaluation: ", show(ct), " | run time: ", show(rt)));
                }
                if (!(rt == md)) {
                    r.violation("C04", subject, "general", cat(cfg, ": ", hist(A, b, c)), cat("tetl (run time): ", show(rt), " | std::string: ", show(md)));
                }
                if (r.wants_sample() && c >= 0) { r.sample(cat(cfg, ": ", hist(A, b, c), " -> ", show(ct))); }
            }
        }
    }
}

template <std::size_t N, int... A>
void check_all(mc::Reporter& r, std::integer_sequence<int, A...>)
{
    (check_first<N, A>(r), ...);
    r.count("configurations", 1);
    r.note(cat("inplace_string<", N, ">: ", K, " actions, ", K + K * K + K * K * K, " histories of length <= 3, constexpr tables vs run time vs std::string"));
}

} // namespace

int main(int argc, char** argv)
{
    mc::Main m(argc, argv);
    // -DMC_N=7 or -DMC_N=16: one capacity per translation unit (the tables cost about 15 s of compile time each)
#if !defined(MC_N) || MC_N == 7
    m.job("constexpr/char/7", {"quick", "thorough"}, [](mc::Reporter& r) { check_all<7>(r, std::make_integer_sequence<int, K>{}); });
#endif
#if !defined(MC_N) || MC_N == 16
    m.job("constexpr/char/16", {"quick", "thorough"}, [](mc::Reporter& r) { check_all<16>(r, std::make_integer_sequence<int, K>{}); });
#endif
    return m.run();
}
