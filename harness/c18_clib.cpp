// C18 (and the C-string half of C02): etl's reimplementations of <cctype>, <cwctype>, <cstring>,
// <cwchar> and div/labs/llabs against the host C library (glibc, "C" locale).
//
// Engine E2: every job is an odometer over an explicitly bounded product space, every tuple
// is executed on the real etl function and on the libc function of the same name.  Compared:
// truth value (classification), exact value (conversion, lengths, spans, div), sign
// (comparisons), pointer results as offset-or-null, and the complete destination extent C
// defines for the copying functions.  Every string and buffer lives in an exact-size
// mc::GuardedBlock, so that a read or write outside it is an ASan report (`san`) or a damaged
// canary (all flavours); those are reported for property C02.
#include "mc.hpp"

#include <etl/cctype.hpp>
#include <etl/cstdlib.hpp>
#include <etl/cstring.hpp>
#include <etl/cwchar.hpp>
#include <etl/cwctype.hpp>

#include <cctype>
#include <cinttypes>
#include <climits>
#include <clocale>
#include <cwchar>
#include <cwctype>
#include <limits>
#include <memory>
#include <string>
#include <type_traits>

using mc::cat;

namespace {

constexpr auto npos = std::size_t(-1);

inline int sign(long long x) { return (x > 0) - (x < 0); }
inline std::string show_n(std::size_t n) { return n == npos ? std::string("SIZE_MAX") : std::to_string(n); }

// ---------------------------------------------------------------------------------------
// the two front ends (char -> str*/mem*, wchar_t -> wcs*/wmem*) behind one set of names
// ---------------------------------------------------------------------------------------

#define C18_PAIR(nm, efn, rfn)                                                                                                   \
    template <typename... X>                                                                                                     \
    static auto e_##nm(X... x)                                                                                                   \
    {                                                                                                                            \
        return efn(x...);                                                                                                        \
    }                                                                                                                            \
    template <typename... X>                                                                                                     \
    static auto r_##nm(X... x)                                                                                                   \
    {                                                                                                                            \
        return rfn(x...);                                                                                                        \
    }

enum Fn : int {
    F_len, F_cmp, F_ncmp, F_cpy, F_ncpy, F_cat, F_ncat, F_chr, F_chr_nc, F_rchr, F_rchr_nc, F_spn, F_cspn, F_pbrk, F_pbrk_nc,
    F_str, F_str_nc, F_mcpy, F_mmove, F_mset, F_mcmp, F_mchr, F_mchr_nc, F_mcpy_in, F_count
};

template <typename C>
struct Api;

template <>
struct Api<char> {
    static constexpr char const* tname = "char";
    static char const* name(int f)
    {
        static char const* const n[F_count] = {"strlen", "strcmp", "strncmp", "strcpy", "strncpy", "strcat", "strncat", "strchr(const)",
            "strchr", "strrchr(const)", "strrchr", "strspn", "strcspn", "strpbrk(const)", "strpbrk", "strstr(const)", "strstr", "memcpy",
            "memmove", "memset", "memcmp", "memchr(const)", "memchr", "memcpy"};
        return n[f];
    }
    C18_PAIR(len, etl::strlen, ::strlen)
    C18_PAIR(cmp, etl::strcmp, ::strcmp)
    C18_PAIR(ncmp, etl::strncmp, ::strncmp)
    C18_PAIR(cpy, etl::strcpy, ::strcpy)
    C18_PAIR(ncpy, etl::strncpy, ::strncpy)
    C18_PAIR(cat, etl::strcat, ::strcat)
    C18_PAIR(ncat, etl::strncat, ::strncat)
    C18_PAIR(chr, etl::strchr, ::strchr)
    C18_PAIR(rchr, etl::strrchr, ::strrchr)
    C18_PAIR(spn, etl::strspn, ::strspn)
    C18_PAIR(cspn, etl::strcspn, ::strcspn)
    C18_PAIR(pbrk, etl::strpbrk, ::strpbrk)
    C18_PAIR(str, etl::strstr, ::strstr)
    static char* e_mcpy(char* d, char const* s, std::size_t n) { return static_cast<char*>(etl::memcpy(d, s, n)); }
    static char* r_mcpy(char* d, char const* s, std::size_t n) { return static_cast<char*>(::memcpy(d, s, n)); }
    static char* e_mmove(char* d, char const* s, std::size_t n) { return static_cast<char*>(etl::memmove(d, s, n)); }
    static char* r_mmove(char* d, char const* s, std::size_t n) { return static_cast<char*>(::memmove(d, s, n)); }
    static char* e_mset(char* d, long c, std::size_t n) { return static_cast<char*>(etl::memset(d, int(c), n)); }
    static char* r_mset(char* d, long c, std::size_t n) { return static_cast<char*>(::memset(d, int(c), n)); }
    static int e_mcmp(char const* a, char const* b, std::size_t n) { return etl::memcmp(a, b, n); }
    static int r_mcmp(char const* a, char const* b, std::size_t n) { return ::memcmp(a, b, n); }
    static char const* e_mchr(char const* a, long c, std::size_t n) { return static_cast<char const*>(etl::memchr(static_cast<void const*>(a), int(c), n)); }
    static char const* r_mchr(char const* a, long c, std::size_t n) { return static_cast<char const*>(::memchr(static_cast<void const*>(a), int(c), n)); }
    static char* e_mchr_nc(char* a, long c, std::size_t n) { return static_cast<char*>(etl::memchr(static_cast<void*>(a), int(c), n)); }
    // characters handed to strchr/strrchr/memchr/memset as int: plain, negative (sign-extended
    // char) and > 255 (must be converted to char / unsigned char first)
    static std::vector<long> search_chars() { return {'a', 'b', 'c', 0, 0x80, -128, 0xFF, 0x100 + 'a', 0x100}; }
    static bool high(char c) { return static_cast<unsigned char>(c) >= 0x80; }
    static constexpr char const* highname = "highbit";
};

template <>
struct Api<wchar_t> {
    static constexpr char const* tname = "wchar_t";
    static char const* name(int f)
    {
        static char const* const n[F_count] = {"wcslen", "wcscmp", "wcsncmp", "wcscpy", "wcsncpy", "wcscat", "wcsncat", "wcschr(const)",
            "wcschr", "wcsrchr(const)", "wcsrchr", "wcsspn", "wcscspn", "wcspbrk(const)", "wcspbrk", "wcsstr(const)", "wcsstr", "wmemcpy",
            "wmemmove", "wmemset", "wmemcmp", "wmemchr(const)", "wmemchr", "wmemcpy"};
        return n[f];
    }
    C18_PAIR(len, etl::wcslen, ::wcslen)
    C18_PAIR(cmp, etl::wcscmp, ::wcscmp)
    C18_PAIR(ncmp, etl::wcsncmp, ::wcsncmp)
    C18_PAIR(cpy, etl::wcscpy, ::wcscpy)
    C18_PAIR(ncpy, etl::wcsncpy, ::wcsncpy)
    C18_PAIR(cat, etl::wcscat, ::wcscat)
    C18_PAIR(ncat, etl::wcsncat, ::wcsncat)
    C18_PAIR(chr, etl::wcschr, ::wcschr)
    C18_PAIR(rchr, etl::wcsrchr, ::wcsrchr)
    C18_PAIR(spn, etl::wcsspn, ::wcsspn)
    C18_PAIR(cspn, etl::wcscspn, ::wcscspn)
    C18_PAIR(pbrk, etl::wcspbrk, ::wcspbrk)
    C18_PAIR(str, etl::wcsstr, ::wcsstr)
    static wchar_t* e_mcpy(wchar_t* d, wchar_t const* s, std::size_t n) { return etl::wmemcpy(d, s, n); }
    static wchar_t* r_mcpy(wchar_t* d, wchar_t const* s, std::size_t n) { return ::wmemcpy(d, s, n); }
    static wchar_t* e_mmove(wchar_t* d, wchar_t const* s, std::size_t n) { return etl::wmemmove(d, s, n); }
    static wchar_t* r_mmove(wchar_t* d, wchar_t const* s, std::size_t n) { return ::wmemmove(d, s, n); }
    static wchar_t* e_mset(wchar_t* d, long c, std::size_t n) { return etl::wmemset(d, wchar_t(c), n); }
    static wchar_t* r_mset(wchar_t* d, long c, std::size_t n) { return ::wmemset(d, wchar_t(c), n); }
    static int e_mcmp(wchar_t const* a, wchar_t const* b, std::size_t n) { return etl::wmemcmp(a, b, n); }
    static int r_mcmp(wchar_t const* a, wchar_t const* b, std::size_t n) { return ::wmemcmp(a, b, n); }
    static wchar_t const* e_mchr(wchar_t const* a, long c, std::size_t n) { return etl::wmemchr(a, wchar_t(c), n); }
    static wchar_t const* r_mchr(wchar_t const* a, long c, std::size_t n) { return ::wmemchr(a, wchar_t(c), n); }
    static wchar_t* e_mchr_nc(wchar_t* a, long c, std::size_t n) { return etl::wmemchr(a, wchar_t(c), n); }
    static std::vector<long> search_chars() { return {L'a', L'b', L'c', 0, 0x80, 0xFF, 0x100 + L'a', 0x100, WCHAR_MAX, WCHAR_MIN}; }
    static bool high(wchar_t c) { return c < 0; }
    static constexpr char const* highname = "negative_wchar";
};

// ---------------------------------------------------------------------------------------
// pools of strings / buffers in exact-size blocks
// ---------------------------------------------------------------------------------------

template <typename C>
struct Buf {
    std::basic_string<C> s;                      // content (without terminator)
    std::unique_ptr<mc::GuardedBlock<C>> blk;    // exactly s.size() (+1 when terminated) elements
    // the same string followed, after its terminator, by two more characters that differ
    // between the two variants: a valid argument wherever C takes a NUL-terminated string, and
    // it makes a function that looks past the terminator return something different
    std::unique_ptr<mc::GuardedBlock<C>> tail1, tail2;
    std::string shown;
    bool any_high{false};
    C const* p() const { return blk->data(); }
    C* mp() const { return blk->data(); }        // the block itself is mutable; used for the non-const overloads (never written)
    C* lhs(int mode) const { return mode == 0 ? blk->data() : tail1->data(); }
    C* rhs(int mode) const { return mode == 0 ? blk->data() : tail2->data(); }
    std::size_t len() const { return s.size(); }
};

/// every sequence of length 0..maxLen over alpha, shortest first, lexicographic in alpha order
template <typename C>
std::vector<Buf<C>> make_pool(std::vector<C> const& alpha, int maxLen, bool terminated)
{
    std::vector<std::basic_string<C>> all{{}};
    std::size_t lo = 0;
    for (int len = 1; len <= maxLen; ++len) {
        std::size_t hi = all.size();
        for (std::size_t i = lo; i < hi; ++i) {
            for (C c : alpha) {
                auto s = all[i];
                s.push_back(c);
                all.push_back(s);
            }
        }
        lo = hi;
    }
    std::vector<Buf<C>> out;
    out.reserve(all.size());
    for (auto& s : all) {
        Buf<C> b;
        b.s   = s;
        b.blk = std::make_unique<mc::GuardedBlock<C>>(s.size() + (terminated ? 1 : 0));
        std::copy(s.begin(), s.end(), b.blk->data());
        if (terminated) {
            b.blk->data()[s.size()] = C(0);
            b.tail1 = std::make_unique<mc::GuardedBlock<C>>(s.size() + 3);
            b.tail2 = std::make_unique<mc::GuardedBlock<C>>(s.size() + 3);
            for (auto* t : {b.tail1.get(), b.tail2.get()}) {
                std::copy(s.begin(), s.end(), t->data());
                t->data()[s.size()] = C(0);
            }
            b.tail1->data()[s.size() + 1] = alpha.front();
            b.tail1->data()[s.size() + 2] = C('p');
            b.tail2->data()[s.size() + 1] = alpha.back();
            b.tail2->data()[s.size() + 2] = C('q');
        }
        b.shown = mc::show_chars(s.begin(), s.end());
        for (C c : s) { b.any_high = b.any_high || Api<C>::high(c); }
        out.push_back(std::move(b));
    }
    return out;
}

// ---------------------------------------------------------------------------------------
// per-sweep context: current case, classification, comparison, trap attribution
// ---------------------------------------------------------------------------------------

template <typename C>
struct Ctx {
    using A = Api<C>;
    mc::Reporter& r;
    Buf<C> const* a{nullptr};
    Buf<C> const* b{nullptr};
    int fid{0};
    std::size_t n{0};
    long ch{0};
    long so{0}, dof{0};
    int mode{0}; // 1: the strings are followed by differing characters after their terminators
    std::uint64_t evals{0}, nontriv{0};
    std::uint64_t san;
    bool enabled[F_count];

    explicit Ctx(mc::Reporter& rep) : r(rep), san(mc::san_hits())
    {
        for (int f = 0; f < F_count; ++f) { enabled[f] = r.want(subject(f)); }
    }

    static std::string subject(int f) { return cat("etl::", A::name(f)); }
    bool on(int f)
    {
        fid = f;
        return enabled[f];
    }

    static bool uses_b(int f)
    {
        switch (f) {
        case F_cmp: case F_ncmp: case F_cat: case F_ncat: case F_spn: case F_cspn: case F_pbrk: case F_pbrk_nc: case F_str:
        case F_str_nc: case F_mcmp: return true;
        default: return false;
        }
    }
    static bool uses_n(int f)
    {
        switch (f) {
        case F_ncmp: case F_ncpy: case F_ncat: case F_mcpy: case F_mcpy_in: case F_mmove: case F_mset: case F_mcmp: case F_mchr: case F_mchr_nc: return true;
        default: return false;
        }
    }
    static bool uses_ch(int f)
    {
        switch (f) {
        case F_chr: case F_chr_nc: case F_rchr: case F_rchr_nc: case F_mset: case F_mchr: case F_mchr_nc: return true;
        default: return false;
        }
    }

    bool nul_within(Buf<C> const* x, std::size_t cnt) const
    {
        if (x == nullptr) { return false; }
        for (std::size_t i = 0; i < x->len() && i < cnt; ++i) {
            if (x->s[i] == C(0)) { return true; }
        }
        return false;
    }

    /// class of the current case: a predicate over the arguments only
    std::string cls() const
    {
        std::string c;
        auto add = [&](char const* t) {
            if (!c.empty()) { c += "+"; }
            c += t;
        };
        bool const high = (a != nullptr && a->any_high) || (uses_b(fid) && b != nullptr && b->any_high);
        switch (fid) {
        case F_cmp:
        case F_ncmp:
            if (high) { add(A::highname); }
            break;
        case F_mcmp:
            if (nul_within(a, n) || nul_within(b, n)) { add("nul_inside_count"); }
            if (high) { add(A::highname); }
            break;
        case F_ncpy:
            if (n > a->len()) { add("count_gt_srclen"); }
            break;
        case F_pbrk:
        case F_pbrk_nc: {
            bool any = false;
            for (C x : a->s) { any = any || b->s.find(x) != std::basic_string<C>::npos; }
            if (!any) { add(a->len() == 0 ? "no_match+str_empty" : "no_match"); }
            break;
        }
        case F_str:
        case F_str_nc:
            if (b->len() == 0) { add(a->len() == 0 ? "needle_empty+hay_empty" : "needle_empty"); }
            else if (b->len() > a->len()) { add("needle_longer"); }
            break;
        case F_mcpy:
            if (nul_within(a, n)) { add("nul_inside_count"); }
            break;
        case F_mcpy_in:
            add("same_block");
            if (nul_within(a, a ? a->len() : 0)) { add("nul_inside"); }
            break;
        case F_mmove:
            if (n == 0) { add("count_zero"); }
            else if (so == dof) { add("same"); }
            else if (dof > so && dof < so + long(n)) { add("overlap_dst_after_src"); }
            else if (so > dof && so < dof + long(n)) { add("overlap_dst_before_src"); }
            else { add("disjoint"); }
            if (nul_within(a, a ? a->len() : 0)) { add("nul_inside"); }
            break;
        default: break;
        }
        return c.empty() ? std::string("general") : c;
    }

    std::string kase() const
    {
        std::string k = cat(A::tname, " ", A::name(fid), ": ");
        if (fid == F_mmove || fid == F_mcpy_in) { return cat(k, "buffer=", a->shown, " dst_off=", dof, " src_off=", so, " count=", n); }
        if (fid == F_mset) { return cat(k, "len=", n, " ch=", ch); }
        if (a != nullptr) { k += cat(uses_b(fid) ? "lhs=" : "str=", a->shown); }
        if (uses_b(fid) && b != nullptr) { k += cat(" rhs=", b->shown); }
        if (uses_n(fid)) { k += cat(" count=", show_n(n)); }
        if (uses_ch(fid)) { k += cat(" ch=", ch); }
        if (mode == 1) { k += uses_b(fid) ? " [after the terminators: lhs +first,'p'; rhs +last,'q' of the alphabet]" : " [after the terminator: first letter of the alphabet,'p']"; }
        return k;
    }

    void check_san()
    {
        auto const now = mc::san_hits();
        if (now != san) {
            san = now;
            r.violation("C02", subject(fid), cls(), kase(), "ASan/UBSan report during the etl call (see job log)");
        }
    }

    template <typename G, typename W>
    void cmp(G const& got, W const& want, bool nt)
    {
        ++evals;
        if (nt) { ++nontriv; }
        r.outcome(mc::hash_mix(std::uint64_t(fid) * 1000003ULL, std::uint64_t(static_cast<long long>(want))));
        if (!(got == want)) { r.violation("C18", subject(fid), cls(), kase(), cat("tetl=", got, " libc=", want)); }
        check_san();
    }

    /// full destination extents: e and w are separate blocks with identical initial content
    void cmp_buf(mc::GuardedBlock<C>& e, mc::GuardedBlock<C>& w, bool ret_ok, bool nt)
    {
        ++evals;
        if (nt) { ++nontriv; }
        r.outcome(mc::fnv1a(w.data(), w.size() * sizeof(C), std::uint64_t(fid) + 77));
        if (!ret_ok) { r.violation("C18", subject(fid), cls(), kase(), "return value is not the destination pointer"); }
        if (std::memcmp(e.data(), w.data(), w.size() * sizeof(C)) != 0) {
            r.violation("C18", subject(fid), cls(), kase(),
                cat("destination tetl=", mc::show_chars(e.data(), e.data() + e.size()), " libc=", mc::show_chars(w.data(), w.data() + w.size())));
        }
        if (!e.intact()) { r.violation("C02", subject(fid), cls(), kase(), "wrote outside the destination extent C defines (canary damaged)"); }
        check_san();
    }

    void trapped(mc::Trap t)
    {
        if (t == mc::Trap::none) { return; }
        bool const contract = (t == mc::Trap::assert_fired);
        r.violation(contract ? "C05" : "C02", subject(fid), contract ? cat(cls(), "/handler-on-valid-call") : cat(cls(), "/", mc::trap_name(t)),
            kase(), mc::describe_trap(t));
    }

    void finish()
    {
        r.count("evaluations", evals);
        r.count("distinct_nontrivial", nontriv);
    }
};

template <typename C, typename P>
long off(P const* res, C const* base)
{
    return res == nullptr ? -1L : long(res - base);
}

// ---------------------------------------------------------------------------------------
// job: NUL-terminated strings, all ordered pairs
// ---------------------------------------------------------------------------------------

template <typename C>
void sweep_strings(mc::Reporter& r, std::vector<C> const& alpha, int maxLen, int part, int parts)
{
    using A         = Api<C>;
    auto const pool = make_pool<C>(alpha, maxLen, true);
    Ctx<C> cx(r);
    auto const chars = A::search_chars();

    for (std::size_t ia = 0; ia < pool.size(); ++ia) {
        if (int(ia % std::size_t(parts)) != part) { continue; }
        auto const& SA = pool[ia];
        cx.a           = &SA;
        std::size_t const la = SA.len();
        for (int mode = 0; mode < 2; ++mode) {
        cx.mode           = mode;
        cx.b              = nullptr;
        C const* const pa = SA.lhs(mode);

        // ---- one string ----------------------------------------------------------------
        mc::Trap t = mc::guarded([&] {
            if (cx.on(F_len)) { cx.cmp(A::e_len(pa), A::r_len(pa), la > 0); }
            for (long ch : chars) {
                cx.ch = ch;
                if (cx.on(F_chr)) {
                    auto w = A::r_chr(pa, int(ch));
                    auto g = A::e_chr(pa, int(ch));
                    cx.cmp(off(g, pa), off(w, pa), w != nullptr);
                }
                if (cx.on(F_chr_nc)) {
                    auto w = A::r_chr(pa, int(ch));
                    C* g   = A::e_chr(SA.lhs(mode), int(ch));
                    cx.cmp(off(g, pa), off(w, pa), w != nullptr);
                }
                if (cx.on(F_rchr)) {
                    auto w = A::r_rchr(pa, int(ch));
                    auto g = A::e_rchr(pa, int(ch));
                    cx.cmp(off(g, pa), off(w, pa), w != nullptr);
                }
                if (cx.on(F_rchr_nc)) {
                    auto w = A::r_rchr(pa, int(ch));
                    C* g   = A::e_rchr(SA.lhs(mode), int(ch));
                    cx.cmp(off(g, pa), off(w, pa), w != nullptr);
                }
            }
            if (cx.on(F_cpy)) {
                mc::GuardedBlock<C> de(la + 1), dw(la + 1);
                C* ret = A::e_cpy(de.data(), pa);
                A::r_cpy(dw.data(), pa);
                cx.cmp_buf(de, dw, ret == de.data(), la > 0);
            }
            if (cx.on(F_ncpy)) {
                // C: exactly `count` characters are written (copy, then zero padding)
                for (std::size_t n = 0; n <= la + 3; ++n) {
                    cx.n = n;
                    mc::GuardedBlock<C> de(n), dw(n);
                    C* ret = A::e_ncpy(de.data(), pa, n);
                    A::r_ncpy(dw.data(), pa, n);
                    cx.cmp_buf(de, dw, ret == de.data(), n > 0);
                }
            }
        });
        cx.trapped(t);

        // ---- ordered pairs ------------------------------------------------------------------
        for (auto const& SB : pool) {
            cx.b              = &SB;
            C const* const pb = SB.rhs(mode);
            std::size_t const lb = SB.len();
            mc::Trap t2 = mc::guarded([&] {
                if (cx.on(F_cmp)) {
                    int const w = sign(A::r_cmp(pa, pb));
                    int const g = sign(A::e_cmp(pa, pb));
                    cx.cmp(g, w, w != 0);
                }
                if (cx.on(F_ncmp)) {
                    std::size_t const top = std::max(la, lb) + 2;
                    for (std::size_t k = 0; k <= top + 1; ++k) {
                        std::size_t const n = (k == top + 1) ? npos : k;
                        cx.n                = n;
                        int const w         = sign(A::r_ncmp(pa, pb, n));
                        int const g         = sign(A::e_ncmp(pa, pb, n));
                        cx.cmp(g, w, w != 0);
                    }
                }
                if (cx.on(F_spn)) {
                    auto const w = A::r_spn(pa, pb);
                    cx.cmp(A::e_spn(pa, pb), w, w > 0);
                }
                if (cx.on(F_cspn)) {
                    auto const w = A::r_cspn(pa, pb);
                    cx.cmp(A::e_cspn(pa, pb), w, w > 0);
                }
                if (cx.on(F_pbrk)) {
                    auto w = A::r_pbrk(pa, pb);
                    auto g = A::e_pbrk(pa, pb);
                    cx.cmp(off(g, pa), off(w, pa), w != nullptr);
                }
                if (cx.on(F_pbrk_nc)) {
                    auto w = A::r_pbrk(pa, pb);
                    C* g   = A::e_pbrk(SA.lhs(mode), SB.rhs(mode));
                    cx.cmp(off(g, pa), off(w, pa), w != nullptr);
                }
                if (cx.on(F_str)) {
                    auto w = A::r_str(pa, pb);
                    auto g = A::e_str(pa, pb);
                    cx.cmp(off(g, pa), off(w, pa), w != nullptr && lb > 0);
                }
                if (cx.on(F_str_nc)) {
                    auto w = A::r_str(pa, pb);
                    C* g   = A::e_str(SA.lhs(mode), SB.rhs(mode));
                    cx.cmp(off(g, pa), off(w, pa), w != nullptr && lb > 0);
                }
                if (cx.on(F_cat)) {
                    // destination holds lhs, room for exactly lhs + rhs + terminator
                    mc::GuardedBlock<C> de(la + lb + 1), dw(la + lb + 1);
                    std::copy(pa, pa + la + 1, de.data());
                    std::copy(pa, pa + la + 1, dw.data());
                    C* ret = A::e_cat(de.data(), pb);
                    A::r_cat(dw.data(), pb);
                    cx.cmp_buf(de, dw, ret == de.data(), lb > 0);
                }
                if (cx.on(F_ncat)) {
                    // C: at most count characters + terminator are appended
                    for (std::size_t k = 0; k <= lb + 3; ++k) {
                        std::size_t const n = (k == lb + 3) ? npos : k;
                        cx.n                = n;
                        std::size_t const total = la + std::min(n, lb) + 1;
                        mc::GuardedBlock<C> de(total), dw(total);
                        std::copy(pa, pa + la + 1, de.data());
                        std::copy(pa, pa + la + 1, dw.data());
                        C* ret = A::e_ncat(de.data(), pb, n);
                        A::r_ncat(dw.data(), pb, n);
                        cx.cmp_buf(de, dw, ret == de.data(), lb > 0 && n > 0);
                    }
                }
            });
            cx.trapped(t2);
        }
        } // mode
        cx.mode = 0;
        if (!SA.blk->intact() || !SA.tail1->intact() || !SA.tail2->intact()) { r.violation("C02", "job:strings", "source-canary", SA.shown, "a source string block was written to"); }
        if (r.wants_sample() && la == std::size_t(maxLen)) { r.sample(cat(A::tname, " lhs=", SA.shown, " x all ", pool.size(), " rhs, every count")); }
        if (r.deadline_passed()) {
            r.not_exhaustive("deadline");
            break;
        }
    }
    cx.finish();
    r.count("strings", pool.size());
    r.sample(cat(A::tname, " strings: all of length <= ", maxLen, " over ", mc::show_chars(alpha.begin(), alpha.end()), " (", pool.size(),
        "), all ordered pairs, part ", part + 1, "/", parts));
}

// ---------------------------------------------------------------------------------------
// job: search functions on longer haystacks (periodic partial matches)
// ---------------------------------------------------------------------------------------

template <typename C>
void sweep_search(mc::Reporter& r, std::vector<C> const& alpha, int maxHay, int maxNeedle, int part, int parts)
{
    using A            = Api<C>;
    auto const hays    = make_pool<C>(alpha, maxHay, true);
    auto const needles = make_pool<C>(alpha, maxNeedle, true);
    Ctx<C> cx(r);
    for (std::size_t ia = 0; ia < hays.size(); ++ia) {
        if (int(ia % std::size_t(parts)) != part) { continue; }
        auto const& SA = hays[ia];
        cx.a           = &SA;
        for (int mode = 0; mode < 2; ++mode) {
        cx.mode           = mode;
        C const* const pa = SA.lhs(mode);
        for (auto const& SB : needles) {
            cx.b              = &SB;
            C const* const pb = SB.rhs(mode);
            mc::Trap t = mc::guarded([&] {
                if (cx.on(F_str)) {
                    auto w = A::r_str(pa, pb);
                    auto g = A::e_str(pa, pb);
                    cx.cmp(off(g, pa), off(w, pa), w != nullptr && SB.len() > 0);
                }
                if (cx.on(F_spn)) {
                    auto const w = A::r_spn(pa, pb);
                    cx.cmp(A::e_spn(pa, pb), w, w > 0);
                }
                if (cx.on(F_cspn)) {
                    auto const w = A::r_cspn(pa, pb);
                    cx.cmp(A::e_cspn(pa, pb), w, w > 0);
                }
                if (cx.on(F_pbrk)) {
                    auto w = A::r_pbrk(pa, pb);
                    auto g = A::e_pbrk(pa, pb);
                    cx.cmp(off(g, pa), off(w, pa), w != nullptr);
                }
                if (cx.on(F_cmp)) {
                    int const w = sign(A::r_cmp(pa, pb));
                    cx.cmp(sign(A::e_cmp(pa, pb)), w, w != 0);
                }
            });
            cx.trapped(t);
        }
        } // mode
        cx.mode = 0;
        if (r.deadline_passed()) {
            r.not_exhaustive("deadline");
            break;
        }
    }
    cx.finish();
    r.sample(cat(A::tname, " search: haystacks of length <= ", maxHay, " (", hays.size(), ") x needles/sets of length <= ", maxNeedle, " (",
        needles.size(), ") over ", mc::show_chars(alpha.begin(), alpha.end())));
}

// ---------------------------------------------------------------------------------------
// job: counted buffers (may contain NUL): memcmp, memchr, memcpy, memset, memmove
// ---------------------------------------------------------------------------------------

template <typename C>
void sweep_mem(mc::Reporter& r, std::vector<C> const& alpha, int maxLen, int moveLen)
{
    using A         = Api<C>;
    auto const pool = make_pool<C>(alpha, maxLen, false);
    Ctx<C> cx(r);
    auto const chars = A::search_chars();

    for (auto const& SA : pool) {
        cx.a                 = &SA;
        cx.b                 = nullptr;
        C const* const pa    = SA.p();
        std::size_t const la = SA.len();
        mc::Trap t = mc::guarded([&] {
            for (std::size_t n = 0; n <= la; ++n) {
                cx.n = n;
                for (long ch : chars) {
                    cx.ch = ch;
                    if (cx.on(F_mchr)) {
                        auto w = A::r_mchr(pa, ch, n);
                        auto g = A::e_mchr(pa, ch, n);
                        cx.cmp(off(g, pa), off(w, pa), w != nullptr);
                    }
                    if (cx.on(F_mchr_nc)) {
                        auto w = A::r_mchr(pa, ch, n);
                        C* g   = A::e_mchr_nc(SA.mp(), ch, n);
                        cx.cmp(off(g, pa), off(w, pa), w != nullptr);
                    }
                }
                if (cx.on(F_mcpy)) {
                    // separate source and destination, destination exactly n elements
                    mc::GuardedBlock<C> de(n), dw(n);
                    C* ret = A::e_mcpy(de.data(), pa, n);
                    A::r_mcpy(dw.data(), pa, n);
                    cx.cmp_buf(de, dw, ret == de.data(), n > 0);
                }
            }
        });
        cx.trapped(t);
        for (auto const& SB : pool) {
            cx.b              = &SB;
            C const* const pb = SB.p();
            mc::Trap t2 = mc::guarded([&] {
                if (cx.on(F_mcmp)) {
                    for (std::size_t n = 0; n <= std::min(la, SB.len()); ++n) {
                        cx.n        = n;
                        int const w = sign(A::r_mcmp(pa, pb, n));
                        int const g = sign(A::e_mcmp(pa, pb, n));
                        cx.cmp(g, w, w != 0);
                    }
                }
            });
            cx.trapped(t2);
        }
        if (!SA.blk->intact()) { r.violation("C02", "job:mem", "source-canary", SA.shown, "a source buffer block was written to"); }
        if (r.deadline_passed()) {
            r.not_exhaustive("deadline");
            break;
        }
    }
    cx.a = nullptr;
    cx.b = nullptr;

    // memset: every length 0..moveLen, every offset inside a block of that total length
    {
        std::vector<long> vals = chars;
        mc::Trap t = mc::guarded([&] {
            for (std::size_t total = 0; total <= std::size_t(moveLen); ++total) {
                for (std::size_t o = 0; o <= total; ++o) {
                    for (std::size_t n = 0; o + n <= total; ++n) {
                        for (long ch : vals) {
                            if (!cx.on(F_mset)) { continue; }
                            cx.n  = n;
                            cx.ch = ch;
                            mc::GuardedBlock<C> de(total, 0x11), dw(total, 0x11);
                            C* ret = A::e_mset(de.data() + o, ch, n);
                            A::r_mset(dw.data() + o, ch, n);
                            cx.cmp_buf(de, dw, ret == de.data() + o, n > 0);
                        }
                    }
                }
            }
        });
        cx.trapped(t);
    }

    // memmove / memcpy inside one buffer: every (dst offset, src offset, count); the block is
    // exactly as long as the farther of the two ranges.  Contents: all distinct, and one NUL
    // at each position (the wide versions are built on string routines).
    {
        std::vector<Buf<C>> contents;
        for (int z = -1; z < moveLen; ++z) {
            Buf<C> b;
            for (int i = 0; i < moveLen; ++i) { b.s.push_back(i == z ? C(0) : C('A' + i)); }
            b.shown = mc::show_chars(b.s.begin(), b.s.end());
            contents.push_back(std::move(b));
        }
        for (auto const& B : contents) {
            cx.a = &B;
            mc::Trap t = mc::guarded([&] {
                for (std::size_t n = 0; n <= std::size_t(moveLen); ++n) {
                    for (std::size_t d = 0; d + n <= std::size_t(moveLen); ++d) {
                        for (std::size_t s = 0; s + n <= std::size_t(moveLen); ++s) {
                            cx.n   = n;
                            cx.dof = long(d);
                            cx.so  = long(s);
                            std::size_t const total = std::max(d, s) + n;
                            if (cx.on(F_mmove)) {
                                mc::GuardedBlock<C> de(total), dw(total);
                                std::copy(B.s.begin(), B.s.begin() + total, de.data());
                                std::copy(B.s.begin(), B.s.begin() + total, dw.data());
                                C* ret = A::e_mmove(de.data() + d, de.data() + s, n);
                                A::r_mmove(dw.data() + d, dw.data() + s, n);
                                cx.cmp_buf(de, dw, ret == de.data() + d, n > 0 && d != s);
                            }
                            bool const disjoint = (d + n <= s) || (s + n <= d);
                            if (disjoint && cx.on(F_mcpy_in)) {
                                // memcpy within one object, ranges not overlapping (valid for memcpy)
                                mc::GuardedBlock<C> de(total), dw(total);
                                std::copy(B.s.begin(), B.s.begin() + total, de.data());
                                std::copy(B.s.begin(), B.s.begin() + total, dw.data());
                                C* ret = A::e_mcpy(de.data() + d, de.data() + s, n);
                                A::r_mcpy(dw.data() + d, dw.data() + s, n);
                                cx.cmp_buf(de, dw, ret == de.data() + d, n > 0);
                            }
                        }
                    }
                }
            });
            cx.trapped(t);
            if (r.deadline_passed()) {
                r.not_exhaustive("deadline");
                break;
            }
        }
    }
    cx.finish();
    r.count("buffers", pool.size());
    r.sample(cat(A::tname, " mem: buffers of length <= ", maxLen, " over ", mc::show_chars(alpha.begin(), alpha.end()), " (", pool.size(),
        "), all pairs x counts; memmove/memset: every (dst,src,count) inside ", moveLen, " elements x ", moveLen + 1, " contents"));
}

// ---------------------------------------------------------------------------------------
// job: <cctype> / <cwctype>
// ---------------------------------------------------------------------------------------

struct NarrowFn {
    char const* name;
    int (*e)(int);
    int (*r)(int);
    bool exact;
};

void sweep_cctype(mc::Reporter& r)
{
    std::setlocale(LC_ALL, "C");
    NarrowFn const tab[] = {
        {"isalnum", +[](int c) { return etl::isalnum(c); }, +[](int c) { return ::isalnum(c); }, false},
        {"isalpha", +[](int c) { return etl::isalpha(c); }, +[](int c) { return ::isalpha(c); }, false},
        {"isblank", +[](int c) { return etl::isblank(c); }, +[](int c) { return ::isblank(c); }, false},
        {"iscntrl", +[](int c) { return etl::iscntrl(c); }, +[](int c) { return ::iscntrl(c); }, false},
        {"isdigit", +[](int c) { return etl::isdigit(c); }, +[](int c) { return ::isdigit(c); }, false},
        {"isgraph", +[](int c) { return etl::isgraph(c); }, +[](int c) { return ::isgraph(c); }, false},
        {"islower", +[](int c) { return etl::islower(c); }, +[](int c) { return ::islower(c); }, false},
        {"isprint", +[](int c) { return etl::isprint(c); }, +[](int c) { return ::isprint(c); }, false},
        {"ispunct", +[](int c) { return etl::ispunct(c); }, +[](int c) { return ::ispunct(c); }, false},
        {"isspace", +[](int c) { return etl::isspace(c); }, +[](int c) { return ::isspace(c); }, false},
        {"isupper", +[](int c) { return etl::isupper(c); }, +[](int c) { return ::isupper(c); }, false},
        {"isxdigit", +[](int c) { return etl::isxdigit(c); }, +[](int c) { return ::isxdigit(c); }, false},
        {"tolower", +[](int c) { return etl::tolower(c); }, +[](int c) { return ::tolower(c); }, true},
        {"toupper", +[](int c) { return etl::toupper(c); }, +[](int c) { return ::toupper(c); }, true},
    };
    std::uint64_t evals = 0, nontriv = 0;
    std::uint64_t san = mc::san_hits();
    for (auto const& f : tab) {
        std::string const subject = cat("etl::", f.name);
        if (!r.want(subject)) { continue; }
        int cur = 0;
        mc::Trap t = mc::guarded([&] {
            for (int c = -1; c <= 255; ++c) { // EOF == -1 and every unsigned char value: the whole domain C defines
                cur             = c;
                int const w     = f.r(c);
                int const g     = f.e(c);
                bool const same = f.exact ? (g == w) : ((g != 0) == (w != 0));
                ++evals;
                if (f.exact ? (w != c) : (w != 0)) { ++nontriv; }
                r.outcome(mc::hash_mix(mc::hash_str(f.name), std::uint64_t(f.exact ? w : (w != 0))));
                auto cls = [&] { return std::string(c == -1 ? "eof" : c < 0x80 ? "ascii" : "high"); };
                if (!same) { r.violation("C18", subject, cls(), cat(f.name, "(", c, ")"), cat("tetl=", g, " libc=", w)); }
                if (mc::san_hits() != san) {
                    san = mc::san_hits();
                    r.violation("C02", subject, cls(), cat(f.name, "(", c, ")"), "UBSan report");
                }
            }
        });
        if (t != mc::Trap::none) { r.violation(t == mc::Trap::assert_fired ? "C05" : "C02", subject, cat("trap/", mc::trap_name(t)), cat(f.name, "(", cur, ")"), mc::describe_trap(t)); }
    }
    r.count("evaluations", evals);
    r.count("distinct_nontrivial", nontriv);
    r.sample("cctype: 14 functions x every argument in [-1,255]");
    r.sample("isxdigit(102 'f'), tolower(90 'Z'), isalpha(255), isspace(-1)");
}

struct WideFn {
    char const* name;
    std::wint_t (*e)(std::wint_t);
    std::wint_t (*r)(std::wint_t);
    bool exact;
};

void sweep_cwctype(mc::Reporter& r, std::uint32_t top)
{
    std::setlocale(LC_ALL, "C");
    using W = std::wint_t;
    static_assert(std::is_same_v<etl::wint_t, unsigned int> && std::is_same_v<std::wint_t, unsigned int>);
    WideFn const tab[] = {
        {"iswalnum", +[](W c) { return W(etl::iswalnum(c)); }, +[](W c) { return W(::iswalnum(c)); }, false},
        {"iswalpha", +[](W c) { return W(etl::iswalpha(c)); }, +[](W c) { return W(::iswalpha(c)); }, false},
        {"iswblank", +[](W c) { return W(etl::iswblank(c)); }, +[](W c) { return W(::iswblank(c)); }, false},
        {"iswcntrl", +[](W c) { return W(etl::iswcntrl(c)); }, +[](W c) { return W(::iswcntrl(c)); }, false},
        {"iswdigit", +[](W c) { return W(etl::iswdigit(c)); }, +[](W c) { return W(::iswdigit(c)); }, false},
        {"iswgraph", +[](W c) { return W(etl::iswgraph(c)); }, +[](W c) { return W(::iswgraph(c)); }, false},
        {"iswlower", +[](W c) { return W(etl::iswlower(c)); }, +[](W c) { return W(::iswlower(c)); }, false},
        {"iswprint", +[](W c) { return W(etl::iswprint(c)); }, +[](W c) { return W(::iswprint(c)); }, false},
        {"iswpunct", +[](W c) { return W(etl::iswpunct(c)); }, +[](W c) { return W(::iswpunct(c)); }, false},
        {"iswspace", +[](W c) { return W(etl::iswspace(c)); }, +[](W c) { return W(::iswspace(c)); }, false},
        {"iswupper", +[](W c) { return W(etl::iswupper(c)); }, +[](W c) { return W(::iswupper(c)); }, false},
        {"iswxdigit", +[](W c) { return W(etl::iswxdigit(c)); }, +[](W c) { return W(::iswxdigit(c)); }, false},
        {"towlower", +[](W c) { return W(etl::towlower(c)); }, +[](W c) { return W(::towlower(c)); }, true},
        {"towupper", +[](W c) { return W(etl::towupper(c)); }, +[](W c) { return W(::towupper(c)); }, true},
    };
    std::vector<W> args;
    for (W c = 0; c <= top; ++c) { args.push_back(c); }
    for (W c : {W(0xFFFF), W(0x10FFFF), W(0x110000), W(0x7FFFFFFF), W(0x80000000U), W(0xFFFFFFFEU), W(WEOF)}) {
        if (c > top) { args.push_back(c); }
    }
    std::uint64_t evals = 0, nontriv = 0;
    std::uint64_t san = mc::san_hits();
    for (auto const& f : tab) {
        std::string const subject = cat("etl::", f.name);
        if (!r.want(subject)) { continue; }
        W cur = 0;
        mc::Trap t = mc::guarded([&] {
            for (W c : args) {
                cur             = c;
                W const w       = f.r(c);
                W const g       = f.e(c);
                bool const same = f.exact ? (g == w) : ((g != 0) == (w != 0));
                ++evals;
                if (f.exact ? (w != c) : (w != 0)) { ++nontriv; }
                r.outcome(mc::hash_mix(mc::hash_str(f.name), std::uint64_t(f.exact ? w : (w != 0))));
                auto cls = [&] {
                    return std::string(c == W(WEOF) ? "weof" : c < 0x80 ? "ascii" : c < 0x100 ? "latin1" : c < 0x10000 ? "bmp" : c < 0x110000 ? "astral" : "beyond_unicode");
                };
                if (!same) { r.violation("C18", subject, cls(), cat(f.name, "(", c, ")"), cat("tetl=", g, " libc=", w)); }
                if (mc::san_hits() != san) {
                    san = mc::san_hits();
                    r.violation("C02", subject, cls(), cat(f.name, "(", c, ")"), "UBSan report");
                }
            }
        });
        if (t != mc::Trap::none) { r.violation(t == mc::Trap::assert_fired ? "C05" : "C02", subject, cat("trap/", mc::trap_name(t)), cat(f.name, "(", cur, ")"), mc::describe_trap(t)); }
    }
    r.count("evaluations", evals);
    r.count("distinct_nontrivial", nontriv);
    r.sample(cat("cwctype: 14 functions x every argument in [0,", top, "] + {0xFFFF,0x10FFFF,0x110000,0x7FFFFFFF,0x80000000,0xFFFFFFFE,WEOF}"));
}

// ---------------------------------------------------------------------------------------
// job: div / ldiv / lldiv / imaxdiv / labs / llabs
// ---------------------------------------------------------------------------------------

template <typename T>
std::vector<T> lattice(int small)
{
    using L = std::numeric_limits<T>;
    std::set<T> s;
    for (int i = -small; i <= small; ++i) { s.insert(T(i)); }
    for (int k = 1; k < L::digits; ++k) {
        T const p = T(T(1) << k);
        for (T v : {T(p - 1), p, T(p + 1)}) {
            s.insert(v);
            s.insert(T(-v));
        }
    }
    for (T v : {T(10), T(100), T(1000), T(1000000), T(999999937)}) {
        s.insert(v);
        s.insert(T(-v));
    }
    s.insert(L::max());
    s.insert(T(L::max() - 1));
    s.insert(L::min());
    s.insert(T(L::min() + 1));
    return std::vector<T>(s.begin(), s.end());
}

template <typename T>
std::string divcls(T x, T y)
{
    using L = std::numeric_limits<T>;
    std::string c = cat(x < 0 ? "neg" : "nonneg", "/", y < 0 ? "neg" : "pos");
    if (x == L::min() || x == L::max() || y == L::min() || y == L::max()) { c += "+extreme"; }
    return c;
}

template <typename T, typename EF, typename RF>
void sweep_div(mc::Reporter& r, char const* name, int small, EF ef, RF rf, std::uint64_t& evals, std::uint64_t& nontriv)
{
    using L                   = std::numeric_limits<T>;
    std::string const subject = cat("etl::", name);
    if (!r.want(subject)) { return; }
    auto const vals = lattice<T>(small);
    std::uint64_t san = mc::san_hits();
    T cx{}, cy{};
    mc::Trap t = mc::guarded([&] {
        for (T x : vals) {
            for (T y : vals) {
                if (y == 0) { continue; }                     // undefined in C
                if (x == L::min() && y == T(-1)) { continue; } // quotient not representable: undefined in C
                cx = x;
                cy = y;
                auto const w = rf(x, y);
                auto const g = ef(x, y);
                ++evals;
                if (w.rem != 0 && (x < 0 || y < 0)) { ++nontriv; }
                r.outcome(mc::hash_mix(std::uint64_t(w.quot), std::uint64_t(w.rem)));
                if (!(g.quot == w.quot && g.rem == w.rem)) {
                    r.violation("C18", subject, divcls(x, y), cat(name, "(", x, ",", y, ")"), cat("tetl={", g.quot, ",", g.rem, "} libc={", w.quot, ",", w.rem, "}"));
                }
                if (mc::san_hits() != san) {
                    san = mc::san_hits();
                    r.violation("C02", subject, divcls(x, y), cat(name, "(", x, ",", y, ")"), "UBSan report");
                }
            }
        }
    });
    if (t != mc::Trap::none) { r.violation(t == mc::Trap::assert_fired ? "C05" : "C02", subject, cat(divcls(cx, cy), "/", mc::trap_name(t)), cat(name, "(", cx, ",", cy, ")"), mc::describe_trap(t)); }
}

template <typename T, typename EF, typename RF>
void sweep_abs(mc::Reporter& r, char const* name, int small, EF ef, RF rf, std::uint64_t& evals, std::uint64_t& nontriv)
{
    using L                   = std::numeric_limits<T>;
    std::string const subject = cat("etl::", name);
    if (!r.want(subject)) { return; }
    std::uint64_t san = mc::san_hits();
    T cur{};
    mc::Trap t = mc::guarded([&] {
        for (T x : lattice<T>(small)) {
            if (x == L::min()) { continue; } // result not representable: undefined in C
            cur          = x;
            auto const w = rf(x);
            auto const g = ef(x);
            ++evals;
            if (x < 0) { ++nontriv; }
            r.outcome(std::uint64_t(w));
            std::string const cls = x < 0 ? "negative" : "nonnegative";
            if (g != w) { r.violation("C18", subject, cls, cat(name, "(", x, ")"), cat("tetl=", g, " libc=", w)); }
            if (mc::san_hits() != san) {
                san = mc::san_hits();
                r.violation("C02", subject, cls, cat(name, "(", x, ")"), "UBSan report");
            }
        }
    });
    if (t != mc::Trap::none) { r.violation(t == mc::Trap::assert_fired ? "C05" : "C02", subject, cat("trap/", mc::trap_name(t)), cat(name, "(", cur, ")"), mc::describe_trap(t)); }
}

void sweep_cstdlib(mc::Reporter& r, int small)
{
    std::uint64_t evals = 0, nontriv = 0;
    sweep_div<int>(r, "div(int,int)", small, [](int x, int y) { return etl::div(x, y); }, [](int x, int y) { return ::div(x, y); }, evals, nontriv);
    sweep_div<long>(r, "div(long,long)", small, [](long x, long y) { return etl::div(x, y); }, [](long x, long y) { return ::ldiv(x, y); }, evals, nontriv);
    sweep_div<long long>(r, "div(long long,long long)", small, [](long long x, long long y) { return etl::div(x, y); }, [](long long x, long long y) { return ::lldiv(x, y); }, evals, nontriv);
    sweep_div<long>(r, "ldiv", small, [](long x, long y) { return etl::ldiv(x, y); }, [](long x, long y) { return ::ldiv(x, y); }, evals, nontriv);
    sweep_div<long long>(r, "lldiv", small, [](long long x, long long y) { return etl::lldiv(x, y); }, [](long long x, long long y) { return ::lldiv(x, y); }, evals, nontriv);
    sweep_div<std::intmax_t>(r, "imaxdiv", small, [](std::intmax_t x, std::intmax_t y) { return etl::imaxdiv(x, y); }, [](std::intmax_t x, std::intmax_t y) { return ::imaxdiv(x, y); }, evals, nontriv);
    sweep_abs<long>(r, "labs", small, [](long x) { return etl::labs(x); }, [](long x) { return ::labs(x); }, evals, nontriv);
    sweep_abs<long long>(r, "llabs", small, [](long long x) { return etl::llabs(x); }, [](long long x) { return ::llabs(x); }, evals, nontriv);
    r.count("evaluations", evals);
    r.count("distinct_nontrivial", nontriv);
    r.sample(cat("cstdlib: div/ldiv/lldiv/imaxdiv on lattice^2 ([-", small, ",", small, "] + +-(2^k-1,2^k,2^k+1) + decimal + MIN,MIN+1,MAX-1,MAX), y != 0, not (MIN,-1); labs/llabs on the lattice without MIN"));
}

} // namespace

int main(int argc, char** argv)
{
    std::setlocale(LC_ALL, "C");
    mc::Main m(argc, argv);
    std::vector<std::string> const both{"quick", "thorough"};
    std::vector<std::string> const q{"quick"};
    std::vector<std::string> const th{"thorough"};

    m.job("cctype", both, [](mc::Reporter& r) { sweep_cctype(r); });
    m.job("cwctype/0..0xFFFF", q, [](mc::Reporter& r) { sweep_cwctype(r, 0xFFFF); });
    m.job("cwctype/0..0x10FFFF", th, [](mc::Reporter& r) { sweep_cwctype(r, 0x10FFFF); });
    m.job("cstdlib/small40", q, [](mc::Reporter& r) { sweep_cstdlib(r, 40); });
    m.job("cstdlib/small300", th, [](mc::Reporter& r) { sweep_cstdlib(r, 300); });

    // strings over {a, b, 0x80}: quick length <= 4 (121 strings, 14 641 ordered pairs)
    m.job("char/str/len4", q, [](mc::Reporter& r) { sweep_strings<char>(r, {'a', 'b', char(0x80)}, 4, 0, 1); });
    m.job("wchar_t/str/len4", q, [](mc::Reporter& r) { sweep_strings<wchar_t>(r, {L'a', L'b', wchar_t(0x80)}, 4, 0, 1); });
    // ordering of the whole unsigned char range / of negative wchar_t values
    m.job("char/str/highbit", both, [](mc::Reporter& r) { sweep_strings<char>(r, {'a', char(0x7F), char(0x80), char(0xFF)}, 3, 0, 1); });
    m.job("wchar_t/str/extreme", both, [](mc::Reporter& r) { sweep_strings<wchar_t>(r, {L'a', wchar_t(0xFFFF), WCHAR_MAX, WCHAR_MIN}, 3, 0, 1); });
    // wide units that collide when truncated to 8 / 16 bits, one of them negative (added after seeded breakage
    // c18_wcsspn_byte_set_negative_wchar: a 256-entry membership set for wcsspn/wcscspn/wcspbrk admitted every
    // ch <= 0xFF - negative wchar_t included - and indexed it by the low byte; needs a negative unit AND a partner
    // with the same low byte, which {a, 0xFFFF, WCHAR_MAX, WCHAR_MIN} does not contain)
    m.job("wchar_t/str/collisions", both, [](mc::Reporter& r) { sweep_strings<wchar_t>(r, {L'a', wchar_t(0x161), wchar_t(0x10061), wchar_t(0xFFFFFF61), wchar_t(-1), wchar_t(0xFF)}, 2, 0, 1); });
    m.job("wchar_t/str/collisions3", th, [](mc::Reporter& r) { sweep_strings<wchar_t>(r, {L'a', wchar_t(0x161), wchar_t(0xFFFFFF61), wchar_t(-1), wchar_t(0xFF)}, 3, 0, 1); });
    m.job("wchar_t/mem/collisions", both, [](mc::Reporter& r) { sweep_mem<wchar_t>(r, {L'a', wchar_t(0x161), wchar_t(0x10061), wchar_t(0xFFFFFF61), wchar_t(0)}, 3, 4); });
    m.job("char/search/hay8", q, [](mc::Reporter& r) { sweep_search<char>(r, {'a', 'b'}, 8, 4, 0, 1); });
    m.job("wchar_t/search/hay8", q, [](mc::Reporter& r) { sweep_search<wchar_t>(r, {L'a', L'b'}, 8, 4, 0, 1); });
    m.job("char/mem/len4", q, [](mc::Reporter& r) { sweep_mem<char>(r, {char(0), 'a', char(0x80)}, 4, 8); });
    m.job("wchar_t/mem/len4", q, [](mc::Reporter& r) { sweep_mem<wchar_t>(r, {wchar_t(0), L'a', wchar_t(0x80)}, 4, 8); });

    // thorough: length <= 6 over the same alphabet (1093 strings, 1 194 649 ordered pairs) in 8 parts
    for (int p = 0; p < 8; ++p) {
        m.job(cat("char/str/len6/part", p), th, [p](mc::Reporter& r) { sweep_strings<char>(r, {'a', 'b', char(0x80)}, 6, p, 8); });
        m.job(cat("wchar_t/str/len6/part", p), th, [p](mc::Reporter& r) { sweep_strings<wchar_t>(r, {L'a', L'b', wchar_t(0x80)}, 6, p, 8); });
    }
    for (int p = 0; p < 2; ++p) {
        m.job(cat("char/search/hay12/part", p), th, [p](mc::Reporter& r) { sweep_search<char>(r, {'a', 'b'}, 12, 5, p, 2); });
        m.job(cat("wchar_t/search/hay12/part", p), th, [p](mc::Reporter& r) { sweep_search<wchar_t>(r, {L'a', L'b'}, 12, 5, p, 2); });
    }
    m.job("char/mem/len6", th, [](mc::Reporter& r) { sweep_mem<char>(r, {char(0), 'a', char(0x80)}, 6, 12); });
    m.job("wchar_t/mem/len6", th, [](mc::Reporter& r) { sweep_mem<wchar_t>(r, {wchar_t(0), L'a', wchar_t(0x80)}, 6, 12); });
    m.job("char/mem/highbit", both, [](mc::Reporter& r) { sweep_mem<char>(r, {char(0), char(1), char(0x7F), char(0x80), char(0xFF)}, 3, 4); });
    m.job("wchar_t/mem/extreme", both, [](mc::Reporter& r) { sweep_mem<wchar_t>(r, {wchar_t(0), wchar_t(1), WCHAR_MAX, WCHAR_MIN}, 3, 4); });
    return m.run();
}
