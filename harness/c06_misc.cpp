// C06, part "misc": etl/numeric.hpp range algorithms, the iterator helpers the algorithms are built on
// (advance, next, prev, distance) and reverse_iterator's own operators.
//   accumulate reduce inner_product transform_reduce partial_sum adjacent_difference iota
//   partial_sum / adjacent_difference in place (d_first == first) on every sub-range of the buffer
//   init types wider than the element type (long long, double over int) with minus / non-associative / concatenating
//   operations for the left folds and plus / max for the generalized sums (jobs numeric-wide, numeric2-wide)
//   advance next prev distance, reverse_iterator (+, -, [], +=, -=, ++, --, ==, !=, <, <=, >, >=, difference, base)
#include "c06_common.hpp"

using namespace c06;

namespace {

// a non-commutative, non-associative operation: detects swapped operands and a different fold order
struct Mix {
    int operator()(int a, int b) const { return a * 3 - b; }
};
struct Mul {
    int operator()(int a, int b) const { return a * b; }
};
struct Add {
    int operator()(int a, int b) const { return a + b; }
};
struct Sub2 {
    int operator()(int a, int b) const { return a * 2 - b; }
};
struct Twice {
    int operator()(int a) const { return a * 2 + 1; }
};

std::string ishow(ISeq const& s) { return show(s); }

template <typename F, typename G>
void numeric_one(Ctx& c, ISeq const& a)
{
    auto const n  = a.size();
    bool const nt = n >= 2;
    std::string const fl = cat(F::name, "->", G::name);
    auto cls  = [&] { return len_class(n); };
    auto kase = [&] { return cat(fl, " a=", ishow(a)); };

    for (int init : {0, 7}) {
        auto ikase = [&] { return cat(F::name, " a=", ishow(a), " init=", init); };
        if (c.want("accumulate(first,last,init)")) {
            c.run("accumulate(first,last,init)", nt, [&](auto lib, Obs& o) {
                Buf<int> A(mem<F>(a));
                o.num(C06_ALG(accumulate)(lib, F::at(lib, A, 0), F::at(lib, A, n), init));
                o.buf(A);
            }, cls, ikase);
        }
        if (c.want("accumulate(first,last,init,op)")) {
            c.run("accumulate(first,last,init,op)", nt, [&](auto lib, Obs& o) {
                Buf<int> A(mem<F>(a));
                o.num(C06_ALG(accumulate)(lib, F::at(lib, A, 0), F::at(lib, A, n), init, Mix{}));
                o.buf(A);
            }, cls, ikase);
        }
        // reduce: only associative + commutative operations have a specified result
        if (c.want("reduce(first,last,init)")) {
            c.run("reduce(first,last,init)", nt, [&](auto lib, Obs& o) {
                Buf<int> A(mem<F>(a));
                o.num(C06_ALG(reduce)(lib, F::at(lib, A, 0), F::at(lib, A, n), init));
                o.buf(A);
            }, cls, ikase);
        }
        if (c.want("reduce(first,last,init,op)")) {
            c.run("reduce(first,last,init,op)", nt, [&](auto lib, Obs& o) {
                Buf<int> A(mem<F>(a));
                o.num(C06_ALG(reduce)(lib, F::at(lib, A, 0), F::at(lib, A, n), init + 1, Mul{}));
                o.buf(A);
            }, cls, ikase);
        }
        if (c.want("transform_reduce(first,last,init,reduce,transform)")) {
            c.run("transform_reduce(first,last,init,reduce,transform)", nt, [&](auto lib, Obs& o) {
                Buf<int> A(mem<F>(a));
                o.num(C06_ALG(transform_reduce)(lib, F::at(lib, A, 0), F::at(lib, A, n), init, Add{}, Twice{}));
                o.buf(A);
            }, cls, ikase);
        }
    }
    if (c.want("reduce(first,last)")) {
        c.run("reduce(first,last)", nt, [&](auto lib, Obs& o) {
            Buf<int> A(mem<F>(a));
            o.num(C06_ALG(reduce)(lib, F::at(lib, A, 0), F::at(lib, A, n)));
            o.buf(A);
        }, cls, kase);
    }
    // partial_sum / adjacent_difference write exactly n elements
    if constexpr (!std::is_same_v<G, void>) {
        auto writer = [&](char const* subject, auto call) {
            if (!c.want(subject)) { return; }
            c.run(subject, nt, [&](auto lib, Obs& o) {
                Buf<int> A(mem<F>(a));
                Buf<int> D(n, -555);
                auto it = call(lib, F::at(lib, A, 0), F::at(lib, A, n), G::at(lib, D, 0));
                o.num(G::off(D, it));
                o.buf(D);
                o.buf(A);
            }, cls, kase);
        };
        writer("partial_sum(first,last,d_first)", [](auto lib, auto f, auto l, auto d) { return C06_ALG(partial_sum)(lib, f, l, d); });
        writer("partial_sum(first,last,d_first,op)", [](auto lib, auto f, auto l, auto d) { return C06_ALG(partial_sum)(lib, f, l, d, Mix{}); });
        writer("adjacent_difference(first,last,d_first)", [](auto lib, auto f, auto l, auto d) { return C06_ALG(adjacent_difference)(lib, f, l, d); });
        writer("adjacent_difference(first,last,d_first,op)",
            [](auto lib, auto f, auto l, auto d) { return C06_ALG(adjacent_difference)(lib, f, l, d, Sub2{}); });
    }
    // in place ("result may be equal to first"), on every sub-range [i,j) of the buffer
    if constexpr (F::rank >= 1 && std::is_same_v<F, G>) {
        auto inplace = [&](char const* subject, auto call) {
            if (!c.want(subject)) { return; }
            for (std::size_t i = 0; i <= n; ++i) {
                for (std::size_t j = i; j <= n; ++j) {
                    c.run(subject, nt, [&](auto lib, Obs& o) {
                        Buf<int> A(mem<F>(a));
                        auto it = call(lib, F::at(lib, A, i), F::at(lib, A, j), F::at(lib, A, i));
                        o.num(F::off(A, it));
                        o.buf(A);
                    }, [&] { return len_class(j - i); }, [&] { return cat(F::name, " a=", ishow(a), " first=", i, " last=", j, " d_first=first"); });
                }
            }
        };
        inplace("partial_sum(first,last,d_first) in place", [](auto lib, auto f, auto l, auto d) { return C06_ALG(partial_sum)(lib, f, l, d); });
        inplace("partial_sum(first,last,d_first,op) in place", [](auto lib, auto f, auto l, auto d) { return C06_ALG(partial_sum)(lib, f, l, d, Mix{}); });
        inplace("adjacent_difference(first,last,d_first) in place",
            [](auto lib, auto f, auto l, auto d) { return C06_ALG(adjacent_difference)(lib, f, l, d); });
        inplace("adjacent_difference(first,last,d_first,op) in place",
            [](auto lib, auto f, auto l, auto d) { return C06_ALG(adjacent_difference)(lib, f, l, d, Sub2{}); });
    }
    if constexpr (F::rank >= 1) {
        for (int start : {-2, 5}) {
            if (c.want("iota(first,last,value)")) {
                c.run("iota(first,last,value)", nt, [&](auto lib, Obs& o) {
                    Buf<int> A(mem<F>(a));
                    C06_ALG(iota)(lib, F::at(lib, A, 0), F::at(lib, A, n), start);
                    o.buf(A);
                }, cls, [&] { return cat(F::name, " len=", n, " value=", start); });
            }
        }
    }
}

template <typename F1, typename F2>
void numeric_two(Ctx& c, ISeq const& a, ISeq const& b)
{
    auto const n = a.size();
    auto const m = b.size();
    if (m < n) { return; }
    bool const nt = n >= 2;
    std::string const fl = cat(F1::name, "/", F2::name);
    auto cls = [&] { return cat(len_class(n), m > n ? "+second_longer" : ""); };
    for (int init : {0, 7}) {
        auto kase = [&] { return cat(fl, " a=", ishow(a), " b=", ishow(b), " init=", init); };
        if (c.want("inner_product(first1,last1,first2,init)")) {
            c.run("inner_product(first1,last1,first2,init)", nt, [&](auto lib, Obs& o) {
                Buf<int> A(mem<F1>(a));
                Buf<int> B(mem<F2>(b));
                o.num(C06_ALG(inner_product)(lib, F1::at(lib, A, 0), F1::at(lib, A, n), F2::at(lib, B, 0), init));
                o.buf(A);
                o.buf(B);
            }, cls, kase);
        }
        if (c.want("inner_product(first1,last1,first2,init,op1,op2)")) {
            c.run("inner_product(first1,last1,first2,init,op1,op2)", nt, [&](auto lib, Obs& o) {
                Buf<int> A(mem<F1>(a));
                Buf<int> B(mem<F2>(b));
                o.num(C06_ALG(inner_product)(lib, F1::at(lib, A, 0), F1::at(lib, A, n), F2::at(lib, B, 0), init, Mix{}, Sub2{}));
                o.buf(A);
                o.buf(B);
            }, cls, kase);
        }
        if (c.want("transform_reduce(first1,last1,first2,init)")) {
            c.run("transform_reduce(first1,last1,first2,init)", nt, [&](auto lib, Obs& o) {
                Buf<int> A(mem<F1>(a));
                Buf<int> B(mem<F2>(b));
                o.num(C06_ALG(transform_reduce)(lib, F1::at(lib, A, 0), F1::at(lib, A, n), F2::at(lib, B, 0), init));
                o.buf(A);
                o.buf(B);
            }, cls, kase);
        }
        if (c.want("transform_reduce(first1,last1,first2,init,reduce,transform)")) {
            c.run("transform_reduce(first1,last1,first2,init,reduce,transform)", nt, [&](auto lib, Obs& o) {
                Buf<int> A(mem<F1>(a));
                Buf<int> B(mem<F2>(b));
                o.num(C06_ALG(transform_reduce)(lib, F1::at(lib, A, 0), F1::at(lib, A, n), F2::at(lib, B, 0), init, Add{}, Sub2{}));
                o.buf(A);
                o.buf(B);
            }, cls, kase);
        }
    }
}

// ------------------------------------------------------------------------------------------
// init type different from the element type (long long / double over int elements), non-commutative and
// non-associative operations for the strict left folds
//   * accumulate / inner_product are left folds in the init type: every operation is specified, so minus, the
//     non-associative Mix and a digit concatenation (acc * 10 + x)
//     are compared; the init values 5'000'000'007 and 0.5 do not survive a narrowing to the element type
//   * reduce / transform_reduce are a GENERALIZED_SUM: only associative + commutative operations have a specified
//     result, and every operand combination must be valid: plus (pairs of elements stay inside int, the total
//     does not: alphabet {-1, 2, 1'000'000'000}), and max; doubles stay exactly representable (no rounding, so
//     the grouping cannot show)
// ------------------------------------------------------------------------------------------
struct MinusW {
    template <typename A, typename B>
    auto operator()(A x, B y) const
    {
        return x - y;
    }
};
struct MixW {
    template <typename A, typename B>
    auto operator()(A x, B y) const
    {
        return x * 3 - y;
    }
};
struct ConcatW {
    template <typename A, typename B>
    A operator()(A x, B y) const
    {
        return x * 10 + y;
    }
};
struct PlusW {
    template <typename A, typename B>
    auto operator()(A x, B y) const
    {
        return x + y;
    }
};
struct MaxW {
    template <typename A, typename B>
    auto operator()(A x, B y) const
    {
        using C = std::common_type_t<A, B>;
        return C(x) < C(y) ? C(y) : C(x);
    }
};
struct TimesHalf { // int -> double: the transformed value is not an int
    double operator()(int x) const { return x * 0.5; }
};
struct WideSq { // int -> long long: the transformed value leaves the int range (8 x 10^9 x 1000000007 < 2^63)
    long long operator()(int x) const { return static_cast<long long>(x) * 1000000007LL; }
};
struct WideMul {
    long long operator()(int x, int y) const { return static_cast<long long>(x) * y; }
};

template <typename T>
void put(Obs& o, T v)
{
    if constexpr (std::is_floating_point_v<T>) {
        o.dbl(static_cast<double>(v));
    } else {
        o.wide(static_cast<long long>(v));
    }
}
template <typename T>
std::string tname()
{
    return std::is_floating_point_v<T> ? "double" : "long_long";
}

template <typename F, typename T>
void numeric_wide_one(Ctx& c, ISeq const& a, bool big)
{
    auto const n  = a.size();
    bool const nt = n >= 2;
    auto cls      = [&] { return cat(len_class(n), "+init_", tname<T>()); };
    T const inits[2] = {std::is_floating_point_v<T> ? T(0.5) : T(5000000007LL), T(-3)};
    for (T init : inits) {
        auto kase = [&] { return cat(F::name, " a=", ishow(a), " init=(", tname<T>(), ")", init); };
#define C06_WIDE(SUBJ, ...)                                                                                                     \
    if (c.want(SUBJ)) {                                                                                                         \
        c.run(SUBJ, nt, [&](auto lib, Obs& o) {                                                                                 \
            Buf<int> A(mem<F>(a));                                                                                              \
            auto f = F::at(lib, A, 0);                                                                                          \
            auto l = F::at(lib, A, n);                                                                                          \
            auto res = __VA_ARGS__;                                                                                             \
            static_assert(std::is_same_v<decltype(res), T>);                                                                    \
            put(o, res);                                                                                                        \
            o.buf(A);                                                                                                           \
        }, cls, kase);                                                                                                          \
    }
        C06_WIDE("accumulate(first,last,init)", C06_ALG(accumulate)(lib, f, l, init))
        C06_WIDE("reduce(first,last,init)", C06_ALG(reduce)(lib, f, l, init))
        C06_WIDE("reduce(first,last,init,op)", C06_ALG(reduce)(lib, f, l, init, MaxW{}))
        C06_WIDE("reduce(first,last,init,op)", C06_ALG(reduce)(lib, f, l, init, PlusW{}))
        if constexpr (std::is_floating_point_v<T>) {
            C06_WIDE("transform_reduce(first,last,init,reduce,transform)", C06_ALG(transform_reduce)(lib, f, l, init, PlusW{}, TimesHalf{}))
        } else {
            C06_WIDE("transform_reduce(first,last,init,reduce,transform)", C06_ALG(transform_reduce)(lib, f, l, init, PlusW{}, WideSq{}))
        }
        if (!big) { // the products/differences below must stay inside the init type for every prefix
            C06_WIDE("accumulate(first,last,init,op)", C06_ALG(accumulate)(lib, f, l, init, MinusW{}))
            C06_WIDE("accumulate(first,last,init,op)", C06_ALG(accumulate)(lib, f, l, init, MixW{}))
            C06_WIDE("accumulate(first,last,init,op)", C06_ALG(accumulate)(lib, f, l, init, ConcatW{}))
        }
#undef C06_WIDE
    }
}

template <typename F1, typename F2, typename T>
void numeric_wide_two(Ctx& c, ISeq const& a, ISeq const& b)
{
    auto const n = a.size();
    auto const m = b.size();
    if (m < n) { return; }
    bool const nt = n >= 2;
    auto cls      = [&] { return cat(len_class(n), m > n ? "+second_longer" : "", "+init_", tname<T>()); };
    T const inits[2] = {std::is_floating_point_v<T> ? T(0.5) : T(5000000007LL), T(-3)};
    for (T init : inits) {
        auto kase = [&] { return cat(F1::name, "/", F2::name, " a=", ishow(a), " b=", ishow(b), " init=(", tname<T>(), ")", init); };
#define C06_WIDE2(SUBJ, ...)                                                                                                    \
    if (c.want(SUBJ)) {                                                                                                         \
        c.run(SUBJ, nt, [&](auto lib, Obs& o) {                                                                                 \
            Buf<int> A(mem<F1>(a));                                                                                             \
            Buf<int> B(mem<F2>(b));                                                                                             \
            auto f  = F1::at(lib, A, 0);                                                                                        \
            auto l  = F1::at(lib, A, n);                                                                                        \
            auto f2 = F2::at(lib, B, 0);                                                                                        \
            auto res = __VA_ARGS__;                                                                                             \
            static_assert(std::is_same_v<decltype(res), T>);                                                                    \
            put(o, res);                                                                                                        \
            o.buf(A);                                                                                                           \
            o.buf(B);                                                                                                           \
        }, cls, kase);                                                                                                          \
    }
        C06_WIDE2("inner_product(first1,last1,first2,init)", C06_ALG(inner_product)(lib, f, l, f2, init))
        C06_WIDE2("inner_product(first1,last1,first2,init,op1,op2)", C06_ALG(inner_product)(lib, f, l, f2, init, MinusW{}, MixW{}))
        C06_WIDE2("inner_product(first1,last1,first2,init,op1,op2)", C06_ALG(inner_product)(lib, f, l, f2, init, ConcatW{}, MinusW{}))
        C06_WIDE2("transform_reduce(first1,last1,first2,init)", C06_ALG(transform_reduce)(lib, f, l, f2, init))
        C06_WIDE2("transform_reduce(first1,last1,first2,init,reduce,transform)", C06_ALG(transform_reduce)(lib, f, l, f2, init, PlusW{}, MixW{}))
        if constexpr (!std::is_floating_point_v<T>) {
            C06_WIDE2("transform_reduce(first1,last1,first2,init,reduce,transform)", C06_ALG(transform_reduce)(lib, f, l, f2, init, MaxW{}, WideMul{}))
        }
#undef C06_WIDE2
    }
}

template <typename F>
void job_numeric_wide(mc::Reporter& r, int qL, int tL)
{
    Ctx c(r);
    auto const bd    = bounds(r, qL, 0, tL, 0);
    auto const pool  = make_ipool(bd.L, {-1, 2, 3});
    auto const bpool = make_ipool(bd.L, {-1, 2, 1000000000});
    r.count("sequences", pool.size() + bpool.size());
    for (auto const& a : pool) {
        if (c.out_of_time()) { break; }
        numeric_wide_one<F, long long>(c, a, false);
        numeric_wide_one<F, double>(c, a, false);
    }
    for (auto const& a : bpool) {
        if (c.out_of_time()) { break; }
        if (std::find(a.begin(), a.end(), 1000000000) == a.end()) { continue; } // already in the first pool
        numeric_wide_one<F, long long>(c, a, true);
        numeric_wide_one<F, double>(c, a, true);
    }
    r.sample(cat(F::name, ": every int sequence of length 0..", bd.L, " over {-1,2,3} and over {-1,2,1000000000}: accumulate/reduce/transform_reduce with "
        "long long init (5000000007, -3) and double init (0.5, -3): plus, max, minus, x*3-y, digit concatenation x*10+y (left folds only)"));
}

template <typename F1, typename F2>
void job_numeric_wide_two(mc::Reporter& r, int qL, int tL)
{
    Ctx c(r);
    auto const bd   = bounds(r, qL, 0, tL, 0);
    auto const pool = make_ipool(bd.L, {-1, 2, 3});
    r.count("sequences", pool.size() * pool.size());
    for (auto const& a : pool) {
        if (c.out_of_time()) { break; }
        for (auto const& b : pool) {
            numeric_wide_two<F1, F2, long long>(c, a, b);
            numeric_wide_two<F1, F2, double>(c, a, b);
        }
    }
    r.sample(cat(F1::name, "/", F2::name, ": every pair of int sequences, len(a) <= len(b) <= ", bd.L,
        ": inner_product / binary transform_reduce with long long and double init, minus / x*3-y / concatenation as outer or inner operation"));
}

// ------------------------------------------------------------------------------------------
// advance / next / prev / distance on every flavour, every (position, n) that stays inside the range
// ------------------------------------------------------------------------------------------
template <typename F>
void iterator_helpers(Ctx& c, int len)
{
    ISeq a;
    for (int i = 0; i < len; ++i) { a.push_back(10 + i); }
    auto const n = a.size();
    std::string const fl = F::name;
    for (std::size_t i = 0; i <= n; ++i) {
        for (std::size_t j = 0; j <= n; ++j) {
            long const d = static_cast<long>(j) - static_cast<long>(i);
            auto cls  = [&] { return std::string(d == 0 ? "n_zero" : d > 0 ? "n_positive" : "n_negative"); };
            auto kase = [&] { return cat(fl, " len=", n, " pos=", i, " n=", d); };
            bool const forward_ok = d >= 0;
            if (forward_ok || F::rank >= 2) {
                if (c.want("advance(it,n)")) {
                    c.run("advance(it,n)", true, [&](auto lib, Obs& o) {
                        Buf<int> A(mem<F>(a));
                        auto it = F::at(lib, A, i);
                        C06_ALG(advance)(lib, it, d);
                        o.num(F::off(A, it));
                    }, cls, kase);
                }
            }
            if (forward_ok) {
                if (c.want("next(it,n)")) {
                    c.run("next(it,n)", true, [&](auto lib, Obs& o) {
                        Buf<int> A(mem<F>(a));
                        auto it = C06_ALG(next)(lib, F::at(lib, A, i), d);
                        o.num(F::off(A, it));
                        if (d == 1) {
                            Buf<int> A1(mem<F>(a)); // fresh block: single-pass positions of A are used up
                            auto it1 = C06_ALG(next)(lib, F::at(lib, A1, i));
                            o.num(F::off(A1, it1));
                        }
                    }, cls, kase);
                }
                if (c.want("distance(first,last)")) {
                    c.run("distance(first,last)", true, [&](auto lib, Obs& o) {
                        Buf<int> A(mem<F>(a));
                        o.num(static_cast<long>(C06_ALG(distance)(lib, F::at(lib, A, i), F::at(lib, A, j))));
                    }, cls, kase);
                }
            } else if constexpr (F::rank >= 3) {
                if (c.want("distance(first,last)")) {
                    c.run("distance(first,last)", true, [&](auto lib, Obs& o) {
                        Buf<int> A(mem<F>(a));
                        o.num(static_cast<long>(C06_ALG(distance)(lib, F::at(lib, A, i), F::at(lib, A, j))));
                    }, cls, kase);
                }
            }
            if constexpr (F::rank >= 2) {
                // prev(it, k) with k = i - j: from position i back to position j (k may be negative: moves forward)
                if (c.want("prev(it,n)")) {
                    c.run("prev(it,n)", true, [&](auto lib, Obs& o) {
                        Buf<int> A(mem<F>(a));
                        auto it = C06_ALG(prev)(lib, F::at(lib, A, i), -d);
                        o.num(F::off(A, it));
                        if (d == -1) {
                            auto it1 = C06_ALG(prev)(lib, F::at(lib, A, i));
                            o.num(F::off(A, it1));
                        }
                    }, [&] { return std::string(d == 0 ? "n_zero" : d < 0 ? "n_positive" : "n_negative"); },
                        [&] { return cat(fl, " len=", n, " pos=", i, " n=", -d); });
                }
                if (forward_ok) {
                    if (c.want("next(it,n)")) {
                        c.run("next(it,n)", true, [&](auto lib, Obs& o) {
                            Buf<int> A(mem<F>(a));
                            auto it = C06_ALG(next)(lib, F::at(lib, A, j), -d);
                            o.num(F::off(A, it));
                        }, [&] { return std::string(d == 0 ? "n_zero" : "n_negative"); }, [&] { return cat(fl, " len=", n, " pos=", j, " n=", -d); });
                    }
                }
            }
        }
    }
}

// ------------------------------------------------------------------------------------------
// reverse_iterator's own interface against std::reverse_iterator (over raw pointers into one block)
// ------------------------------------------------------------------------------------------
void reverse_iterator_ops(Ctx& c, int len)
{
    ISeq a;
    for (int i = 0; i < len; ++i) { a.push_back(10 + i); }
    auto const n = a.size();
    auto mk      = [](auto lib, int* p) {
        if constexpr (decltype(lib)::is_etl) {
            return etl::reverse_iterator<int*>(p);
        } else {
            return std::reverse_iterator<int*>(p);
        }
    };
    // position i of the reversed view = base pointer b + (n - i)
    for (std::size_t i = 0; i <= n; ++i) {
        for (std::size_t j = 0; j <= n; ++j) {
            auto cls  = [&] { return std::string(i == j ? "same_position" : i < j ? "lhs_before_rhs" : "lhs_after_rhs"); };
            auto kase = [&] { return cat("len=", n, " lhs at reversed position ", i, ", rhs at ", j); };
#define C06_REL(SUBJ, OP)                                                                                                       \
    if (c.want(SUBJ)) {                                                                                                         \
        c.run(SUBJ, true, [&](auto lib, Obs& o) {                                                                               \
            Buf<int> A(a);                                                                                                      \
            auto x = mk(lib, A.e() - i);                                                                                        \
            auto y = mk(lib, A.e() - j);                                                                                        \
            o.num(x OP y);                                                                                                      \
        }, cls, kase);                                                                                                          \
    }
            C06_REL("reverse_iterator::operator==", ==)
            C06_REL("reverse_iterator::operator!=", !=)
            C06_REL("reverse_iterator::operator<", <)
            C06_REL("reverse_iterator::operator<=", <=)
            C06_REL("reverse_iterator::operator>", >)
            C06_REL("reverse_iterator::operator>=", >=)
#undef C06_REL
            if (c.want("reverse_iterator::operator-(it,it)")) {
                c.run("reverse_iterator::operator-(it,it)", true, [&](auto lib, Obs& o) {
                    Buf<int> A(a);
                    auto x = mk(lib, A.e() - i);
                    auto y = mk(lib, A.e() - j);
                    o.num(static_cast<long>(x - y));
                }, cls, kase);
            }
            // arithmetic from position i to position j
            long const d = static_cast<long>(j) - static_cast<long>(i);
            auto acls    = [&] { return std::string(d == 0 ? "n_zero" : d > 0 ? "n_positive" : "n_negative"); };
            auto akase   = [&] { return cat("len=", n, " reversed position ", i, " n=", d); };
            if (c.want("reverse_iterator::operator+/-/+=/-=")) {
                c.run("reverse_iterator::operator+/-/+=/-=", true, [&](auto lib, Obs& o) {
                    Buf<int> A(a);
                    auto x  = mk(lib, A.e() - i);
                    auto p1 = x + d;
                    auto p2 = d + x;
                    auto p3 = x - (-d);
                    auto p4 = x;
                    p4 += d;
                    auto p5 = x;
                    p5 -= -d;
                    o.num(A.e() - p1.base());
                    o.num(A.e() - p2.base());
                    o.num(A.e() - p3.base());
                    o.num(A.e() - p4.base());
                    o.num(A.e() - p5.base());
                    if (j < n) {
                        o.num(x[d]);
                        o.num(*p1);
                    }
                }, acls, akase);
            }
        }
        if (c.want("reverse_iterator::operator++/--/*")) {
            c.run("reverse_iterator::operator++/--/*", true, [&](auto lib, Obs& o) {
                Buf<int> A(a);
                auto x = mk(lib, A.e() - i);
                if (i < n) {
                    o.num(*x);
                    auto y  = x;
                    auto y0 = y++;
                    o.num(A.e() - y.base());
                    o.num(A.e() - y0.base());
                    auto z = x;
                    ++z;
                    o.num(A.e() - z.base());
                }
                if (i > 0) {
                    auto y  = x;
                    auto y0 = y--;
                    o.num(A.e() - y.base());
                    o.num(A.e() - y0.base());
                    auto z = x;
                    --z;
                    o.num(A.e() - z.base());
                    o.num(*z);
                }
                o.buf(A);
            }, [&] { return std::string(i == 0 ? "at_rbegin" : i == n ? "at_rend" : "inside"); },
                [&] { return cat("len=", n, " reversed position ", i); });
        }
    }
}

template <typename F, typename G>
void job_numeric(mc::Reporter& r, int qL, int tL)
{
    Ctx c(r);
    auto const bd   = bounds(r, qL, 0, tL, 0);
    auto const pool = make_ipool(bd.L, {-1, 2, 3});
    r.count("sequences", pool.size());
    for (auto const& a : pool) {
        if (c.out_of_time()) { break; }
        numeric_one<F, G>(c, a);
    }
    r.sample(cat(F::name, "->", G::name, ": every int sequence of length 0..", bd.L,
        " over {-1,2,3}: accumulate, reduce, transform_reduce, partial_sum, adjacent_difference (plus and a non-commutative op), iota"));
}

template <typename F1, typename F2>
void job_numeric_two(mc::Reporter& r, int qL, int tL)
{
    Ctx c(r);
    auto const bd   = bounds(r, qL, 0, tL, 0);
    auto const pool = make_ipool(bd.L, {-1, 2, 3});
    r.count("sequences", pool.size() * pool.size());
    for (auto const& a : pool) {
        if (c.out_of_time()) { break; }
        for (auto const& b : pool) { numeric_two<F1, F2>(c, a, b); }
    }
    r.sample(cat(F1::name, "/", F2::name, ": every pair of int sequences, len(a) <= len(b) <= ", bd.L, ": inner_product, transform_reduce (binary)"));
}

} // namespace

int main(int argc, char** argv)
{
    mc::Main m(argc, argv);
    std::vector<std::string> const both{"quick", "thorough"};
#if defined(MC_FLAVOUR_SAN)
    // sanitizer build: only the raw-pointer jobs (the wrappers check their own ranges; keeps the compile small)
    m.job("numeric/ptr->ptr", both, [](mc::Reporter& r) { job_numeric<PtrF, PtrF>(r, 5, 7); });
    m.job("numeric2/ptr+ptr", both, [](mc::Reporter& r) { job_numeric_two<PtrF, PtrF>(r, 4, 5); });
    m.job("numeric-wide/ptr", both, [](mc::Reporter& r) { job_numeric_wide<PtrF>(r, 5, 7); });
    m.job("numeric2-wide/ptr+ptr", both, [](mc::Reporter& r) { job_numeric_wide_two<PtrF, PtrF>(r, 4, 5); });
    m.job("reverse_iterator", both, [](mc::Reporter& r) {
        Ctx c(r);
        int const maxLen = r.thorough() ? 9 : 6;
        for (int len = 0; len <= maxLen; ++len) { reverse_iterator_ops(c, len); }
        r.sample("reverse_iterator<int*>: every pair of positions, all operators (sanitizer build)");
    });
#else
#if !defined(MC_PART) || MC_PART == 1
    m.job("numeric/ptr->ptr", both, [](mc::Reporter& r) { job_numeric<PtrF, PtrF>(r, 5, 7); });
    m.job("numeric/input->output", both, [](mc::Reporter& r) { job_numeric<InF, OutF>(r, 5, 7); });
    m.job("numeric/fwd->fwd", both, [](mc::Reporter& r) { job_numeric<FwdF, FwdF>(r, 5, 7); });
    m.job("numeric/rev->ra", both, [](mc::Reporter& r) { job_numeric<RevF, RaF>(r, 5, 6); });
    m.job("numeric2/ptr+ptr", both, [](mc::Reporter& r) { job_numeric_two<PtrF, PtrF>(r, 4, 5); });
    m.job("numeric2/input+input", both, [](mc::Reporter& r) { job_numeric_two<InF, InF>(r, 4, 5); });
    m.job("numeric-wide/ptr", both, [](mc::Reporter& r) { job_numeric_wide<PtrF>(r, 5, 8); });
    m.job("numeric-wide/input", both, [](mc::Reporter& r) { job_numeric_wide<InF>(r, 5, 8); });
    m.job("numeric-wide/rev", both, [](mc::Reporter& r) { job_numeric_wide<RevF>(r, 5, 7); });
    m.job("numeric2-wide/ptr+ptr", both, [](mc::Reporter& r) { job_numeric_wide_two<PtrF, PtrF>(r, 4, 5); });
    m.job("numeric2-wide/input+fwd", both, [](mc::Reporter& r) { job_numeric_wide_two<InF, FwdF>(r, 4, 5); });
    m.job("sub/numeric/ptr->ptr", both, sub([](mc::Reporter& r) { job_numeric<PtrF, PtrF>(r, 5, 7); }));
    m.job("sub/numeric/input->output", both, sub([](mc::Reporter& r) { job_numeric<InF, OutF>(r, 5, 7); }));
    m.job("sub/numeric/fwd->fwd", both, sub([](mc::Reporter& r) { job_numeric<FwdF, FwdF>(r, 5, 7); }));
    m.job("sub/numeric2/ptr+ptr", both, sub([](mc::Reporter& r) { job_numeric_two<PtrF, PtrF>(r, 4, 5); }));
    m.job("sub/numeric2/input+input", both, sub([](mc::Reporter& r) { job_numeric_two<InF, InF>(r, 4, 5); }));
#endif
#if !defined(MC_PART) || MC_PART == 2
    m.job("iterator-helpers", both, [](mc::Reporter& r) {
        Ctx c(r);
        int const maxLen = r.thorough() ? 9 : 6;
        for (int len = 0; len <= maxLen; ++len) {
            iterator_helpers<PtrF>(c, len);
            iterator_helpers<InF>(c, len);
            iterator_helpers<FwdF>(c, len);
            iterator_helpers<BidiF>(c, len);
            iterator_helpers<RaF>(c, len);
            iterator_helpers<RevF>(c, len);
        }
        r.sample(cat("advance/next/prev/distance: every flavour, every length 0..", maxLen, ", every (position, n) that stays inside the range"));
    });
    m.job("reverse_iterator", both, [](mc::Reporter& r) {
        Ctx c(r);
        int const maxLen = r.thorough() ? 9 : 6;
        for (int len = 0; len <= maxLen; ++len) { reverse_iterator_ops(c, len); }
        r.sample(cat("reverse_iterator<int*>: every pair of positions in ranges of length 0..", maxLen,
            ": ==, !=, <, <=, >, >=, difference, +, -, +=, -=, [], ++, --, *"));
    });
#endif
#endif
    return m.run();
}
