// C14, bit half: <etl/bit.hpp> (popcount, countl/r_zero/one, rotl, rotr, bit_width, bit_ceil,
// bit_floor, has_single_bit, byteswap, set/reset/flip/test_bit) and the experimental
// net byte-order conversions, against libstdc++ <bit>, htons/htonl and closed forms.
//
// Spaces: every value of u8/u16 (x every rotation count in [-130,130], x every bit position);
// the boundary lattice (c14_common.hpp) for u32/u64 x every count/position.
#include "c14_common.hpp"

#include <etl/bit.hpp>
#include <etl/experimental/net/byte_order.hpp>

#include <arpa/inet.h>
#include <array>

using namespace c14;
using mc::cat;

namespace {

// ---- closed-form references (independent of <bit>) -------------------------------------

template <typename U>
int ref_popcount(U x)
{
    int n = 0;
    for (int i = 0; i < width_v<U>; ++i) { n += int((x >> i) & 1U); }
    return n;
}
template <typename U>
int ref_countl(U x, unsigned bit)
{
    int n = 0;
    for (int i = width_v<U> - 1; i >= 0 && ((x >> i) & 1U) == bit; --i) { ++n; }
    return n;
}
template <typename U>
int ref_countr(U x, unsigned bit)
{
    int n = 0;
    for (int i = 0; i < width_v<U> && ((x >> i) & 1U) == bit; ++i) { ++n; }
    return n;
}
// rotate left by s (any integer): bit i of the result is bit (i - s) mod W of x
template <typename U>
U ref_rotl(U x, V s) // the count as a mathematical integer: -s never overflows here
{
    constexpr int W = width_v<U>;
    int const k     = int(((s % W) + W) % W);
    u128 const wide = u128(x);
    u128 const both = (wide << k) | (wide >> (W - k)); // k in [0,W): 128-bit shifts by at most 64
    return U(both);
}
template <typename T>
T ref_byteswap(T v)
{
    using U = std::make_unsigned_t<T>;
    U u     = U(v);
    U o     = 0;
    for (std::size_t i = 0; i < sizeof(T); ++i) {
        o = U(U(o << 8) | U(u & 0xFF));
        u = U(u >> 8);
    }
    return T(o);
}

template <typename U>
V agree(Ctx& c, char const* what, V x, V lib, V closed)
{
    if (lib != closed) { c.oracle_disagreement(what, cat(tname<U>(), " x=", dec(x)), lib, closed); }
    return lib;
}

template <typename U>
std::string cls_rot(V, V sv)
{
    constexpr int W = width_v<U>;
    int const s     = int(sv);
    if (s == 0) { return "count_zero"; }
    if (s % W == 0) { return s < 0 ? "count_negative_multiple_of_width" : "count_multiple_of_width"; }
    if (sv < -130 || sv > 130) { return s < 0 ? "count_negative_huge" : "count_huge"; }
    if (s < 0) { return s > -W ? "count_negative" : "count_negative_beyond_width"; }
    if (s > W) { return "count_beyond_width"; }
    return "general";
}

template <typename U>
std::string cls_pos(V, V pos)
{
    if (pos == 0) { return "pos_0"; }
    if (pos == width_v<U> - 1) { return "pos_top"; }
    return "general";
}

// ---- unary bit functions ---------------------------------------------------------------

template <typename U>
void unary_bits(Ctx& c)
{
    Set const& A = full2<U>();
    TI const t   = ti<U>();
    auto cls     = &cls_unary<U>;
    auto nt      = +[](V x) { return x != 0 && x != max_v<U>; };

    sweep1(c, {"popcount(x)", t, "x", always1, [](V x) { return V(etl::popcount(U(x))); },
                  [](Ctx& c, V x) { return agree<U>(c, "popcount", x, std::popcount(U(x)), ref_popcount(U(x))); }, cls, nt},
        A);
    sweep1(c, {"detail::popcount_fallback(x)", t, "x", always1, [](V x) { return V(etl::detail::popcount_fallback(U(x))); },
                  [](Ctx&, V x) { return V(ref_popcount(U(x))); }, cls, nt},
        A);
    sweep1(c, {"countl_zero(x)", t, "x", always1, [](V x) { return V(etl::countl_zero(U(x))); },
                  [](Ctx& c, V x) { return agree<U>(c, "countl_zero", x, std::countl_zero(U(x)), ref_countl(U(x), 0)); }, cls, nt},
        A);
    sweep1(c, {"countl_one(x)", t, "x", always1, [](V x) { return V(etl::countl_one(U(x))); },
                  [](Ctx& c, V x) { return agree<U>(c, "countl_one", x, std::countl_one(U(x)), ref_countl(U(x), 1)); }, cls, nt},
        A);
    sweep1(c, {"countr_zero(x)", t, "x", always1, [](V x) { return V(etl::countr_zero(U(x))); },
                  [](Ctx& c, V x) { return agree<U>(c, "countr_zero", x, std::countr_zero(U(x)), ref_countr(U(x), 0)); }, cls, nt},
        A);
    sweep1(c, {"countr_one(x)", t, "x", always1, [](V x) { return V(etl::countr_one(U(x))); },
                  [](Ctx& c, V x) { return agree<U>(c, "countr_one", x, std::countr_one(U(x)), ref_countr(U(x), 1)); }, cls, nt},
        A);
    sweep1(c, {"bit_width(x)", t, "x", always1, [](V x) { return V(etl::bit_width(U(x))); },
                  [](Ctx& c, V x) { return agree<U>(c, "bit_width", x, V(std::bit_width(U(x))), width_v<U> - ref_countl(U(x), 0)); }, cls, nt},
        A);
    sweep1(c, {"bit_floor(x)", t, "x", always1, [](V x) { return V(etl::bit_floor(U(x))); },
                  [](Ctx& c, V x) {
                      V const closed = x == 0 ? V(0) : V(1) << (width_v<U> - 1 - ref_countl(U(x), 0));
                      return agree<U>(c, "bit_floor", x, std::bit_floor(U(x)), closed);
                  },
                  cls, nt},
        A);
    sweep1(c, {"has_single_bit(x)", t, "x", always1, [](V x) { return V(etl::has_single_bit(U(x))); },
                  [](Ctx& c, V x) { return agree<U>(c, "has_single_bit", x, std::has_single_bit(U(x)), ref_popcount(U(x)) == 1); }, cls, nt},
        A);
    // bit_ceil: domain = the result is representable (x <= 2^(W-1)); beyond that std is undefined too
    sweep1(c, {"bit_ceil(x)", t, "x", [](V x) { return x <= (V(1) << (width_v<U> - 1)); }, [](V x) { return V(etl::bit_ceil(U(x))); },
                  [](Ctx& c, V x) {
                      V closed = 1;
                      while (closed < x) { closed <<= 1; }
                      return agree<U>(c, "bit_ceil", x, std::bit_ceil(U(x)), closed);
                  },
                  [](V x) -> std::string {
                      V const topbit = V(1) << (width_v<U> - 1);
                      if (x <= 1) { return "le_1"; }
                      if (std::has_single_bit(U(x))) { return x == topbit ? "power_of_two_top" : "power_of_two"; }
                      if (x > (topbit >> 1)) { return "result_is_top_bit"; }
                      return "general";
                  },
                  [](V x) { return x > 2 && !std::has_single_bit(U(x)); }},
        A);
}

template <typename T>
void byteswaps(Ctx& c)
{
    Set const& A = full2<T>();
    auto ref     = +[](Ctx&, V x) { return V(ref_byteswap(T(x))); };
    auto nt      = +[](V x) { return V(ref_byteswap(T(x))) != x; };
    sweep1(c, {"byteswap(x)", ti<T>(), "x", always1, [](V x) { return V(etl::byteswap(T(x))); }, ref, &cls_unary<T>, nt}, A);
    if constexpr (std::is_same_v<T, u16> || std::is_same_v<T, u32> || std::is_same_v<T, u64>) { // its three overloads
        sweep1(c, {"detail::byteswap_fallback(x)", ti<T>(), "x", always1, [](V x) { return V(etl::detail::byteswap_fallback(T(x))); }, ref,
                      &cls_unary<T>, nt},
            A);
    }
}

// ---- rotations: value x count ------------------------------------------------------------

template <typename U>
void rotations(Ctx& c)
{
    static Set const counts = [] {
        Set v{0}; // 0, 1, -1, 2, -2 ... 130, -130  (simplest first)
        for (int s = 1; s <= 130; ++s) {
            v.push_back(s);
            v.push_back(-s);
        }
        // round 2: huge counts - +-2^k and its neighbours for k = 8..30, the limits of int and their
        // neighbours (the reduction modulo the width must not overflow or go through abs/negation)
        std::set<V> seen(v.begin(), v.end());
        auto add = [&](V s) {
            if (s >= min_v<int> && s <= max_v<int> && seen.insert(s).second) { v.push_back(s); }
        };
        for (int k = 8; k <= 31; ++k) {
            V const b = V(1) << k;
            for (V d : {-3, -1, 0, 1, 3}) {
                add(b + d);
                add(-(b + d));
            }
        }
        for (V d = 0; d <= 66; ++d) {
            add(max_v<int> - d);
            add(min_v<int> + d);
        }
        return v;
    }();
    Space const sp{{&full2<U>(), &counts}};
    auto nt = +[](V x, V s) { return int(s) % width_v<U> != 0 && x != 0 && x != max_v<U>; };
    sweep2(c,
        {"rotl(x,s)", ti<U>(), ti<int>(), "x", "s", always2, [](V x, V s) { return V(etl::rotl(U(x), int(s))); },
            [](Ctx& c, V x, V s) { return agree<U>(c, "rotl", x, std::rotl(U(x), int(s)), ref_rotl(U(x), s)); }, &cls_rot<U>, nt},
        sp);
    sweep2(c,
        {"rotr(x,s)", ti<U>(), ti<int>(), "x", "s", always2, [](V x, V s) { return V(etl::rotr(U(x), int(s))); },
            [](Ctx& c, V x, V s) { return agree<U>(c, "rotr", x, std::rotr(U(x), int(s)), ref_rotl(U(x), -s)); }, &cls_rot<U>, nt},
        sp);
}

// ---- single-bit manipulation: word x position (pos < digits) --------------------------------

template <typename U>
struct PosFns {
    U (*set)(U);
    U (*set_true)(U);
    U (*set_false)(U);
    U (*reset)(U);
    U (*flip)(U);
    bool (*test)(U);
};

template <typename U, std::size_t... P>
std::array<PosFns<U>, sizeof...(P)> make_posfns(std::index_sequence<P...>)
{
    return {{PosFns<U>{
        +[](U w) { return etl::set_bit<P>(w); },
        +[](U w) { return etl::set_bit<P>(w, true); },
        +[](U w) { return etl::set_bit<P>(w, false); },
        +[](U w) { return etl::reset_bit<P>(w); },
        +[](U w) { return etl::flip_bit<P>(w); },
        +[](U w) { return etl::test_bit<P>(w); },
    }...}};
}

/// the compile-time position overloads, every Pos < digits, reached through a table
template <typename U>
PosFns<U> const& posfn(V p)
{
    static auto const fns = make_posfns<U>(std::make_index_sequence<std::size_t(width_v<U>)>{});
    return fns[std::size_t(p)];
}

template <typename U>
void bit_manip(Ctx& c)
{
    static Set const positions = [] {
        Set v;
        for (int p = 0; p < width_v<U>; ++p) { v.push_back(p); }
        return v;
    }();
    Space const sp{{&full2<U>(), &positions}};
    TI const t   = ti<U>();
    auto cls     = &cls_pos<U>;
    auto r_set   = +[](Ctx&, V w, V p) { return V(U(U(w) | U(U(1) << int(p)))); };
    auto r_reset = +[](Ctx&, V w, V p) { return V(U(U(w) & U(~U(U(1) << int(p))))); };
    auto r_flip  = +[](Ctx&, V w, V p) { return V(U(U(w) ^ U(U(1) << int(p)))); };
    auto r_test  = +[](Ctx&, V w, V p) { return V((U(w) >> int(p)) & 1U); };
    auto is_set  = +[](V w, V p) { return ((U(w) >> int(p)) & 1U) != 0; };
    auto is_clr  = +[](V w, V p) { return ((U(w) >> int(p)) & 1U) == 0; };

    sweep2(c, {"set_bit(word,pos)", t, t, "word", "pos", always2, [](V w, V p) { return V(etl::set_bit(U(w), U(p))); }, r_set, cls, is_clr}, sp);
    sweep2(c,
        {"set_bit(word,pos,true)", t, t, "word", "pos", always2, [](V w, V p) { return V(etl::set_bit(U(w), U(p), true)); }, r_set, cls, is_clr},
        sp);
    sweep2(c,
        {"set_bit(word,pos,false)", t, t, "word", "pos", always2, [](V w, V p) { return V(etl::set_bit(U(w), U(p), false)); }, r_reset, cls,
            is_set},
        sp);
    sweep2(c, {"reset_bit(word,pos)", t, t, "word", "pos", always2, [](V w, V p) { return V(etl::reset_bit(U(w), U(p))); }, r_reset, cls, is_set},
        sp);
    sweep2(c, {"flip_bit(word,pos)", t, t, "word", "pos", always2, [](V w, V p) { return V(etl::flip_bit(U(w), U(p))); }, r_flip, cls, always2},
        sp);
    sweep2(c, {"test_bit(word,pos)", t, t, "word", "pos", always2, [](V w, V p) { return V(etl::test_bit(U(w), U(p))); }, r_test, cls, is_set},
        sp);

    sweep2(c, {"set_bit<Pos>(word)", t, t, "word", "Pos", always2, [](V w, V p) { return V(posfn<U>(p).set(U(w))); }, r_set, cls, is_clr}, sp);
    sweep2(c, {"set_bit<Pos>(word,true)", t, t, "word", "Pos", always2, [](V w, V p) { return V(posfn<U>(p).set_true(U(w))); }, r_set, cls, is_clr},
        sp);
    sweep2(c,
        {"set_bit<Pos>(word,false)", t, t, "word", "Pos", always2, [](V w, V p) { return V(posfn<U>(p).set_false(U(w))); }, r_reset, cls, is_set},
        sp);
    sweep2(c, {"reset_bit<Pos>(word)", t, t, "word", "Pos", always2, [](V w, V p) { return V(posfn<U>(p).reset(U(w))); }, r_reset, cls, is_set}, sp);
    sweep2(c, {"flip_bit<Pos>(word)", t, t, "word", "Pos", always2, [](V w, V p) { return V(posfn<U>(p).flip(U(w))); }, r_flip, cls, always2}, sp);
    sweep2(c, {"test_bit<Pos>(word)", t, t, "word", "Pos", always2, [](V w, V p) { return V(posfn<U>(p).test(U(w))); }, r_test, cls, is_set}, sp);
}

// ---- host/network byte order -------------------------------------------------------------

template <typename T>
void byte_order(Ctx& c)
{
    namespace net = etl::experimental::net;
    Set const& A  = full2<T>();
    auto ref      = +[](Ctx&, V v) -> V {
        if constexpr (sizeof(T) == 1) {
            return v;
        } else if constexpr (sizeof(T) == 2) {
            return V(htons(T(v)));
        } else {
            return V(htonl(T(v)));
        }
    };
    auto refn = +[](Ctx&, V v) -> V {
        if constexpr (sizeof(T) == 1) {
            return v;
        } else if constexpr (sizeof(T) == 2) {
            return V(ntohs(T(v)));
        } else {
            return V(ntohl(T(v)));
        }
    };
    auto nt = +[](V x) { return sizeof(T) > 1 && V(ref_byteswap(T(x))) != x; };
    sweep1(c, {"net::hton(v)", ti<T>(), "v", always1, [](V v) { return V(net::hton(T(v))); }, ref, &cls_unary<T>, nt}, A);
    sweep1(c, {"net::ntoh(v)", ti<T>(), "v", always1, [](V v) { return V(net::ntoh(T(v))); }, refn, &cls_unary<T>, nt}, A);
    sweep1(c,
        {"net::ntoh(net::hton(v))", ti<T>(), "v", always1, [](V v) { return V(net::ntoh(net::hton(T(v)))); }, [](Ctx&, V v) { return v; },
            &cls_unary<T>, nt},
        A);
    sweep1(c,
        {"net::hton(net::ntoh(v))", ti<T>(), "v", always1, [](V v) { return V(net::hton(net::ntoh(T(v)))); }, [](Ctx&, V v) { return v; },
            &cls_unary<T>, nt},
        A);
}

template <typename U>
void add_jobs(mc::Main& m)
{
    std::string const t = tname<U>();
    m.job("unary-" + t, {"quick", "thorough"}, [](mc::Reporter& r) {
        Ctx c(r);
        unary_bits<U>(c);
        byteswaps<U>(c);
        byteswaps<std::make_signed_t<U>>(c);
    });
    m.job("rot-" + t, {"quick", "thorough"}, [](mc::Reporter& r) {
        Ctx c(r);
        rotations<U>(c);
    });
    m.job("bitpos-" + t, {"quick", "thorough"}, [](mc::Reporter& r) {
        Ctx c(r);
        bit_manip<U>(c);
    });
}

} // namespace

int main(int argc, char** argv)
{
    mc::Main m(argc, argv);
    add_jobs<u8>(m);
    add_jobs<u16>(m);
    add_jobs<u32>(m);
    add_jobs<u64>(m);
    m.job("unsigned-long-long", {"quick", "thorough"}, [](mc::Reporter& r) {
        // a distinct type from uint64_t (= unsigned long) here
        Ctx c(r);
        unary_bits<unsigned long long>(c);
        byteswaps<unsigned long long>(c);
        byteswaps<long long>(c);
        rotations<unsigned long long>(c);
        bit_manip<unsigned long long>(c);
    });
    m.job("byte-order", {"quick", "thorough"}, [](mc::Reporter& r) {
        Ctx c(r);
        byte_order<char>(c);
        byte_order<u8>(c);
        byte_order<i8>(c);
        byte_order<u16>(c);
        byte_order<u32>(c);
        // etl::endian names the host order the conversions above assume
        ++c.evals;
        // (only the relations are specified, the enumerator values are not)
        bool const etl_little = etl::endian::native == etl::endian::little;
        bool const etl_big    = etl::endian::native == etl::endian::big;
        if (etl::endian::little == etl::endian::big || etl_little != (std::endian::native == std::endian::little)
            || etl_big != (std::endian::native == std::endian::big)) {
            c.r.violation("C14", "endian", "general", "etl::endian::native against little/big",
                cat("tetl: native==little ", etl_little, ", native==big ", etl_big, "; reference: ", std::endian::native == std::endian::little, ", ",
                    std::endian::native == std::endian::big));
        }
    });
    m.job("byteswap-char-types", {"quick", "thorough"}, [](mc::Reporter& r) {
        // etl::byteswap accepts every integral type: the character types are distinct types of width
        // 8 (char, char8_t), 16 (char16_t) and 32 bits (char32_t, wchar_t here)
        Ctx c(r);
        byteswaps<char>(c);
        byteswaps<char8_t>(c);
        byteswaps<char16_t>(c);
        byteswaps<char32_t>(c);
        byteswaps<wchar_t>(c);
    });
    return m.run();
}
