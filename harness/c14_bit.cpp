// C14, bit half: <etl/bit.hpp> (popcount, countl/r_zero/one, rotl, rotr, bit_width, bit_ceil,
// bit_floor, has_single_bit, byteswap, set/reset/flip/test_bit) and the experimental
// net byte-order conversions, against libstdc++ <bit>, htons/htonl and closed forms.
//
// Spaces: every value of u8/u16 (all 2^16 x every rotation count in [-130,130] and every bit
// position); the boundary lattice (c14_common.hpp) for u32/u64 x every count/position.
#include "c14_common.hpp"

#include <etl/bit.hpp>
#include <etl/experimental/net/byte_order.hpp>

#include <arpa/inet.h>
#include <array>

using namespace c14;
using mc::cat;

namespace {

// ---- closed-form references (independent of <bit>) -------------------------------------

template <typename U>
int ref_popcount(U x)
{
    int n = 0;
    for (int i = 0; i < width_v<U>; ++i) { n += int((x >> i) & 1U); }
    return n;
}
template <typename U>
int ref_countl(U x, unsigned bit)
{
    int n = 0;
    for (int i = width_v<U> - 1; i >= 0 && ((x >> i) & 1U) == bit; --i) { ++n; }
    return n;
}
template <typename U>
int ref_countr(U x, unsigned bit)
{
    int n = 0;
    for (int i = 0; i < width_v<U> && ((x >> i) & 1U) == bit; ++i) { ++n; }
    return n;
}
// rotate left by s (any integer): bit i of the result is bit (i - s) mod W of x
template <typename U>
U ref_rotl(U x, int s)
{
    constexpr int W = width_v<U>;
    int const k     = ((s % W) + W) % W;
    u128 const wide = u128(x);
    u128 const both = (wide << k) | (wide >> (W - k)); // k in [0,W): shifts of a 128-bit value by <= 64
    return U(both);
}
template <typename T>
T ref_byteswap(T v)
{
    using U = std::make_unsigned_t<T>;
    U u     = U(v);
    U o     = 0;
    for (std::size_t i = 0; i < sizeof(T); ++i) {
        o = U(U(o << 8) | U(u & 0xFF));
        u = U(u >> 8);
    }
    return T(o);
}

template <typename U, typename R>
void both_agree(Ctx& c, char const* what, U x, R a, R b)
{
    // the two oracles (libstdc++ and the closed form) must agree; if they do not the harness is wrong
    if (a != b) { c.r.violation("C14", cat("oracle-disagreement:", what), "harness", cat(tname<U>(), " x=", show(x)), "libstdc++ and closed form differ"); }
}

template <typename U>
std::string cls_rot(int s)
{
    constexpr int W = width_v<U>;
    if (s == 0) { return "count_zero"; }
    if (s % W == 0) { return s < 0 ? "count_negative_multiple_of_width" : "count_multiple_of_width"; }
    if (s < 0) { return s > -W ? "count_negative" : "count_negative_beyond_width"; }
    if (s > W) { return "count_beyond_width"; }
    return "general";
}

template <typename U>
std::string cls_pos(U pos)
{
    if (pos == 0) { return "pos_0"; }
    if (int(pos) == width_v<U> - 1) { return "pos_top"; }
    return "general";
}

// ---- unary bit functions ---------------------------------------------------------------

template <typename U>
void unary_bits(Ctx& c)
{
    auto const& A = full<U>();
    auto cls      = [](U x) { return cls_unary(x); };
    auto nt       = [](U x) { return x != 0 && x != std::numeric_limits<U>::max(); };

    sweep1<U>(c, "popcount(x)", A, always, [](U x) { return i128(etl::popcount(x)); },
        [&](U x) {
            both_agree(c, "popcount", x, std::popcount(x), ref_popcount(x));
            return i128(std::popcount(x));
        },
        cls, nt);
    sweep1<U>(c, "detail::popcount_fallback(x)", A, always, [](U x) { return i128(etl::detail::popcount_fallback(x)); },
        [](U x) { return i128(ref_popcount(x)); }, cls, nt);
    sweep1<U>(c, "countl_zero(x)", A, always, [](U x) { return i128(etl::countl_zero(x)); },
        [&](U x) {
            both_agree(c, "countl_zero", x, std::countl_zero(x), ref_countl(x, 0));
            return i128(std::countl_zero(x));
        },
        cls, nt);
    sweep1<U>(c, "countl_one(x)", A, always, [](U x) { return i128(etl::countl_one(x)); },
        [&](U x) {
            both_agree(c, "countl_one", x, std::countl_one(x), ref_countl(x, 1));
            return i128(std::countl_one(x));
        },
        cls, nt);
    sweep1<U>(c, "countr_zero(x)", A, always, [](U x) { return i128(etl::countr_zero(x)); },
        [&](U x) {
            both_agree(c, "countr_zero", x, std::countr_zero(x), ref_countr(x, 0));
            return i128(std::countr_zero(x));
        },
        cls, nt);
    sweep1<U>(c, "countr_one(x)", A, always, [](U x) { return i128(etl::countr_one(x)); },
        [&](U x) {
            both_agree(c, "countr_one", x, std::countr_one(x), ref_countr(x, 1));
            return i128(std::countr_one(x));
        },
        cls, nt);
    sweep1<U>(c, "bit_width(x)", A, always, [](U x) { return i128(etl::bit_width(x)); },
        [&](U x) {
            both_agree(c, "bit_width", x, int(std::bit_width(x)), width_v<U> - ref_countl(x, 0));
            return i128(std::bit_width(x));
        },
        cls, nt);
    sweep1<U>(c, "bit_floor(x)", A, always, [](U x) { return i128(etl::bit_floor(x)); },
        [&](U x) {
            U const closed = x == 0 ? U(0) : U(U(1) << (width_v<U> - 1 - ref_countl(x, 0)));
            both_agree(c, "bit_floor", x, std::bit_floor(x), closed);
            return i128(std::bit_floor(x));
        },
        cls, nt);
    sweep1<U>(c, "has_single_bit(x)", A, always, [](U x) { return i128(etl::has_single_bit(x)); },
        [&](U x) {
            both_agree(c, "has_single_bit", x, std::has_single_bit(x), ref_popcount(x) == 1);
            return i128(std::has_single_bit(x));
        },
        cls, nt);
    // bit_ceil: domain = the result is representable (x <= 2^(W-1)); beyond that std is undefined too
    constexpr U topbit = U(U(1) << (width_v<U> - 1));
    sweep1<U>(c, "bit_ceil(x)", A, [](U x) { return x <= topbit; }, [](U x) { return i128(etl::bit_ceil(x)); },
        [&](U x) {
            u128 closed = 1;
            while (closed < u128(x)) { closed <<= 1; }
            both_agree(c, "bit_ceil", x, std::bit_ceil(x), U(closed));
            return i128(std::bit_ceil(x));
        },
        [](U x) -> std::string {
            if (x <= 1) { return "le_1"; }
            if (std::has_single_bit(x)) { return x == topbit ? "power_of_two_top" : "power_of_two"; }
            if (x > (topbit >> 1)) { return "result_is_top_bit"; }
            return "general";
        },
        [](U x) { return x > 2 && !std::has_single_bit(x); });
}

template <typename T>
void byteswaps(Ctx& c)
{
    auto const& A = full<T>();
    sweep1<T>(c, "byteswap(x)", A, always, [](T x) { return i128(etl::byteswap(x)); }, [](T x) { return i128(ref_byteswap(x)); },
        [](T x) { return cls_unary(x); }, [](T x) { return ref_byteswap(x) != x; });
    if constexpr (std::is_unsigned_v<T> && sizeof(T) >= 2) {
        sweep1<T>(c, "detail::byteswap_fallback(x)", A, always, [](T x) { return i128(etl::detail::byteswap_fallback(x)); },
            [](T x) { return i128(ref_byteswap(x)); }, [](T x) { return cls_unary(x); }, [](T x) { return ref_byteswap(x) != x; });
    }
}

// ---- rotations: value x count ------------------------------------------------------------

template <typename U>
void rotations(Ctx& c)
{
    static std::vector<int> const counts = [] {
        // 0, 1, -1, 2, -2 ... 130, -130  (simplest first)
        std::vector<int> v{0};
        for (int s = 1; s <= 130; ++s) {
            v.push_back(s);
            v.push_back(-s);
        }
        return v;
    }();
    Space<U, int> const sp{{&full<U>(), &counts}};
    auto cls = [](U, int s) { return cls_rot<U>(s); };
    auto nt  = [](U x, int s) { return s % width_v<U> != 0 && x != 0 && x != std::numeric_limits<U>::max(); };
    sweep2<U, int>(c, "rotl(x,s)", sp, always, [](U x, int s) { return i128(etl::rotl(x, s)); },
        [&](U x, int s) {
            both_agree(c, "rotl", x, std::rotl(x, s), ref_rotl(x, s));
            return i128(std::rotl(x, s));
        },
        cls, nt, "x", "s");
    sweep2<U, int>(c, "rotr(x,s)", sp, always, [](U x, int s) { return i128(etl::rotr(x, s)); },
        [&](U x, int s) {
            both_agree(c, "rotr", x, std::rotr(x, s), ref_rotl(x, -s));
            return i128(std::rotr(x, s));
        },
        cls, nt, "x", "s");
}

// ---- single-bit manipulation: word x position (pos < digits) --------------------------------

template <typename U>
struct PosFns {
    U (*set)(U);
    U (*set_true)(U);
    U (*set_false)(U);
    U (*reset)(U);
    U (*flip)(U);
    bool (*test)(U);
};

template <typename U, std::size_t... P>
std::array<PosFns<U>, sizeof...(P)> make_posfns(std::index_sequence<P...>)
{
    return {{PosFns<U>{
        +[](U w) { return etl::set_bit<P>(w); },
        +[](U w) { return etl::set_bit<P>(w, true); },
        +[](U w) { return etl::set_bit<P>(w, false); },
        +[](U w) { return etl::reset_bit<P>(w); },
        +[](U w) { return etl::flip_bit<P>(w); },
        +[](U w) { return etl::test_bit<P>(w); },
    }...}};
}

template <typename U>
void bit_templates(Ctx& c)
{
    // compile-time position overloads: every Pos < digits (instantiated through a table of
    // function pointers), every word of the value set
    static auto const fns = make_posfns<U>(std::make_index_sequence<std::size_t(width_v<U>)>{});
    auto const& A         = full<U>();
    for (std::size_t p = 0; p < fns.size(); ++p) {
        std::string const tl = cat(tname<U>(), " Pos=", p);
        auto const& f        = fns[p];
        U const mask         = U(U(1) << p);
        auto cls             = [&](U) { return cls_pos<U>(U(p)); };
        sweep1<U>(c, "set_bit<Pos>(word)", A, always, [&](U w) { return i128(f.set(w)); }, [&](U w) { return i128(U(w | mask)); }, cls,
            [&](U w) { return (w & mask) == 0; }, tl.c_str());
        sweep1<U>(c, "set_bit<Pos>(word,true)", A, always, [&](U w) { return i128(f.set_true(w)); },
            [&](U w) { return i128(U(w | mask)); }, cls, [&](U w) { return (w & mask) == 0; }, tl.c_str());
        sweep1<U>(c, "set_bit<Pos>(word,false)", A, always, [&](U w) { return i128(f.set_false(w)); },
            [&](U w) { return i128(U(w & U(~mask))); }, cls, [&](U w) { return (w & mask) != 0; }, tl.c_str());
        sweep1<U>(c, "reset_bit<Pos>(word)", A, always, [&](U w) { return i128(f.reset(w)); },
            [&](U w) { return i128(U(w & U(~mask))); }, cls, [&](U w) { return (w & mask) != 0; }, tl.c_str());
        sweep1<U>(c, "flip_bit<Pos>(word)", A, always, [&](U w) { return i128(f.flip(w)); }, [&](U w) { return i128(U(w ^ mask)); }, cls,
            always, tl.c_str());
        sweep1<U>(c, "test_bit<Pos>(word)", A, always, [&](U w) { return i128(f.test(w)); },
            [&](U w) { return i128((w & mask) != 0); }, cls, [&](U w) { return (w & mask) != 0; }, tl.c_str());
    }
}

template <typename U>
void bit_manip(Ctx& c)
{
    static std::vector<U> const positions = [] {
        std::vector<U> v;
        for (int p = 0; p < width_v<U>; ++p) { v.push_back(U(p)); }
        return v;
    }();
    Space<U, U> const sp{{&full<U>(), &positions}};
    auto cls  = [](U, U p) { return cls_pos<U>(p); };
    auto mask = [](U p) { return U(U(1) << p); };
    sweep2<U, U>(c, "set_bit(word,pos)", sp, always, [](U w, U p) { return i128(etl::set_bit(w, p)); },
        [&](U w, U p) { return i128(U(w | mask(p))); }, cls, [&](U w, U p) { return (w & mask(p)) == 0; }, "word", "pos");
    sweep2<U, U>(c, "set_bit(word,pos,true)", sp, always, [](U w, U p) { return i128(etl::set_bit(w, p, true)); },
        [&](U w, U p) { return i128(U(w | mask(p))); }, cls, [&](U w, U p) { return (w & mask(p)) == 0; }, "word", "pos");
    sweep2<U, U>(c, "set_bit(word,pos,false)", sp, always, [](U w, U p) { return i128(etl::set_bit(w, p, false)); },
        [&](U w, U p) { return i128(U(w & U(~mask(p)))); }, cls, [&](U w, U p) { return (w & mask(p)) != 0; }, "word", "pos");
    sweep2<U, U>(c, "reset_bit(word,pos)", sp, always, [](U w, U p) { return i128(etl::reset_bit(w, p)); },
        [&](U w, U p) { return i128(U(w & U(~mask(p)))); }, cls, [&](U w, U p) { return (w & mask(p)) != 0; }, "word", "pos");
    sweep2<U, U>(c, "flip_bit(word,pos)", sp, always, [](U w, U p) { return i128(etl::flip_bit(w, p)); },
        [&](U w, U p) { return i128(U(w ^ mask(p))); }, cls, always, "word", "pos");
    sweep2<U, U>(c, "test_bit(word,pos)", sp, always, [](U w, U p) { return i128(etl::test_bit(w, p)); },
        [&](U w, U p) { return i128((w & mask(p)) != 0); }, cls, [&](U w, U p) { return (w & mask(p)) != 0; }, "word", "pos");
}

// ---- host/network byte order -------------------------------------------------------------

template <typename T>
void byte_order(Ctx& c)
{
    namespace net = etl::experimental::net;
    auto const& A = full<T>();
    auto ref      = [](T v) -> i128 {
        if constexpr (sizeof(T) == 1) {
            return i128(v);
        } else if constexpr (sizeof(T) == 2) {
            return i128(htons(v));
        } else {
            return i128(htonl(v));
        }
    };
    auto refn = [](T v) -> i128 {
        if constexpr (sizeof(T) == 1) {
            return i128(v);
        } else if constexpr (sizeof(T) == 2) {
            return i128(ntohs(v));
        } else {
            return i128(ntohl(v));
        }
    };
    auto cls = [](T x) { return cls_unary(x); };
    auto nt  = [](T x) { return sizeof(T) > 1 && ref_byteswap(x) != x; };
    sweep1<T>(c, "net::hton(v)", A, always, [](T v) { return i128(net::hton(v)); }, ref, cls, nt);
    sweep1<T>(c, "net::ntoh(v)", A, always, [](T v) { return i128(net::ntoh(v)); }, refn, cls, nt);
    sweep1<T>(c, "net::ntoh(net::hton(v))", A, always, [](T v) { return i128(net::ntoh(net::hton(v))); }, [](T v) { return i128(v); }, cls, nt);
}

template <typename U>
void add_jobs(mc::Main& m)
{
    std::string const t = tname<U>();
    m.job("unary-" + t, {"quick", "thorough"}, [](mc::Reporter& r) {
        Ctx c(r);
        unary_bits<U>(c);
        byteswaps<U>(c);
        byteswaps<std::make_signed_t<U>>(c);
    });
    m.job("rot-" + t, {"quick", "thorough"}, [](mc::Reporter& r) {
        Ctx c(r);
        rotations<U>(c);
    });
    m.job("bitpos-" + t, {"quick", "thorough"}, [](mc::Reporter& r) {
        Ctx c(r);
        bit_manip<U>(c);
    });
    m.job("bitpos-template-" + t, {"quick", "thorough"}, [](mc::Reporter& r) {
        Ctx c(r);
        bit_templates<U>(c);
    });
}

} // namespace

int main(int argc, char** argv)
{
    mc::Main m(argc, argv);
    add_jobs<u8>(m);
    add_jobs<u16>(m);
    add_jobs<u32>(m);
    add_jobs<u64>(m);
    m.job("byte-order", {"quick", "thorough"}, [](mc::Reporter& r) {
        Ctx c(r);
        byte_order<char>(c);
        byte_order<u8>(c);
        byte_order<i8>(c);
        byte_order<u16>(c);
        byte_order<u32>(c);
    });
    return m.run();
}
