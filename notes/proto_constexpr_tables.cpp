#include <etl/cmath.hpp>
#include <etl/array.hpp>
#include <array>
#include <bit>
#include <cstdio>
#include <cmath>
#include <cstdint>
#include <chrono>
constexpr int N = 400;
constexpr auto inputs = []{ std::array<float,N> a{}; for(int i=0;i<N;++i) a[i] = (i-200)*0.037f; return a; }();
#define TAB(f) constexpr auto tab_##f = []{ std::array<float,N> r{}; for(int i=0;i<N;++i) r[i]=etl::f(inputs[i]); return r; }();
TAB(floor) TAB(round) TAB(sin) TAB(exp) TAB(tanh) TAB(erf) TAB(atan)
#ifdef MORE
TAB(tgamma) TAB(lgamma) TAB(cos) TAB(tan) TAB(sinh) TAB(cosh) TAB(asinh)
#endif
int main(){
  volatile float v; int bad=0; double maxrel=0;
  for(int i=0;i<N;++i){ v=inputs[i]; float r=etl::sin(v); float c=tab_sin[i]; if(std::bit_cast<uint32_t>(r)!=std::bit_cast<uint32_t>(c)){ ++bad; double rel=std::fabs((double)r-c)/std::fabs((double)r); if(rel>maxrel)maxrel=rel; } }
  std::printf("sin: %d/%d differ between paths, max rel %.3g\n", bad, N, maxrel);
  bad=0; for(int i=0;i<N;++i){ v=inputs[i]; if(std::bit_cast<uint32_t>(etl::floor(v))!=std::bit_cast<uint32_t>(tab_floor[i])) ++bad; } std::printf("floor: %d differ\n", bad);
  // runtime throughput of gcem path
  auto t0=std::chrono::steady_clock::now(); uint64_t acc=0; for(uint32_t b=0;b<(1u<<22);++b){ float x=std::bit_cast<float>(b*1021u); acc+=std::bit_cast<uint32_t>(etl::detail::gcem::floor(x)); } auto t1=std::chrono::steady_clock::now();
  std::printf("gcem::floor %.1f ns/call (acc %llu)\n", std::chrono::duration<double,std::nano>(t1-t0).count()/(1u<<22),(unsigned long long)acc);
  t0=std::chrono::steady_clock::now(); acc=0; for(uint32_t b=0;b<(1u<<18);++b){ float x=std::bit_cast<float>(0x3c000000u+b*64u); acc+=std::bit_cast<uint32_t>(etl::detail::gcem::sin(x)); } t1=std::chrono::steady_clock::now();
  std::printf("gcem::sin %.1f ns/call\n", std::chrono::duration<double,std::nano>(t1-t0).count()/(1u<<18));
  // exact check gcem floor vs libm on a sweep
  uint64_t diff=0, first=0; for(uint64_t b=0;b<(1ull<<32);b+=4099){ float x=std::bit_cast<float>((uint32_t)b); float a=etl::detail::gcem::floor(x), l=std::floor(x); bool eq = (std::isnan(a)&&std::isnan(l)) || std::bit_cast<uint32_t>(a)==std::bit_cast<uint32_t>(l); if(!eq){ if(!diff) first=b; ++diff; } }
  std::printf("gcem::floor vs libm: %llu mismatches on 2^20 stride sweep, first bits=0x%08llx\n",(unsigned long long)diff,(unsigned long long)first);
}
