#include <etl/cmath.hpp>
#include <bit>
#include <cstdio>
#include <cmath>
#include <cstdint>
template<class F,class G> void cmp(char const* name, F f, G g){
  uint64_t diff=0; uint64_t cls[6]={0}; uint32_t ex[6]={0};
  for(uint64_t b=0;b<(1ull<<32);b+=257){ float x=std::bit_cast<float>((uint32_t)b); float a=f(x), l=g(x);
    bool eq=(std::isnan(a)&&std::isnan(l))||std::bit_cast<uint32_t>(a)==std::bit_cast<uint32_t>(l); if(eq) continue; ++diff;
    int c = std::isnan(x)?0 : std::isinf(x)?1 : (a==l)?2 /*sign of zero*/ : (std::fabs(x)>=8388608.f)?3 : (std::fabs(x)<1.f)?4:5; if(!cls[c]) ex[c]=(uint32_t)b; ++cls[c]; }
  std::printf("%-8s mismatches=%llu  nan=%llu inf=%llu zero-sign=%llu(ex %08x) big=%llu(ex %08x) small=%llu(ex %08x) mid=%llu(ex %08x)\n",name,(unsigned long long)diff,(unsigned long long)cls[0],(unsigned long long)cls[1],(unsigned long long)cls[2],ex[2],(unsigned long long)cls[3],ex[3],(unsigned long long)cls[4],ex[4],(unsigned long long)cls[5],ex[5]);
}
int main(){
  namespace g=etl::detail::gcem;
  cmp("floor",[](float x){return g::floor(x);},[](float x){return std::floor(x);});
  cmp("ceil",[](float x){return g::ceil(x);},[](float x){return std::ceil(x);});
  cmp("trunc",[](float x){return g::trunc(x);},[](float x){return std::trunc(x);});
  cmp("round",[](float x){return g::round(x);},[](float x){return std::round(x);});
  cmp("etl::floor rt",[](float x){return etl::floor(x);},[](float x){return std::floor(x);});
}
