#define TETL_ENABLE_CUSTOM_ASSERT_HANDLER 1
#include <cstdio>
#include <cstdlib>
#include <string>
#include <string_view>
#include <vector>
#include <set>
#include <algorithm>
#include <etl/vector.hpp>
#include <etl/string.hpp>
#include <etl/string_view.hpp>
#include <etl/set.hpp>
#include <etl/flat_set.hpp>
#include <etl/algorithm.hpp>
#include <etl/numeric.hpp>
#include <etl/bitset.hpp>
#include <etl/chrono.hpp>
#include <etl/cstring.hpp>
#include <etl/charconv.hpp>
#include <etl/inplace_vector.hpp>
#include <bitset>
#include <charconv>
#include <numeric>
#include <etl/mdspan.hpp>
namespace etl { template <typename A> [[noreturn]] auto assert_handler(A const& m) -> void { std::printf("  [ASSERT %s:%d %s]\n", m.file, m.line, m.expression); std::exit(3);} }
#define P(...) std::printf(__VA_ARGS__)
int main(int argc, char** argv){
  int t = argc>1? atoi(argv[1]):0;
  if(t==1){ etl::static_vector<int,4> v; v.push_back(1); v.push_back(2); v = v; P("self copy-assign size=%zu (expect 2)\n", v.size()); }
  if(t==2){ etl::inplace_string<10> s{"ab"}; s.resize(4,'x'); P("resize(4,'x') on 'ab' -> '%s' size=%zu (expect abxx)\n", s.c_str(), s.size()); }
  if(t==3){ etl::inplace_string<3> a{"abc"}; etl::inplace_string<3> b{"x"}; a.swap(b); P("swap tiny full: a='%s'(%zu) b='%s'(%zu) expect a=x(1) b=abc(3)\n", a.c_str(), a.size(), b.c_str(), b.size()); }
  if(t==4){ etl::inplace_string<10> a{"ab"}; etl::inplace_string<10> b{"abcdef"}; P("compare(0,2,str,0,npos)=%d expect <0; std=%d\n", a.compare(0,2,b,0), std::string("ab").compare(0,2,std::string("abcdef"),0)); }
  if(t==5){ etl::inplace_string<10> a{"abab"}; P("rfind default: %zu (std %zu)\n", a.rfind("ab"), std::string("abab").rfind("ab")); }
  if(t==6){ char h[3]={'a','a','b'}; etl::string_view sv{h,3}; P("find('')=%zu expect 0\n", sv.find(etl::string_view{})); }
  if(t==7){ etl::string_view sv{}; P("empty.find_last_of('a')=%zu\n", sv.find_last_of("a")); }
  if(t==8){ etl::static_set<int,4> s; s.insert(1); s.insert(2); s.insert(3); s.insert(4); s.erase(s.begin(), s.begin()+2); P("set erase range: size=%zu first=%d (expect 2, 3)\n", s.size(), *s.begin()); }
  if(t==9){ etl::static_set<int,4> s; s.insert(1); s.insert(3); auto n = s.erase(2); P("erase absent key 2: returned %zu size=%zu (expect 0,2)\n", n, s.size()); }
  if(t==10){ etl::static_set<int,4> s; s.insert(1); auto r = s.insert(1); P("dup insert: it==nullptr? %d second=%d\n", r.first==nullptr, r.second); }
  if(t==11){ int a[]={1,2,3}; int b[4]={9,9,9,9}; auto* r = etl::copy_n(a,3,b); P("copy_n ret offset %td (expect 3)\n", r-b); }
  if(t==12){ int a[]={1,2,1,3}; int b[4]={9,9,9,9}; auto* r = etl::remove_copy_if(a,a+4,b,[](int x){return x==1;}); P("remove_copy_if: %d %d %d %d ret %td (expect 2 3 9 9 ret 2)\n", b[0],b[1],b[2],b[3], r-b); }
  if(t==13){ int a[]={1,0,1,1}; auto* r = etl::search_n(a,a+4,2,1); P("search_n ret %td (expect 2)\n", r-a); }
  if(t==14){ int a[]={1,2,3,4}; auto* r = etl::shift_right(a,a+4,1); P("shift_right: %d %d %d %d ret %td (expect ? 1 2 3)\n", a[0],a[1],a[2],a[3], r-a); }
  if(t==15){ P("gcd(4,-6)=%d std=%d; lcm(0,0) skip\n", etl::gcd(4,-6), std::gcd(4,-6)); }
  if(t==16){ etl::bitset<8> b{etl::string_view{"00000001"}}; std::bitset<8> s{std::string("00000001")}; P("bitset from string: etl=%llu std=%llu\n", b.to_ullong(), s.to_ullong()); }
  if(t==17){ using namespace etl::chrono; auto ym = year_month{year{2020}, month{12}} + months{1}; P("ym+1 month: %d/%u expect 2021/1\n", int(ym.year()), unsigned(ym.month())); auto w = Sunday - days{1}; P("Sunday-1 = %u ok=%d expect 6\n", w.c_encoding(), w.ok()); }
  if(t==18){ P("strstr(abc,ab)=%p strstr(abc,'')=%p\n", (void*)etl::strstr("abc","ab"), (void*)etl::strstr("abc","")); char d[6]="zzzzz"; (void)etl::strncpy(d,"ab",5); P("strncpy pad: %d %d %d %d %d\n", d[0],d[1],d[2],d[3],d[4]); P("strpbrk nomatch=%p\n",(void*)etl::strpbrk("abc","xyz")); P("strcmp(\\x80,a)=%d\n", etl::strcmp("\x80","a")); }
  if(t==19){ char buf[3]; auto r = etl::to_chars(buf, buf+3, 123); P("to_chars exact fit ec=%d (expect 0)\n", int(r.ec)); char b2[8]; auto r2 = etl::to_chars(b2,b2+8,-255,16); P("to_chars(-255,16)='%.*s'\n", int(r2.ptr-b2), b2); }
  if(t==20){ etl::inplace_string<8> s{"abc"}; s.erase(0, etl::inplace_string<8>::npos); P("erase(0) ok size=%zu\n", s.size()); }
  if(t==21){ etl::static_vector<int,4> v; v.push_back(1); P("v[size_t(-1)] -> "); int x = v[static_cast<size_t>(-1)]; P("no assert, read %d\n", x); }
  if(t==22){ using FS = etl::flat_set<int, etl::static_vector<int,4>>; FS s; s.insert(1); s.insert(2); auto c = std::move(s).extract(); P("extract size=%zu (expect 2)\n", c.size()); }
  if(t==23){ etl::extents<int, 2, etl::dynamic_extent> e{2,3}; P("extents<2,dyn>{2,3}: %d %d\n", e.extent(0), e.extent(1)); }
  return 0; }
