#include <etl/vector.hpp>
#include <etl/inplace_vector.hpp>
#include <etl/string.hpp>
#include <etl/mdspan.hpp>
#include <new>
#include <cstring>
#include <cstdio>
constexpr auto f() { etl::static_vector<int,4> v; v.push_back(1); v.insert(v.begin(), 2); v.erase(v.begin()); return v.size()==1 && v[0]==1; }
static_assert(f());
constexpr auto g() { etl::inplace_string<7> s{"abc"}; s.insert(1, "xy"); s.append("zz"); return s.size()==7 && s[7]=='\0'; }
static_assert(g());
#ifdef EXT
constexpr auto h() { etl::extents<int, 2, etl::dynamic_extent> e{2,3}; return e.extent(1); }
static_assert(h()==3);
#endif
#ifdef IPV
constexpr auto k() { etl::inplace_vector<int,4> v; return v.size(); }
static_assert(k()==0);
#endif
int main(){
  alignas(16) unsigned char buf[64]; std::memset(buf, 0xAA, sizeof buf);
  auto* v = new (buf) etl::inplace_vector<int,4>;
  std::printf("poisoned default-init inplace_vector size=%zu\n", v->size());
  std::memset(buf, 0xAA, sizeof buf);
  auto* w = new (buf) etl::static_vector<int,4>;
  std::printf("poisoned default-init static_vector size=%zu\n", w->size());
}
