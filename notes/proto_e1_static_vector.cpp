#define TETL_ENABLE_CUSTOM_ASSERT_HANDLER 1
#include <etl/vector.hpp>
#include <vector>
#include <string>
#include <unordered_map>
#include <deque>
#include <cstdio>
#include <cstring>
#include <new>
#include <cstdlib>
#include <chrono>
namespace etl { template <typename A> [[noreturn]] auto assert_handler(A const& m) -> void { std::printf("SPURIOUS ASSERT %s:%d %s\n", m.file, m.line, m.expression); std::_Exit(3);} }
constexpr int N = 4; constexpr int K = 2;
using V = etl::static_vector<int,N>; using M = std::vector<int>;
struct Op { int kind, a, b, c; };
static std::vector<Op> menu(M const& m){ std::vector<Op> r; int s=(int)m.size();
  for(int v=1;v<=K;++v){ if(s<N) r.push_back({0,v,0,0}); }
  if(s>0) r.push_back({1,0,0,0});
  for(int p=0;p<=s;++p) for(int v=1;v<=K;++v) if(s<N){ r.push_back({2,p,v,0}); r.push_back({3,p,v,0}); }
  for(int p=0;p<=s;++p) for(int n=0;n<=N-s;++n) for(int v=1;v<=K;++v) r.push_back({4,p,n,v});
  for(int p=0;p<s;++p) r.push_back({5,p,0,0});
  for(int f=0;f<=s;++f) for(int l=f;l<=s;++l) r.push_back({6,f,l,0});
  for(int n=0;n<=N;++n){ r.push_back({7,n,0,0}); for(int v=1;v<=K;++v){ r.push_back({8,n,v,0}); r.push_back({9,n,v,0}); } }
  r.push_back({10,0,0,0}); r.push_back({11,0,0,0});
  for(int v=1;v<=K;++v) r.push_back({12,v,0,0});
  return r; }
static bool apply(V& v, M& m, Op o, std::string& why){ long ri=-2, rm=-2;
  switch(o.kind){
  case 0: v.push_back(o.a); m.push_back(o.a); break;
  case 1: v.pop_back(); m.pop_back(); break;
  case 2: ri = v.insert(v.begin()+o.a, (int const&)o.b)-v.begin(); { auto it=m.insert(m.begin()+o.a,o.b); rm=it-m.begin(); } break;
  case 3: { int x=o.b; ri = v.emplace(v.begin()+o.a, x)-v.begin(); { auto it=m.emplace(m.begin()+o.a,x); rm=it-m.begin(); } } break;
  case 4: ri = v.insert(v.begin()+o.a,(size_t)o.b,o.c)-v.begin(); { auto it=m.insert(m.begin()+o.a,(size_t)o.b,o.c); rm=it-m.begin(); } break;
  case 5: ri = v.erase(v.begin()+o.a)-v.begin(); { auto it=m.erase(m.begin()+o.a); rm=it-m.begin(); } break;
  case 6: ri = v.erase(v.begin()+o.a,v.begin()+o.b)-v.begin(); { auto it=m.erase(m.begin()+o.a,m.begin()+o.b); rm=it-m.begin(); } break;
  case 7: v.resize(o.a); m.resize(o.a); break;
  case 8: v.resize(o.a,o.b); m.resize(o.a,o.b); break;
  case 9: v.assign((size_t)o.a,o.b); m.assign((size_t)o.a,o.b); break;
  case 10: v.clear(); m.clear(); break;
  case 11: v = v; { M& r=m; m = r; } break;
  case 12: ri=(long)etl::erase(v,o.a); rm=(long)std::erase(m,o.a); break; }
  if(ri!=rm){ why="return ri="+std::to_string(ri)+" rm="+std::to_string(rm); return false; }
  if(v.size()!=m.size()||v.empty()!=m.empty()||v.full()!=(m.size()==N)||v.capacity()!=N){ why="size"; return false; }
  for(size_t i=0;i<m.size();++i) if(v[i]!=m[i]){ why="content"; return false; }
  return true; }
int main(){ auto t0=std::chrono::steady_clock::now();
  std::unordered_map<std::string,std::vector<Op>> seen; std::deque<std::string> fr; size_t trans=0, viol=0;
  auto build=[&](std::vector<Op> const& h, V*& v, M& m, unsigned char* buf, int poison){ std::memset(buf,poison,sizeof(V)+32); v=new(buf+16) V; std::string w; for(auto o:h) apply(*v,m,o,w); };
  auto key=[&](V const& v, M const& m){ std::string k; for(int x:m){ k+=char('0'+x);} k+='|'; k.append(reinterpret_cast<char const*>(&v), sizeof(V)); return k; };
  alignas(16) unsigned char buf[sizeof(V)+32]; V* v; M m; build({},v,m,buf,0xAA); auto k0=key(*v,m); seen[k0]={}; fr.push_back(k0); v->~V();
  while(!fr.empty()){ auto k=fr.front(); fr.pop_front(); auto h=seen[k]; M m0; V* v0; build(h,v0,m0,buf,0xAA); auto ops=menu(m0); v0->~V();
    for(auto o:ops){ M m1; V* v1; build(h,v1,m1,buf,0xAA); std::string why; ++trans; if(!apply(*v1,m1,o,why)){ if(viol++<3 || o.kind==11 && viol<8) std::printf("VIOL %s at depth %zu op kind=%d a=%d b=%d c=%d\n",why.c_str(),h.size(),o.kind,o.a,o.b,o.c); v1->~V(); continue; }
      auto k1=key(*v1,m1); if(!seen.count(k1)){ auto h1=h; h1.push_back(o); seen[k1]=h1; fr.push_back(k1);} v1->~V(); } }
  auto t1=std::chrono::steady_clock::now(); std::printf("states=%zu transitions=%zu violations=%zu  %.2fs\n",seen.size(),trans,viol,std::chrono::duration<double>(t1-t0).count()); }
