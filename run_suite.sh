#!/bin/sh
# Builds and runs tetl's own test suite (guard off: no verification define is ever passed to it).
# usage: run_suite.sh [repo-dir]   (default /repo)
R=${1:-/repo}
B=$R/_build
if [ ! -f "$B/build.ninja" ]; then cmake -G Ninja -S "$R" -B "$B" >/dev/null || exit 2; fi
cmake --build "$B" -j16 2>&1 | tail -15 | grep -E "error|FAILED|warning: unused" ; 
cmake --build "$B" -j16 >/dev/null 2>&1 || { echo "SUITE BUILD FAILED"; exit 2; }
ctest --test-dir "$B" -j8 --timeout 900 2>&1 | tail -4
