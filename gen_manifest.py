#!/usr/bin/env python3
"""Regenerates MANIFEST.json from props/*.json (claimed checks) and props/not_applicable.json."""
import json, os, glob
V = os.path.dirname(os.path.abspath(__file__))
props = {}
for f in sorted(glob.glob(os.path.join(V, "props", "C*.json"))):
    p = json.load(open(f))
    props[p["property"]] = p
na_path = os.path.join(V, "props", "not_applicable.json")
na = json.load(open(na_path)) if os.path.exists(na_path) else {}
all_ids = [json.loads(l)["id"] for l in open(os.path.join(V, "properties.jsonl"))]
# only properties listed in props/claimed.txt are registered (harnesses still under construction are not)
claimed = set(open(os.path.join(V, "props", "claimed.txt")).read().split())
props = {k: v for k, v in props.items() if k in claimed}
checks = []
for pid in all_ids:
    if pid not in props:
        continue
    p = props[pid]
    checks.append({
        "property_id": pid,
        "quick_cmd": "python3 check.py %s --tier quick" % pid,
        "thorough_cmd": "python3 check.py %s --tier thorough" % pid,
        "evidence_file": "/verif/evidence/%s.json" % pid,
        "replay_cmd_template": "python3 check.py replay {path}",
        "engine": p.get("engine", "E1"),
        "level_claimed": {"category": p["level"], "text": p["level_text"], "design_ref": p.get("design_ref", "DESIGN.md section 5 " + pid)},
        "level_note": p["level_note"],
        "technique": p["technique"],
    })
not_app = [{"property_id": pid, "reason": na.get(pid, "check not built yet in this round; see DESIGN.md section 5 for the planned model-checking harness")}
           for pid in all_ids if pid not in props]
man = {
    "version": 1,
    "setup_cmd": "python3 check.py --setup",
    "hooks": {
        "guard": "TETL_VERIF_HOOKS",
        "enable": "no source hooks exist: harnesses define etl::assert_handler / etl::exception_handler themselves (TETL_ENABLE_CUSTOM_ASSERT_HANDLER, TETL_ENABLE_CUSTOM_EXCEPTION_HANDLER) and include /repo/include unmodified",
        "baseline_off_cmd": "sh /verif/run_suite.sh /repo",
        "source_commits": [],
        "add_only": True,
    },
    "engines": [
        {"name": "E1", "path": "mc/explore.hpp", "serves_properties": ["C01", "C02", "C03", "C04", "C05", "C07", "C09", "C17", "C20"],
         "kind_free_text": "explicit-state BFS to fixed point over real tetl objects rebuilt from operation histories, in lock-step with std:: reference models"},
        {"name": "E2", "path": "mc/mc.hpp", "serves_properties": ["C06", "C08", "C10", "C11", "C12", "C14", "C16", "C18", "C19"],
         "kind_free_text": "bounded-exhaustive enumeration of a declared input product space against std/libc/closed-form references"},
        {"name": "E3", "path": "mc/mc.hpp", "serves_properties": ["C05"],
         "kind_free_text": "enumeration of every (object state, operation, violating argument) with a recording assert handler"},
        {"name": "E4", "path": "harness", "serves_properties": ["C13", "C15"],
         "kind_free_text": "constant-evaluation replay: constexpr result tables computed by the compiler compared with run-time execution"},
    ],
    "checks": checks,
    "not_applicable": not_app,
    "notes": "driver: check.py (stdlib python). Known genuine defects that cannot be repaired without editing tetl's tests are listed in known_findings.json and printed as KNOWN-FINDING lines.",
}
json.dump(man, open(os.path.join(V, "MANIFEST.json"), "w"), indent=1)
print("MANIFEST.json: %d checks, %d not_applicable" % (len(checks), len(not_app)))
