#!/usr/bin/env python3
"""Driver for the tetl model-checking harnesses (see DESIGN.md section 7).

  check.py <Cxx> [--tier quick|thorough] [--only SUBJECT]... [--jobs N] [--job-filter SUBSTR]
  check.py replay <replay.json>
  check.py --setup
  check.py --validate-evidence

Python standard library only.  Everything that includes a tetl header is compiled here,
from /repo/include as it is now.
"""
import concurrent.futures as cf
import hashlib
import json
import os
import re
import shutil
import subprocess
import sys
import time

VERIF = os.path.dirname(os.path.abspath(__file__))
REPO = os.environ.get("TETL_REPO", "/repo")
BUILD = os.environ.get("MC_BUILD_DIR") or os.path.join(VERIF, "build")  # MC_BUILD_DIR: private build/output dir (tools/try_patch.sh)
NPROC = os.cpu_count() or 4

BASE_FLAGS = ["-I" + os.path.join(REPO, "include"), "-I" + os.path.join(VERIF, "mc"),
              "-DTETL_ENABLE_CUSTOM_ASSERT_HANDLER=1", "-DTETL_ENABLE_CUSTOM_EXCEPTION_HANDLER=1",
              "-fno-strict-aliasing", "-w",
              "-DMC_REPO_INCLUDE=\"%s\"" % os.path.join(REPO, "include"), "-DMC_VERIF_DIR=\"%s\"" % VERIF]
SAN = ["-g1", "-fsanitize=address,undefined", "-fsanitize=float-cast-overflow", "-fsanitize-recover=all",
       "-fno-omit-frame-pointer"]
FLAVOURS = {
    # contract checks on (incl. the _SAFE ones): a handler call on a valid action is a C05 violation
    "chk": ["-O1", "-DTETL_ENABLE_CONTRACT_CHECKS=1", "-DTETL_ENABLE_CONTRACT_CHECKS_SAFE=1", "-DMC_FLAVOUR_CHK=1"],
    # contract checks on, _SAFE ones off
    "chkfast": ["-O1", "-DTETL_ENABLE_CONTRACT_CHECKS=1", "-DMC_FLAVOUR_CHK=1", "-DMC_FLAVOUR_CHKFAST=1"],
    # contracts off: what embedded users ship
    "nochk": ["-O1", "-DMC_FLAVOUR_NOCHK=1"],
    "O0": ["-O0", "-DMC_FLAVOUR_NOCHK=1", "-DMC_FLAVOUR_O0=1"],
    "O2": ["-O2", "-DMC_FLAVOUR_NOCHK=1", "-DMC_FLAVOUR_O2=1"],
    # contracts off + ASan/UBSan in recover mode (reports are counted through the run-time hooks)
    "san": ["-O1", "-DMC_FLAVOUR_NOCHK=1", "-DMC_FLAVOUR_SAN=1"] + SAN,
    # contracts on + sanitizers: C05 "handler before damage"
    "chksan": ["-O1", "-DTETL_ENABLE_CONTRACT_CHECKS=1", "-DTETL_ENABLE_CONTRACT_CHECKS_SAFE=1", "-DMC_FLAVOUR_CHK=1",
               "-DMC_FLAVOUR_SAN=1"] + SAN,
}
SAN_ENV = {
    "ASAN_OPTIONS": "halt_on_error=0:detect_leaks=0:allocator_may_return_null=1:detect_stack_use_after_return=0:"
                    "handle_segv=0:handle_sigbus=0:handle_sigfpe=0:handle_sigill=0:handle_abort=0:print_summary=0:"
                    "suppress_equal_pcs=0",  # recover mode otherwise dies after 25 distinct reporting PCs
    "UBSAN_OPTIONS": "print_stacktrace=0:halt_on_error=0",
}

DEADLINE = {"quick": 75.0, "thorough": 1500.0}   # cooperative, per job
HARDKILL = {"quick": 900.0, "thorough": 5400.0}  # last resort, per job


def log(*a):
    print(*a, file=sys.stderr, flush=True)


def load_prop(pid):
    path = os.path.join(VERIF, "props", pid + ".json")
    with open(path) as f:
        return json.load(f)


def load_known():
    path = os.path.join(VERIF, "known_findings.json")
    if not os.path.exists(path):
        return []
    with open(path) as f:
        found = json.load(f)["findings"]
    extra = os.environ.get("MC_EXTRA_KNOWN")  # development aid: proposed entries not yet accepted
    if extra and os.path.exists(extra):
        for e in json.load(open(extra)):
            e = dict(e)
            e.setdefault("status", "known")
            found.append(e)
    return found


# ------------------------------------------------------------------------------ compile

def compiler():
    cxx = os.environ.get("CXX", "g++")
    return [cxx]


def file_hash(path):
    h = hashlib.sha256()
    try:
        with open(path, "rb") as f:
            h.update(f.read())
    except OSError:
        h.update(b"<missing>")
    return h.hexdigest()


def parse_depfile(path):
    try:
        txt = open(path).read()
    except OSError:
        return None
    txt = txt.replace("\\\n", " ")
    deps = []
    for line in txt.splitlines():
        if ":" in line:
            line = line.split(":", 1)[1]
        deps += line.split()
    return sorted(set(deps))


def bin_name(run):
    stem = os.path.splitext(os.path.basename(run["src"]))[0]
    extra = ""
    if run.get("defs"):
        extra = "." + hashlib.sha1(" ".join(run["defs"]).encode()).hexdigest()[:8]
    return "%s.%s%s" % (stem, run["flavour"], extra)


import threading
_compile_locks = {}
_compile_locks_guard = threading.Lock()


def compile_run(run):
    """Compiles one (source, flavour) pair; returns (binary path or None, message).  Serialised per binary."""
    name = bin_name(run)
    with _compile_locks_guard:
        lock = _compile_locks.setdefault(name, threading.Lock())
    with lock:
        return _compile_run(run)


def _compile_run(run):
    os.makedirs(os.path.join(BUILD, "bin"), exist_ok=True)
    src = os.path.join(VERIF, run["src"])
    out = os.path.join(BUILD, "bin", bin_name(run))
    dep = out + ".d"
    stamp = out + ".stamp"
    std = run.get("std", "c++20")
    cmd = compiler() + ["-std=" + std] + BASE_FLAGS + FLAVOURS[run["flavour"]] + run.get("defs", []) + run.get("cxxflags", []) + [src, "-o", out]
    def fingerprint():
        deps = parse_depfile(dep)
        if deps is None:
            return None
        h = hashlib.sha256(" ".join(cmd).encode())
        for d in deps:
            h.update(d.encode())
            h.update(file_hash(d).encode())
        return h.hexdigest()
    if os.path.exists(out) and os.path.exists(stamp):
        fp = fingerprint()
        if fp is not None and open(stamp).read().strip() == fp:
            return out, "cached"
    t0 = time.time()
    # compile to private temporaries and rename, so that two checks building the same binary
    # at the same time (C01/C02/C03 share sources) never see a half-written file
    tmp = "%s.tmp%d_%d" % (out, os.getpid(), threading.get_ident())
    tcmd = cmd[:-1] + [tmp]
    p = subprocess.run(tcmd + ["-MD", "-MF", tmp + ".d"], stdout=subprocess.PIPE, stderr=subprocess.STDOUT, text=True)
    if p.returncode != 0:
        for f in (stamp, tmp, tmp + ".d"):
            if os.path.exists(f):
                os.remove(f)
        return None, p.stdout[-6000:]
    os.replace(tmp + ".d", dep)
    os.replace(tmp, out)
    fp = fingerprint()
    if fp:
        with open(stamp + ".tmp%d" % os.getpid(), "w") as f:
            f.write(fp)
        os.replace(stamp + ".tmp%d" % os.getpid(), stamp)
    return out, "compiled in %.1fs" % (time.time() - t0)


# ------------------------------------------------------------------------------ run

def list_jobs(binary, tier):
    p = subprocess.run([binary, "--list", "--tier", tier], stdout=subprocess.PIPE, text=True, timeout=60)
    return [l.strip() for l in p.stdout.splitlines() if l.strip()]


def _child_limits(cpu_seconds):
    """runs in the child before exec: die with the driver (an orphaned job once span 10 CPU-hours after its
    driver had been killed by an outer `timeout`) and never use more CPU than twice the wall-clock limit"""
    def fn():
        try:
            import ctypes
            ctypes.CDLL(None).prctl(1, 9)  # PR_SET_PDEATHSIG, SIGKILL
        except Exception:
            pass
        try:
            import resource
            resource.setrlimit(resource.RLIMIT_CPU, (cpu_seconds, cpu_seconds))
        except Exception:
            pass
    return fn


def run_job(binary, run, job, tier, pid, outdir, only=(), deadline=None):
    tag = "%s.%s" % (os.path.basename(binary), re.sub(r"[^A-Za-z0-9_.-]", "_", job))
    out = os.path.join(outdir, tag + ".json")
    errp = os.path.join(outdir, tag + ".log")
    if os.path.exists(out):
        os.remove(out)
    cmd = [binary, "--job", job, "--tier", tier, "--out", out, "--prop", pid,
           "--deadline", str(deadline if deadline is not None else DEADLINE[tier])]
    for o in only:
        cmd += ["--only", o]
    env = dict(os.environ)
    if "san" in run["flavour"]:
        env.update(SAN_ENV)
    t0 = time.time()
    status = "ok"
    try:
        with open(errp, "w") as ef:
            p = subprocess.run(cmd, stdout=ef, stderr=subprocess.STDOUT, env=env, timeout=HARDKILL[tier],
                               preexec_fn=_child_limits(2 * HARDKILL[tier]))
        if p.returncode != 0:
            status = "exit %d" % p.returncode
    except subprocess.TimeoutExpired:
        status = "timeout"
    res = None
    if os.path.exists(out):
        try:
            with open(out) as f:
                res = json.load(f)
        except Exception as e:  # truncated output
            status = "bad-json (%s)" % e
    elif status == "ok":
        status = "no-output"
    # keep logs small
    try:
        if os.path.getsize(errp) > 400000:
            with open(errp, "rb") as f:
                head = f.read(200000)
            with open(errp, "wb") as f:
                f.write(head + b"\n... truncated ...\n")
    except OSError:
        pass
    return {"run": run, "job": job, "status": status, "result": res, "wall": time.time() - t0, "log": errp, "binary": binary}


# ------------------------------------------------------------------------------ findings

def match_known(known, v):
    for k in known:
        if k.get("status") != "known":
            continue
        if k["property"] == v["prop"] and k["subject"] == v["subject"] and k["class"] == v["class"]:
            return k
    return None


def replay_path(pid, v, run, job):
    h = hashlib.sha1(("%s|%s|%s|%s|%s" % (pid, v["subject"], v["class"], run["src"], run["flavour"])).encode()).hexdigest()[:12]
    d = os.path.join(VERIF, "replays", pid)
    os.makedirs(d, exist_ok=True)
    return os.path.join(d, h + ".json")


def do_replay_once(rep, outdir):
    run = rep["run"]
    binary, msg = compile_run(run)
    if binary is None:
        return None, "build failed:\n" + msg
    os.makedirs(outdir, exist_ok=True)
    jr = run_job(binary, run, rep["job"], rep["tier"], rep["property"], outdir, only=[rep["subject"]])
    if jr["result"] is None:
        if rep["class"].startswith("process-"):
            return True, "job died again: " + jr["status"]
        return None, "job produced no result: " + jr["status"]
    for v in jr["result"]["violations"]:
        if v["prop"] == rep["property"] and v["subject"] == rep["subject"] and v["class"] == rep["class"]:
            same = (v["case"] == rep["case"])
            return True, "reproduced (%s witness): %s | %s" % ("same" if same else "different", v["case"], v["detail"])
    return False, "not reproduced"


def cmd_replay(path):
    with open(path) as f:
        rep = json.load(f)
    outdir = os.path.join(BUILD, "out", "replay")
    r1, m1 = do_replay_once(rep, outdir)
    r2, m2 = do_replay_once(rep, outdir)
    print("replay 1:", m1)
    print("replay 2:", m2)
    if r1 is None or r2 is None:
        print("REPLAY-ERROR")
        return 2
    if r1 != r2:
        print("REPLAY-DIVERGED (harness nondeterminism)")
        return 2
    if r1:
        print("VIOLATION property=%s replay=%s" % (rep["property"], path))
        return 1
    print("no violation on this tree")
    return 0


# ------------------------------------------------------------------------------ evidence

def write_evidence(pid, prop, tier, agg, wall, nviol, seed, partial=False):
    level = prop["level"]
    cov = {
        "evaluations": int(agg["stats"].get("evaluations", 0)),
        "distinct_nontrivial": int(agg["stats"].get("distinct_nontrivial", 0) + agg["stats"].get("distinct_nontrivial_set", 0)),
        "rule": prop.get("rule", ""),
        "samples": agg["samples"][:24],
        "exhaustive": bool(agg["exhaustive"]),
        "distinct_outcomes": int(agg["stats"].get("distinct_outcomes", 0)),
        "jobs": agg["jobs"],
        "jobs_run": len(agg["jobs"]),
        "notes": agg["notes"][:200],
        "known_findings_hit": agg["known_hit"],
        "foreign_violations_ignored": agg["foreign"],
        "technique": prop.get("technique", ""),
        "flavours": sorted(set(j["flavour"] for j in agg["jobs"])),
    }
    for k, v in agg["stats"].items():
        if k not in cov and k not in ("distinct_nontrivial_set",):
            cov[k] = int(v)
    if level == "model_checking":
        cov["states"] = int(agg["stats"].get("states", 0))
        cov["transitions"] = int(agg["stats"].get("transitions", 0))
        cov["traces_validated_against_impl"] = int(agg["stats"].get("traces_validated_against_impl", 0))
    ev = {
        "property_id": pid,
        "tier": tier,
        "seed": seed,
        "level": level,
        "coverage": cov,
        "assumptions": prop.get("assumptions", []),
        "wall_s": round(wall, 2),
        "violations": nviol,
    }
    # a filtered run (--job-filter / --flavours / --only), a run against another tree (TETL_REPO) or with a private build
    # directory is a developer's partial run: its record must never replace the evidence of the registered command
    evdir = os.path.join(BUILD, "evidence_partial") if partial else os.path.join(VERIF, "evidence")
    os.makedirs(evdir, exist_ok=True)
    path = os.path.join(evdir, pid + ".json")
    with open(path, "w") as f:
        json.dump(ev, f, indent=1, sort_keys=False)
        f.write("\n")
    return path


# ------------------------------------------------------------------------------ check

def cmd_check(pid, tier, only, jobs, job_filter, flavour_filter=None):
    t_start = time.time()
    seed = int(os.environ.get("VERIF_SEED", "0") or 0)
    prop = load_prop(pid)
    known = load_known()
    runs = [r for r in prop["runs"] if tier in r.get("tiers", ["quick", "thorough"])]
    if flavour_filter:
        runs = [r for r in runs if r["flavour"] in flavour_filter.split(",")]
    outdir = os.path.join(BUILD, "out", pid)
    shutil.rmtree(outdir, ignore_errors=True)
    os.makedirs(outdir, exist_ok=True)

    # 1. compile (parallel)
    bins = {}
    with cf.ThreadPoolExecutor(max_workers=jobs) as ex:
        futs = {ex.submit(compile_run, r): i for i, r in enumerate(runs)}
        for fu in cf.as_completed(futs):
            i = futs[fu]
            b, msg = fu.result()
            log("[build] %s %s: %s" % (runs[i]["src"], runs[i]["flavour"], msg if b else "FAILED"))
            if b is None:
                sys.stdout.write(msg + "\n")
                print("BUILD-FAILED property=%s source=%s flavour=%s" % (pid, runs[i]["src"], runs[i]["flavour"]))
                if prop.get("build_failure_is_violation"):
                    rp = os.path.join(VERIF, "replays", pid)
                    os.makedirs(rp, exist_ok=True)
                    path = os.path.join(rp, "build_failure.json")
                    with open(path, "w") as f:
                        json.dump({"property": pid, "run": runs[i], "class": "build-failure", "log": msg}, f, indent=1)
                    print("VIOLATION property=%s replay=%s" % (pid, path))
                    return 1
                return 2
            bins[i] = b
    t_built = time.time()

    # 2. enumerate jobs, run them (one process per job)
    tasks = []
    for i, r in enumerate(runs):
        names = list_jobs(bins[i], tier)
        if r.get("jobs"):
            names = [n for n in names if any(re.fullmatch(pat, n) for pat in r["jobs"])]
        if job_filter:
            names = [n for n in names if job_filter in n]
        for n in names:
            tasks.append((bins[i], r, n))
    results = []
    with cf.ThreadPoolExecutor(max_workers=jobs) as ex:
        futs = [ex.submit(run_job, b, r, n, tier, pid, outdir, only) for (b, r, n) in tasks]
        for fu in cf.as_completed(futs):
            jr = fu.result()
            results.append(jr)
            log("[run] %-28s %-34s %-8s %6.1fs" % (os.path.basename(jr["binary"]), jr["job"], jr["status"], jr["wall"]))
    results.sort(key=lambda j: (j["run"]["src"], j["run"]["flavour"], j["job"]))

    # 3. aggregate
    agg = {"stats": {}, "samples": [], "notes": [], "exhaustive": True, "jobs": [], "known_hit": [], "foreign": 0}
    viols = []   # (violation dict, job result)
    maxkeys = {"max_depth"}
    for jr in results:
        res = jr["result"]
        agg["jobs"].append({"source": jr["run"]["src"], "flavour": jr["run"]["flavour"], "job": jr["job"], "status": jr["status"],
                            "wall_s": round(jr["wall"], 2),
                            "exhaustive": bool(res and res.get("exhaustive"))})
        if jr["status"] == "timeout":
            # the last-resort wall-clock limit says the harness was too slow on this machine, not that the
            # property failed (hangs inside tetl code are caught by the in-process CPU-time watchdog and
            # reported as violations with the case attached): incomplete, not a violation
            print("INCOMPLETE property=%s job=%s hit the per-job wall-clock limit of %ds; nothing is claimed for it" % (pid, jr["job"], int(HARDKILL[tier])))
            agg["exhaustive"] = False
            agg["notes"].append("%s/%s: killed at the wall-clock limit, not counted" % (jr["run"]["flavour"], jr["job"]))
            continue
        if res is None or jr["status"] != "ok":
            cls = "process-timeout" if jr["status"] == "timeout" else "process-died"
            tail = ""
            try:
                tail = open(jr["log"], errors="replace").read()[-1500:]
            except OSError:
                pass
            viols.append(({"prop": pid, "subject": "job:" + jr["job"], "class": cls, "case": "whole job",
                           "detail": jr["status"] + " | " + tail, "count": 1}, jr))
            agg["exhaustive"] = False
            if res is None:
                continue
        for k, v in res["stats"].items():
            if k in maxkeys:
                agg["stats"][k] = max(agg["stats"].get(k, 0), v)
            else:
                agg["stats"][k] = agg["stats"].get(k, 0) + v
        if not res.get("exhaustive", False):
            agg["exhaustive"] = False
        agg["notes"] += ["%s/%s: %s" % (jr["run"]["flavour"], jr["job"], n) for n in res.get("notes", [])]
        for v in res["violations"]:
            if v["prop"] == pid:
                viols.append((v, jr))
            else:
                agg["foreign"] += 1
    # samples: round-robin over jobs so that every job is represented
    # deepest / latest samples first (the first sample of an explorer job is always "<initial>")
    per = [list(reversed(jr["result"]["samples"])) for jr in results if jr["result"]]
    while any(per) and len(agg["samples"]) < 24:
        for p in per:
            if p and len(agg["samples"]) < 24:
                agg["samples"].append(p.pop(0))

    # 4. classify
    unknown = []
    known_lines = {}
    # shortest witness first, so that the one kept per (subject, class) is the simplest
    viols.sort(key=lambda vj: (vj[0]["subject"], vj[0]["class"], len(vj[0]["case"]), vj[0]["case"]))
    counts = {}
    for v, jr in viols:
        counts[(v["subject"], v["class"])] = counts.get((v["subject"], v["class"]), 0) + v.get("count", 1)
    for v, jr in viols:
        k = match_known(known, v)
        if k is not None:
            key = (v["subject"], v["class"])
            if key not in known_lines:
                known_lines[key] = [v, jr, 0]
            known_lines[key][2] += v.get("count", 1)
        else:
            unknown.append((v, jr))
    for (subj, cls), (v, jr, cnt) in sorted(known_lines.items()):
        print("KNOWN-FINDING: property=%s %s [%s] x%d witness: %s | %s" % (pid, subj, cls, cnt, v["case"], v["detail"][:300]))
        agg["known_hit"].append({"subject": subj, "class": cls, "count": cnt, "witness": v["case"]})

    # 5. unknown violations: replay twice before reporting (same case, same verdict)
    reported = {}
    rc = 0
    for v, jr in unknown:
        key = (v["subject"], v["class"])
        if key in reported:
            continue
        path = replay_path(pid, v, jr["run"], jr["job"])
        rep = {"property": pid, "tier": tier, "run": jr["run"], "job": jr["job"], "subject": v["subject"], "class": v["class"],
               "case": v["case"], "detail": v["detail"], "count": counts.get(key, v.get("count", 1)),
               "replay_cmd": "python3 check.py replay " + path}
        with open(path, "w") as f:
            json.dump(rep, f, indent=1)
        reported[key] = path
    confirm = list(reported.items())[:40]
    if confirm and not os.environ.get("MC_NO_CONFIRM"):
        def conf(item):
            (subj, cls), path = item
            with open(path) as f:
                rep = json.load(f)
            od = os.path.join(outdir, "confirm_" + os.path.basename(path)[:-5])
            a, ma = do_replay_once(rep, od)
            return item, a, ma
        with cf.ThreadPoolExecutor(max_workers=jobs) as ex:
            for item, a, ma in ex.map(conf, confirm):
                if a is not True:
                    print("REPLAY-MISMATCH property=%s subject=%s class=%s: %s" % (pid, item[0][0], item[0][1], ma))
                    rc = 2
    for (subj, cls), path in sorted(reported.items()):
        with open(path) as f:
            rep = json.load(f)
        print("VIOLATION property=%s replay=%s" % (pid, path))
        print("   subject=%s class=%s count=%d" % (subj, cls, rep["count"]))
        print("   case:   %s" % rep["case"])
        print("   detail: %s" % rep["detail"][:600])
        rc = max(rc, 1)

    wall = time.time() - t_start
    partial = bool(job_filter or flavour_filter or only or os.environ.get("TETL_REPO") or os.environ.get("MC_BUILD_DIR"))
    path = write_evidence(pid, prop, tier, agg, wall, len(reported), seed, partial)
    st = agg["stats"]
    print("%s %s: jobs=%d evaluations=%d states=%d transitions=%d distinct_nontrivial=%d outcomes=%d exhaustive=%s "
          "known=%d violations=%d build=%.1fs total=%.1fs" % (
              pid, tier, len(results), st.get("evaluations", 0), st.get("states", 0), st.get("transitions", 0),
              st.get("distinct_nontrivial", 0) + st.get("distinct_nontrivial_set", 0), st.get("distinct_outcomes", 0),
              agg["exhaustive"], len(known_lines), len(reported), t_built - t_start, wall))
    return rc


def cmd_setup():
    os.makedirs(os.path.join(BUILD, "bin"), exist_ok=True)
    os.makedirs(os.path.join(VERIF, "evidence"), exist_ok=True)
    # sanity: compiler present and able to build a trivial harness against the engine headers
    src = os.path.join(BUILD, "selftest.cpp")
    with open(src, "w") as f:
        f.write('#include "mc.hpp"\nint main(int c,char**v){mc::Main m(c,v); m.job("x",{"quick"},[](mc::Reporter& r){r.count("evaluations");}); return m.run();}\n')
    p = subprocess.run(compiler() + ["-std=c++20", "-I" + os.path.join(VERIF, "mc"), src, "-o", os.path.join(BUILD, "selftest")])
    if p.returncode != 0:
        return 1
    print("setup ok")
    return 0


def cmd_validate():
    schema_path = "/root/.vp/EVIDENCE.schema.json"
    evd = os.path.join(VERIF, "evidence")
    files = sorted(f for f in os.listdir(evd) if f.endswith(".json")) if os.path.isdir(evd) else []
    code = ("import json,sys,jsonschema\n"
            "s=json.load(open(sys.argv[1]))\n"
            "bad=0\n"
            "for p in sys.argv[2:]:\n"
            "    try:\n"
            "        jsonschema.validate(json.load(open(p)), s); print('valid', p)\n"
            "    except Exception as e:\n"
            "        bad=1; print('INVALID', p, str(e)[:300])\n"
            "sys.exit(bad)\n")
    py = shutil.which("python3-vt")
    if py and os.path.exists(schema_path):
        return subprocess.run([py, "-c", code, schema_path] + [os.path.join(evd, f) for f in files]).returncode
    bad = 0
    for f in files:
        ev = json.load(open(os.path.join(evd, f)))
        for k in ("property_id", "tier", "seed", "level", "coverage", "wall_s"):
            if k not in ev:
                print("INVALID", f, "missing", k)
                bad = 1
    return bad


def main(argv):
    if len(argv) >= 1 and argv[0] == "--setup":
        return cmd_setup()
    if len(argv) >= 1 and argv[0] == "--validate-evidence":
        return cmd_validate()
    if len(argv) >= 2 and argv[0] == "replay":
        return cmd_replay(argv[1])
    if not argv:
        print(__doc__)
        return 64
    pid = argv[0]
    tier = os.environ.get("VERIF_TIER", "quick")
    only = []
    jobs = NPROC
    job_filter = None
    flavour_filter = None
    i = 1
    while i < len(argv):
        if argv[i] == "--tier":
            tier = argv[i + 1]; i += 2
        elif argv[i] == "--only":
            only.append(argv[i + 1]); i += 2
        elif argv[i] == "--jobs":
            jobs = int(argv[i + 1]); i += 2
        elif argv[i] == "--job-filter":
            job_filter = argv[i + 1]; i += 2
        elif argv[i] == "--flavours":
            flavour_filter = argv[i + 1]; i += 2
        else:
            print("unknown argument", argv[i]); return 64
    return cmd_check(pid, tier, only, jobs, job_filter, flavour_filter)


if __name__ == "__main__":
    sys.exit(main(sys.argv[1:]))
