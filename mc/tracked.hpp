// Oracle 3: lifetime registry + instrumented element types.
//
// Every special member of Tracked<F> reports to a registry keyed by object address.
// Slot states: raw (absent), live, moved (live, moved-from).  Illegal transitions are
// recorded (not aborted on) so that the explorer can attach the history:
//   construct over a live object, copy/move/assign from raw storage, assign to raw storage,
//   destroy raw storage (double destroy / never constructed), value read from raw storage.
// A moved-from object reads as value -1 so that "reads a moved-from element" shows up in the
// lock-step content comparison as well.
#pragma once
#include <cstdint>
#include <string>
#include <unordered_map>
#include <vector>

namespace mc {

struct Registry {
    enum St : std::uint8_t { live = 1, moved = 2 };
    std::unordered_map<void const*, St> slots;
    std::vector<std::string> errors;
    std::uint64_t constructions{0}, destructions{0}, copies{0}, moves{0}, assigns{0};

    void err(char const* what, void const* p)
    {
        if (errors.size() < 16) { errors.push_back(std::string(what)); }
        (void)p;
    }
    bool alive(void const* p) const { return slots.find(p) != slots.end(); }
    void construct(void const* p)
    {
        ++constructions;
        if (alive(p)) { err("constructor ran on storage that already holds a live object", p); }
        slots[p] = live;
    }
    void source(void const* q, char const* what)
    {
        if (!alive(q)) { err(what, q); }
    }
    void destroy(void const* p)
    {
        ++destructions;
        auto it = slots.find(p);
        if (it == slots.end()) {
            err("destructor ran on storage that holds no live object (double destroy or never constructed)", p);
            return;
        }
        slots.erase(it);
    }
    void assign_to(void const* p)
    {
        ++assigns;
        if (!alive(p)) { err("assignment to storage that holds no live object", p); }
    }
    void mark_moved(void const* q)
    {
        auto it = slots.find(q);
        if (it != slots.end()) { it->second = moved; }
    }
    void mark_live(void const* p)
    {
        auto it = slots.find(p);
        if (it != slots.end()) { it->second = live; }
    }
    void use(void const* p)
    {
        if (!alive(p)) { err("member access on storage that holds no live object", p); }
    }
    std::size_t live_count() const { return slots.size(); }
    std::size_t live_in(void const* lo, void const* hi) const
    {
        std::size_t n = 0;
        for (auto const& kv : slots) {
            if (kv.first >= lo && kv.first < hi) { ++n; }
        }
        return n;
    }
    void forget_range(void const* lo, void const* hi)
    {
        for (auto it = slots.begin(); it != slots.end();) {
            if (it->first >= lo && it->first < hi) {
                it = slots.erase(it);
            } else {
                ++it;
            }
        }
    }
    std::vector<std::string> take_errors()
    {
        auto e = std::move(errors);
        errors.clear();
        return e;
    }
};

inline Registry& registry()
{
    static Registry r;
    return r;
}

// trivial_default: defaulted (trivial) default constructor, user-provided copy/move/destructor - the shape
// etl::is_trivially_copy_constructible mis-classifies (it only looks at default construction)
// rule3: user-provided copy constructor and destructor, but a DEFAULTED (trivial) copy assignment and no move members
// ("rule of three violator", e.g. an instance counter).  Owners that pick memberwise assignment from
// is_trivially_copy_assignable alone skip the destroy/construct pair such a type needs when the alternative changes
// (seeded breakage c03_variant_copy_assign_trivial_concept).
enum TrackedFlavour { copy_move = 0, move_only = 1, copy_only = 2, trivial_default = 3, rule3 = 4 };

/// Instrumented element.  F selects which special members exist.  `tag` distinguishes
/// alternative types (variant<TrackedA, TrackedB>) without changing behaviour.
template <int F, int Tag = 0>
struct Tracked {
    int v;

    Tracked()
        requires(F == trivial_default)
    = default;
    Tracked()
        requires(F != trivial_default)
        : v(0)
    {
        registry().construct(this);
    }
    explicit(false) Tracked(int x) : v(x) { registry().construct(this); }

    Tracked(Tracked const& o) noexcept(F == rule3) // etl::variant insists on nothrow "move" construction
        requires(F != move_only)
        : v(o.v)
    {
        registry().source(&o, "copy construction from storage that holds no live object");
        registry().construct(this);
        ++registry().copies;
    }
    Tracked(Tracked&& o) noexcept
        requires(F != copy_only && F != rule3)
        : v(o.v)
    {
        registry().source(&o, "move construction from storage that holds no live object");
        registry().construct(this);
        ++registry().moves;
        if (this != &o) {
            o.v = -1;
            registry().mark_moved(&o);
        }
    }
    auto operator=(Tracked const& o) -> Tracked&
        requires(F == rule3)
    = default;
    auto operator=(Tracked const& o) -> Tracked&
        requires(F != move_only && F != rule3)
    {
        registry().source(&o, "copy assignment from storage that holds no live object");
        registry().assign_to(this);
        v = o.v;
        if (this != &o) { registry().mark_live(this); }
        return *this;
    }
    auto operator=(Tracked&& o) noexcept -> Tracked&
        requires(F != copy_only && F != rule3)
    {
        registry().source(&o, "move assignment from storage that holds no live object");
        registry().assign_to(this);
        if (this != &o) {
            v   = o.v;
            o.v = -1;
            registry().mark_live(this);
            registry().mark_moved(&o);
        }
        return *this;
    }
    ~Tracked() { registry().destroy(this); }

    [[nodiscard]] int value() const
    {
        registry().use(this);
        return v;
    }

    friend bool operator==(Tracked const& a, Tracked const& b) { return a.value() == b.value(); }
    friend bool operator<(Tracked const& a, Tracked const& b) { return a.value() < b.value(); }
    friend bool operator!=(Tracked const& a, Tracked const& b) { return !(a == b); }
    friend bool operator>(Tracked const& a, Tracked const& b) { return b < a; }
    friend bool operator<=(Tracked const& a, Tracked const& b) { return !(b < a); }
    friend bool operator>=(Tracked const& a, Tracked const& b) { return !(a < b); }
};

/// value of an element for comparison with the int model
inline int value_of(int x) { return x; }
template <int F, int Tag>
int value_of(Tracked<F, Tag> const& t)
{
    return t.value();
}

template <typename T>
inline constexpr bool is_tracked_v = false;
template <int F, int Tag>
inline constexpr bool is_tracked_v<Tracked<F, Tag>> = true;

} // namespace mc
