// Common support for every harness under /verif/harness.
//
// A harness is one translation unit:
//
//     #include "mc.hpp"                  // FIRST (defines the etl assert/exception handlers)
//     #include <etl/...>
//     static void job_a(mc::Reporter& r) { ... }
//     int main(int argc, char** argv) {
//         mc::Main m(argc, argv);
//         m.job("a", {"quick","thorough"}, job_a);
//         return m.run();
//     }
//
// check.py compiles it from /repo/include, asks it for its job list (--list), and runs
// every job in its own process (--job NAME --out FILE).  A job enumerates its space,
// reports counts and violations through the Reporter, and the result file is JSON.
//
// The header owns every source of nondeterminism a harness could see: there is none
// (no clocks except the cooperative deadline, no threads, no randomness).
#pragma once

#ifndef TETL_ENABLE_CUSTOM_ASSERT_HANDLER
    #define TETL_ENABLE_CUSTOM_ASSERT_HANDLER 1
#endif
#ifndef TETL_ENABLE_CUSTOM_EXCEPTION_HANDLER
    #define TETL_ENABLE_CUSTOM_EXCEPTION_HANDLER 1
#endif

#include <algorithm>
#include <chrono>
#include <csetjmp>
#include <csignal>
#include <cstdint>
#include <cstdio>
#include <cstdlib>
#include <cstring>
#include <functional>
#include <map>
#include <set>
#include <sstream>
#include <string>
#include <tuple>
#include <unordered_set>
#include <vector>

#include <sys/time.h>
#include <unistd.h>

namespace mc {

// ---------------------------------------------------------------------------------------
// traps: contract handler, exception handler, fatal signals, hangs, sanitizer reports
// ---------------------------------------------------------------------------------------

enum class Trap : int { none = 0, assert_fired = 1, exception_raised = 2, crash = 3, hang = 4 };

struct AssertInfo {
    int line{0};
    char const* file{nullptr};
    char const* func{nullptr};
    char const* expr{nullptr};
};

struct TrapState {
    sigjmp_buf* volatile jb{nullptr};  // innermost guard; null = not guarded (volatile: read from signal handlers)
    AssertInfo last_assert{};          // filled by the contract handler
    char const* last_exception{nullptr};
    int last_signal{0};
    volatile std::uint64_t san_hits{0};        // sanitizer reports seen so far
    volatile std::uint64_t guard_entries{0};   // progress counter (hang detection)
    std::uint64_t last_seen_entries{0};
    int stalled_ticks{0};
    int hang_ticks{30};                        // CPU-seconds without a new guard entry inside one guard
    std::function<void()> in_handler_hook;     // C05: snapshot comparison inside the handler
    std::uint64_t san_hits_at_handler{0};
};

inline TrapState& traps()
{
    static TrapState t;
    return t;
}

inline volatile std::sig_atomic_t g_jumping = 0;
inline volatile std::uint64_t g_crash_count  = 0;

[[noreturn]] inline void trap_jump(Trap t)
{
    auto& s = traps();
    if (g_jumping != 0) {
        // a fatal signal while unwinding to a guard: the process state is beyond repair
        static char const msg[] = "MC-FATAL: trap while jumping to a guard (corrupted process state)\n";
        (void)!write(2, msg, sizeof msg - 1);
        std::_Exit(71);
    }
    if (t == Trap::crash && ++g_crash_count > 20000) {
        static char const msg[] = "MC-FATAL: more than 20000 fatal signals in one job\n";
        (void)!write(2, msg, sizeof msg - 1);
        std::_Exit(72);
    }
    if (s.jb == nullptr) {
        std::fprintf(stderr, "MC-FATAL: trap %d outside of a guard (assert %s:%d %s)\n", int(t),
            s.last_assert.file ? s.last_assert.file : "?", s.last_assert.line,
            s.last_assert.expr ? s.last_assert.expr : "?");
        std::_Exit(70);
    }
    g_jumping = 1;
    siglongjmp(*s.jb, int(t));
}

inline void on_signal(int sig)
{
    auto& s = traps();
    if (sig == SIGVTALRM) {
        if (s.jb == nullptr) { return; }
        if (s.guard_entries == s.last_seen_entries) {
            if (++s.stalled_ticks >= s.hang_ticks) {
                s.stalled_ticks = 0;
                sigset_t m;
                sigemptyset(&m);
                sigaddset(&m, SIGVTALRM);
                sigprocmask(SIG_UNBLOCK, &m, nullptr);
                trap_jump(Trap::hang);
            }
        } else {
            s.last_seen_entries = s.guard_entries;
            s.stalled_ticks     = 0;
        }
        return;
    }
    s.last_signal = sig;
    sigset_t m;
    sigemptyset(&m);
    sigaddset(&m, sig);
    sigprocmask(SIG_UNBLOCK, &m, nullptr);
    trap_jump(Trap::crash);
}

inline void install_signal_handlers()
{
    static char altstack[1 << 16];
    stack_t ss{};
    ss.ss_sp   = altstack;
    ss.ss_size = sizeof(altstack);
    sigaltstack(&ss, nullptr);
    struct sigaction sa{};
    sa.sa_handler = on_signal;
    sa.sa_flags   = SA_ONSTACK | SA_NODEFER;
    sigemptyset(&sa.sa_mask);
    for (int sig : {SIGSEGV, SIGBUS, SIGFPE, SIGILL, SIGABRT, SIGTRAP}) { sigaction(sig, &sa, nullptr); }
    struct sigaction sb{};
    sb.sa_handler = on_signal;
    sb.sa_flags   = SA_ONSTACK;
    sigemptyset(&sb.sa_mask);
    sigaction(SIGVTALRM, &sb, nullptr);
    itimerval tv{};
    tv.it_interval.tv_sec = 1;
    tv.it_value.tv_sec    = 1;
    // CPU time of this process, not wall time: a loaded machine must not look like a hang
    setitimer(ITIMER_VIRTUAL, &tv, nullptr);
}

/// Runs f(); returns which trap ended it (Trap::none = returned normally).
/// Everything f touches must live outside this frame (captures by reference are fine).
template <typename F>
[[gnu::noinline]] Trap guarded(F&& f)
{
    auto& s = traps();
    sigjmp_buf jb;
    sigjmp_buf* volatile prev = s.jb;
    s.guard_entries           = s.guard_entries + 1;
    int const rc              = sigsetjmp(jb, 0);
    if (rc == 0) {
        s.jb = &jb;
        asm volatile("" ::: "memory"); // the guarded body may be fully inlined: keep the bookkeeping stores in order
        f();
        asm volatile("" ::: "memory");
        s.jb = prev;
        return Trap::none;
    }
    s.jb      = prev;
    g_jumping = 0;
    return static_cast<Trap>(rc);
}

inline std::uint64_t san_hits() { return traps().san_hits; }

inline char const* trap_name(Trap t)
{
    switch (t) {
    case Trap::none: return "none";
    case Trap::assert_fired: return "assert";
    case Trap::exception_raised: return "exception";
    case Trap::crash: return "crash";
    case Trap::hang: return "hang";
    }
    return "?";
}

inline std::string describe_trap(Trap t)
{
    auto& s = traps();
    std::ostringstream o;
    o << trap_name(t);
    if (t == Trap::assert_fired) {
        char const* f = s.last_assert.file ? s.last_assert.file : "?";
        if (char const* p = std::strstr(f, "include/etl/")) { f = p + 8; }
        o << " " << f << ":" << s.last_assert.line << " " << (s.last_assert.expr ? s.last_assert.expr : "");
    } else if (t == Trap::crash) {
        o << " signal " << s.last_signal;
    } else if (t == Trap::exception_raised) {
        o << " " << (s.last_exception ? s.last_exception : "");
    }
    return o.str();
}

// ---------------------------------------------------------------------------------------
// small helpers
// ---------------------------------------------------------------------------------------

inline std::uint64_t fnv1a(void const* p, std::size_t n, std::uint64_t h = 1469598103934665603ULL)
{
    auto const* b = static_cast<unsigned char const*>(p);
    for (std::size_t i = 0; i < n; ++i) {
        h ^= b[i];
        h *= 1099511628211ULL;
    }
    return h;
}
inline std::uint64_t hash_str(std::string const& s) { return fnv1a(s.data(), s.size()); }
inline std::uint64_t hash_mix(std::uint64_t a, std::uint64_t b)
{
    a ^= b + 0x9e3779b97f4a7c15ULL + (a << 6) + (a >> 2);
    return a;
}

inline std::string json_escape(std::string const& s)
{
    std::string o;
    o.reserve(s.size() + 8);
    for (unsigned char c : s) {
        switch (c) {
        case '"': o += "\\\""; break;
        case '\\': o += "\\\\"; break;
        case '\n': o += "\\n"; break;
        case '\t': o += "\\t"; break;
        case '\r': o += "\\r"; break;
        default:
            if (c < 0x20 || c >= 0x7f) {
                char b[8];
                std::snprintf(b, sizeof b, "\\u%04x", c);
                o += b;
            } else {
                o += char(c);
            }
        }
    }
    return o;
}

/// Printable rendering of a character sequence (any char type): letters as is, others \xHH.
template <typename It>
std::string show_chars(It first, It last)
{
    std::string o = "\"";
    for (; first != last; ++first) {
        auto const v = static_cast<unsigned long>(static_cast<std::make_unsigned_t<std::decay_t<decltype(*first)>>>(*first));
        if (v >= 0x20 && v < 0x7f && v != '"' && v != '\\') {
            o += char(v);
        } else {
            char b[16];
            std::snprintf(b, sizeof b, "\\x%lx;", v);
            o += b;
        }
    }
    o += "\"";
    return o;
}

template <typename... Ts>
std::string cat(Ts const&... ts)
{
    std::ostringstream o;
    ((o << ts), ...);
    return o.str();
}

template <typename Seq>
std::string show_seq(Seq const& s)
{
    std::ostringstream o;
    o << "[";
    bool first = true;
    for (auto const& x : s) {
        if (!first) { o << ","; }
        first = false;
        o << x;
    }
    o << "]";
    return o.str();
}

// ---------------------------------------------------------------------------------------
// exact-size heap blocks with canaries (oracle 4): any access outside [data, data+n) is
// either an ASan report (san flavour) or a damaged canary (all flavours).
// ---------------------------------------------------------------------------------------

template <typename T>
struct GuardedBlock {
    static constexpr std::size_t pad = 32; // bytes of canary on each side inside the allocation
    unsigned char* raw{nullptr};
    std::size_t n{0};

    explicit GuardedBlock(std::size_t count, unsigned char fill = 0xCD) : n(count)
    {
        // layout: [pad canary][n*sizeof(T) payload][pad canary]; in the san flavour the
        // payload is a separate allocation so that ASan traps the first byte outside it.
#if defined(MC_FLAVOUR_SAN)
        raw = static_cast<unsigned char*>(std::malloc(n * sizeof(T) ? n * sizeof(T) : 1));
        std::memset(raw, fill, n * sizeof(T));
#else
        raw = static_cast<unsigned char*>(std::malloc(2 * pad + n * sizeof(T)));
        std::memset(raw, 0xA5, pad);
        std::memset(raw + pad, fill, n * sizeof(T));
        std::memset(raw + pad + n * sizeof(T), 0xA5, pad);
#endif
    }
    GuardedBlock(GuardedBlock const&)            = delete;
    GuardedBlock& operator=(GuardedBlock const&) = delete;
    ~GuardedBlock() { std::free(raw); }

    T* data()
    {
#if defined(MC_FLAVOUR_SAN)
        return reinterpret_cast<T*>(raw);
#else
        return reinterpret_cast<T*>(raw + pad);
#endif
    }
    T const* data() const { return const_cast<GuardedBlock*>(this)->data(); }
    T* begin() { return data(); }
    T* end() { return data() + n; }
    std::size_t size() const { return n; }

    bool intact() const
    {
#if defined(MC_FLAVOUR_SAN)
        return true;
#else
        for (std::size_t i = 0; i < pad; ++i) {
            if (raw[i] != 0xA5 || raw[pad + n * sizeof(T) + i] != 0xA5) { return false; }
        }
        return true;
#endif
    }
};

// ---------------------------------------------------------------------------------------
// Reporter
// ---------------------------------------------------------------------------------------

struct Violation {
    std::string prop, subject, cls, kase, detail;
    std::uint64_t count{0};
};

struct Reporter {
    std::string prop;   // property the check was started for (informational)
    std::string tier{"quick"};
    std::string job;
    std::vector<std::string> only; // subject filters; empty = everything
    double deadline_s{0};          // cooperative deadline for this job (0 = none)
    std::chrono::steady_clock::time_point t0{std::chrono::steady_clock::now()};

    std::map<std::string, std::uint64_t> stats;
    std::vector<std::string> samples_first;
    std::vector<std::string> samples_last;
    std::size_t sample_keep{4};
    std::map<std::tuple<std::string, std::string, std::string>, Violation> viols;
    std::unordered_set<std::uint64_t> outcome_set;
    std::unordered_set<std::uint64_t> nontrivial_set;
    bool exhaustive{true};
    std::vector<std::string> notes;
    std::size_t max_viol_classes{400};

    bool thorough() const { return tier == "thorough"; }

    bool want(std::string const& subject) const
    {
        if (only.empty()) { return true; }
        for (auto const& o : only) {
            if (subject == o) { return true; }
        }
        return false;
    }

    void count(char const* key, std::uint64_t n = 1) { stats[key] += n; }
    void set_max(char const* key, std::uint64_t v)
    {
        auto& s = stats[key];
        if (v > s) { s = v; }
    }
    void outcome(std::uint64_t h) { outcome_set.insert(h); }
    /// a distinct, non-trivial case identified by hash (use count("distinct_nontrivial") when
    /// cases are distinct by construction and the set would be too large)
    void nontrivial(std::uint64_t h) { nontrivial_set.insert(h); }

    void sample(std::string s)
    {
        if (samples_first.size() < sample_keep) {
            samples_first.push_back(std::move(s));
        } else {
            if (samples_last.size() >= sample_keep) { samples_last.erase(samples_last.begin()); }
            samples_last.push_back(std::move(s));
        }
    }
    /// cheap test for "should I build a sample string now"
    bool wants_sample() const { return samples_first.size() < sample_keep; }

    void note(std::string s) { notes.push_back(std::move(s)); }
    void not_exhaustive(std::string why)
    {
        exhaustive = false;
        notes.push_back("not exhaustive: " + why);
    }

    bool deadline_passed() const
    {
        if (deadline_s <= 0) { return false; }
        auto const dt = std::chrono::duration<double>(std::chrono::steady_clock::now() - t0).count();
        return dt > deadline_s;
    }

    /// Records a violation.  One witness (the first in enumeration order) is kept per
    /// (property, subject, class); the rest are counted.
    void violation(std::string const& p, std::string const& subject, std::string const& cls, std::string const& kase,
        std::string const& detail)
    {
        auto key = std::make_tuple(p, subject, cls);
        auto it  = viols.find(key);
        if (it == viols.end()) {
            if (viols.size() >= max_viol_classes) {
                stats["violations_dropped"] += 1;
                return;
            }
            it = viols.emplace(key, Violation{p, subject, cls, kase, detail, 0}).first;
        }
        it->second.count += 1;
    }

    void write(std::FILE* f, double wall) const
    {
        std::fprintf(f, "{\n \"job\": \"%s\",\n \"tier\": \"%s\",\n \"wall_s\": %.3f,\n \"exhaustive\": %s,\n",
            json_escape(job).c_str(), tier.c_str(), wall, exhaustive ? "true" : "false");
        std::fprintf(f, " \"stats\": {");
        bool first = true;
        for (auto const& [k, v] : stats) {
            std::fprintf(f, "%s\"%s\": %llu", first ? "" : ", ", json_escape(k).c_str(), static_cast<unsigned long long>(v));
            first = false;
        }
        std::fprintf(f, "%s\"distinct_outcomes\": %zu", first ? "" : ", ", outcome_set.size());
        std::fprintf(f, ", \"distinct_nontrivial_set\": %zu", nontrivial_set.size());
        std::fprintf(f, "},\n \"samples\": [");
        first = true;
        for (auto const* v : {&samples_first, &samples_last}) {
            for (auto const& s : *v) {
                std::fprintf(f, "%s\"%s\"", first ? "" : ", ", json_escape(s).c_str());
                first = false;
            }
        }
        std::fprintf(f, "],\n \"notes\": [");
        first = true;
        for (auto const& s : notes) {
            std::fprintf(f, "%s\"%s\"", first ? "" : ", ", json_escape(s).c_str());
            first = false;
        }
        std::fprintf(f, "],\n \"violations\": [");
        first = true;
        for (auto const& [k, v] : viols) {
            std::fprintf(f, "%s\n  {\"prop\": \"%s\", \"subject\": \"%s\", \"class\": \"%s\", \"case\": \"%s\", \"detail\": \"%s\", \"count\": %llu}",
                first ? "" : ",", json_escape(v.prop).c_str(), json_escape(v.subject).c_str(), json_escape(v.cls).c_str(),
                json_escape(v.kase).c_str(), json_escape(v.detail).c_str(), static_cast<unsigned long long>(v.count));
            first = false;
        }
        std::fprintf(f, "]\n}\n");
    }
};

// ---------------------------------------------------------------------------------------
// Main: job table
// ---------------------------------------------------------------------------------------

struct Job {
    std::string name;
    std::vector<std::string> tiers;
    std::function<void(Reporter&)> fn;
};

struct Main {
    std::vector<Job> jobs;
    std::string mode{"run"};
    std::string tier{"quick"};
    std::string job_name;
    std::string out;
    std::string prop;
    std::vector<std::string> only;
    double deadline_s{0};

    Main(int argc, char** argv)
    {
        for (int i = 1; i < argc; ++i) {
            std::string a = argv[i];
            auto next     = [&]() -> std::string { return (i + 1 < argc) ? std::string(argv[++i]) : std::string(); };
            if (a == "--list") {
                mode = "list";
            } else if (a == "--tier") {
                tier = next();
            } else if (a == "--job") {
                job_name = next();
            } else if (a == "--out") {
                out = next();
            } else if (a == "--prop") {
                prop = next();
            } else if (a == "--only") {
                only.push_back(next());
            } else if (a == "--deadline") {
                deadline_s = std::atof(next().c_str());
            } else {
                std::fprintf(stderr, "unknown argument %s\n", a.c_str());
                std::exit(64);
            }
        }
    }

    void job(std::string name, std::vector<std::string> tiers, std::function<void(Reporter&)> fn)
    {
        jobs.push_back(Job{std::move(name), std::move(tiers), std::move(fn)});
    }

    int run()
    {
        if (mode == "list") {
            for (auto const& j : jobs) {
                if (std::find(j.tiers.begin(), j.tiers.end(), tier) != j.tiers.end()) { std::printf("%s\n", j.name.c_str()); }
            }
            return 0;
        }
        install_signal_handlers();
        int rc = 0;
        for (auto const& j : jobs) {
            if (!job_name.empty() && j.name != job_name) { continue; }
            if (job_name.empty() && std::find(j.tiers.begin(), j.tiers.end(), tier) == j.tiers.end()) { continue; }
            Reporter r;
            r.prop       = prop;
            r.tier       = tier;
            r.job        = j.name;
            r.only       = only;
            r.deadline_s = deadline_s;
            auto t0      = std::chrono::steady_clock::now();
            // the whole job runs inside a guard so that a trap outside any inner guard is
            // reported as a violation of the harness' own subject, not lost
            Trap t = guarded([&] { j.fn(r); });
            if (t != Trap::none) {
                r.violation(prop.empty() ? "C02" : prop, "job:" + j.name, std::string("unguarded-") + trap_name(t), "whole job",
                    describe_trap(t));
                r.not_exhaustive("job ended by an unguarded trap");
            }
            double wall = std::chrono::duration<double>(std::chrono::steady_clock::now() - t0).count();
            std::FILE* f = out.empty() ? stdout : std::fopen(out.c_str(), "w");
            if (f == nullptr) {
                std::perror("open --out");
                return 66;
            }
            r.write(f, wall);
            if (f != stdout) { std::fclose(f); }
            if (job_name.empty() && !out.empty()) { break; } // one job per --out file
        }
        return rc;
    }
};

} // namespace mc

// ---------------------------------------------------------------------------------------
// handlers tetl calls into (declared by the library when the CUSTOM_* macros are set)
// ---------------------------------------------------------------------------------------

namespace etl {
template <typename Assertion>
[[noreturn]] auto assert_handler(Assertion const& msg) -> void
{
    auto& s                = mc::traps();
    s.last_assert.line     = msg.line;
    s.last_assert.file     = msg.file;
    s.last_assert.func     = msg.func;
    s.last_assert.expr     = msg.expression;
    s.san_hits_at_handler  = s.san_hits;
    if (s.in_handler_hook) { s.in_handler_hook(); }
    mc::trap_jump(mc::Trap::assert_fired);
}

template <typename Exception>
[[noreturn]] auto exception_handler(Exception const& e) -> void
{
    mc::traps().last_exception = e.what();
    mc::trap_jump(mc::Trap::exception_raised);
}
} // namespace etl

// sanitizer run-time callbacks (present in GCC 12's libasan/libubsan; unused otherwise)
extern "C" void __asan_on_error() { mc::traps().san_hits = mc::traps().san_hits + 1; }
extern "C" void __ubsan_on_report() { mc::traps().san_hits = mc::traps().san_hits + 1; }
