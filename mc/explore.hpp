// E1: explicit-state exploration of a real tetl object in lock-step with a reference model.
//
// A system description `Sys` provides
//
//   struct State { explicit State(unsigned char poison); ... impl + model ... };
//   struct Action { ... };                                   // one operation + concrete arguments
//   std::string name() const;                                // configuration name
//   std::string family() const;                              // type family, e.g. "static_vector" (subject prefix)
//   void unary(State const&, std::vector<Action>& out);      // actions enabled in this state
//   void binary(std::vector<Action>& out);                   // actions that take a partner state
//   void apply(State& s, Action const& a, State* partner, mc::Cx& cx);
//        executes a on s.impl and s.model (partner: second operand, may be modified),
//        compares every result, calls cx.fail(...) on disagreement
//   void observe(State const& s, mc::Cx& cx);                // all observers, impl vs model
//   std::string key(State const& s);                         // canonical state (model + impl residue)
//   std::string obs(State const& s);                         // observable content of the impl only
//   std::string show(Action const&);   std::string subject(Action const&);
//
// The explorer runs breadth-first to a fixed point (or to the given caps), rebuilding every
// state from the shortest history that reached it.  Each transition is executed inside a
// guard: a contract-handler call, a fatal signal, a hang or a sanitizer report during a
// *valid* action is a violation attributed to the action's subject.
#pragma once
#include "mc.hpp"

#include <deque>
#include <memory>
#include <unordered_map>

namespace mc {

struct Cx {
    Reporter& r;
    std::function<std::string()> describe;
    bool failed{false};

    void fail(std::string const& prop, std::string const& subject, std::string const& cls, std::string const& detail)
    {
        failed = true;
        r.violation(prop, subject, cls, describe(), detail);
    }
    template <typename A, typename B>
    bool eq(std::string const& prop, std::string const& subject, std::string const& cls, char const* what, A const& got,
        B const& want)
    {
        if (got == want) { return true; }
        fail(prop, subject, cls, cat(what, ": tetl=", got, " model=", want));
        return false;
    }
};

struct ExploreLimits {
    std::size_t max_states{2000000};
    std::size_t max_depth{1000};
    std::size_t max_partners{100000}; // binary actions use partner states with id < max_partners
    bool poison_differential{true};
    std::string prop_ub{"C02"};       // property a sanitizer report / crash / hang is attributed to
    std::string prop_contract{"C05"}; // property a handler call on a valid action is attributed to
};

template <typename Sys>
struct Explorer {
    using State  = typename Sys::State;
    using Action = typename Sys::Action;

    struct Step {
        Action a;
        int partner; // -1: unary
    };
    struct Node {
        std::vector<Step> hist;
        std::size_t depth{0}; // distance from the initial state or from a seed state
    };
    // optional seed histories (unary actions only): boundary states from which a depth-bounded
    // exploration starts when closure of the whole space is out of reach
    std::vector<std::vector<Action>> seeds;

    Sys& sys;
    Reporter& r;
    ExploreLimits lim;
    std::vector<Node> nodes;
    std::unordered_map<std::string, int> index;
    std::uint64_t transitions{0};
    std::size_t max_depth_seen{0};
    bool capped{false};

    Explorer(Sys& s, Reporter& rep, ExploreLimits l = {}) : sys(s), r(rep), lim(l) { }

    std::string show_hist(std::vector<Step> const& h) const
    {
        // steps rendered one by one, then runs of period 1 or 2 are folded ("(a; b) x126")
        std::vector<std::string> parts;
        for (auto const& st : h) {
            std::string o = sys.show(st.a);
            if (st.partner >= 0) { o += cat(" <with state #", st.partner, ">"); }
            parts.push_back(std::move(o));
        }
        std::string o;
        std::size_t i = 0;
        auto add      = [&](std::string const& x) {
            if (!o.empty()) { o += "; "; }
            o += x;
        };
        while (i < parts.size()) {
            bool folded = false;
            for (std::size_t period : {std::size_t(1), std::size_t(2)}) {
                std::size_t reps = 1;
                while (i + (reps + 1) * period <= parts.size()
                       && std::equal(parts.begin() + long(i), parts.begin() + long(i + period), parts.begin() + long(i + reps * period))) {
                    ++reps;
                }
                if (reps >= 4) {
                    std::string grp;
                    for (std::size_t k = 0; k < period; ++k) { grp += (k ? "; " : "") + parts[i + k]; }
                    add(cat("(", grp, ") x", reps));
                    i += reps * period;
                    folded = true;
                    break;
                }
            }
            if (!folded) { add(parts[i++]); }
        }
        return o.empty() ? std::string("<initial>") : o;
    }

    std::string show_case(std::vector<Step> const& h, Action const* a, int partner) const
    {
        std::string o = cat(sys.name(), ": ", show_hist(h));
        if (a != nullptr) {
            o += " => " + sys.show(*a);
            if (partner >= 0) { o += cat(" <with state #", partner, " = ", show_hist(nodes[std::size_t(partner)].hist), ">"); }
        }
        return o;
    }

    // Rebuilds the state reached by history h.  Violations during a rebuild were already
    // reported when the prefix was first explored, so they go to a scratch reporter.
    std::unique_ptr<State> build(std::vector<Step> const& h, unsigned char poison = 0xAA)
    {
        auto s = std::make_unique<State>(poison);
        Reporter scratch;
        Cx cx{scratch, [] { return std::string(); }};
        for (auto const& st : h) {
            std::unique_ptr<State> p;
            if (st.partner >= 0) { p = build(nodes[std::size_t(st.partner)].hist, poison); }
            sys.apply(*s, st.a, p.get(), cx);
        }
        return s;
    }

    // executes one transition from node `from`; returns true if a new state was added
    bool step(int from, Action const& a, int partner)
    {
        ++transitions;
        // by value: nodes may reallocate when this transition adds a state, and the case description is still needed after that
        auto const h = nodes[std::size_t(from)].hist;
        std::unique_ptr<State> s;
        std::unique_ptr<State> p;
        Trap tb = guarded([&] {
            s = build(h);
            if (partner >= 0) { p = build(nodes[std::size_t(partner)].hist); }
        });
        if (tb != Trap::none) {
            // cannot happen for histories that were explored without a trap
            r.violation(lim.prop_ub, "explorer:rebuild", "nondeterministic-rebuild", show_case(h, nullptr, -1), describe_trap(tb));
            (void)s.release();
            (void)p.release();
            return false;
        }
        Cx cx{r, [&] { return show_case(h, &a, partner); }};
        auto const san0 = san_hits();
        Trap t          = guarded([&] { sys.apply(*s, a, p.get(), cx); });
        if (t != Trap::none) {
            auto const prop = (t == Trap::assert_fired || t == Trap::exception_raised) ? lim.prop_contract : lim.prop_ub;
            auto const cls  = (t == Trap::assert_fired) ? "handler-on-valid-call" : (t == Trap::exception_raised ? "exception-on-valid-call" : trap_name(t));
            cx.fail(prop, sys.subject(a), cls, describe_trap(t));
            // the objects are in an unknown state: leak them rather than run destructors
            (void)s.release();
            (void)p.release();
            return false;
        }
        if (san_hits() != san0) { cx.fail(lim.prop_ub, sys.subject(a), "sanitizer-report", "ASan/UBSan reported during this valid call (see job log)"); }
        // canary behind the object: State types keep the implementation object at the start of `buf`, followed by
        // poison bytes; a write past the object's own storage that stays inside the State is invisible to ASan
        if (!tail_clean(*s) || (p && !tail_clean(*p))) {
            cx.fail(lim.prop_ub, sys.subject(a), "object-tail-overwritten", "the bytes right behind the object's own storage were modified by this valid call");
            (void)s.release();
            (void)p.release();
            return false;
        }
        if (cx.failed) { return false; }
        std::string k;
        Trap tk = guarded([&] {
            k = sys.key(*s);
        });
        if (tk != Trap::none) {
            cx.fail(lim.prop_ub, sys.subject(a), cat("observe-", trap_name(tk)), describe_trap(tk));
            (void)s.release();
            (void)p.release();
            return false;
        }
        r.outcome(hash_str(k));
        bool added = false;
        auto it    = index.find(k);
        if (it == index.end()) {
            if (nodes.size() >= lim.max_states || nodes[std::size_t(from)].depth + 1 > lim.max_depth) {
                capped = true;
            } else {
                Node n;
                n.hist = h;
                n.hist.push_back(Step{a, partner});
                n.depth        = nodes[std::size_t(from)].depth + 1;
                max_depth_seen = std::max(max_depth_seen, n.depth);
                int const id   = int(nodes.size());
                index.emplace(std::move(k), id);
                nodes.push_back(std::move(n));
                on_new_state(id, *s);
                added = true;
            }
        }
        retire(s, cx, a);
        if (p) { retire(p, cx, a); }
        return added;
    }

    // true if the poison bytes between the end of the implementation object and the end of State::buf are untouched
    // (all equal to one of the fill bytes the harnesses use); States without a `buf`/`v` pair are not checked
    template <typename St>
    static bool tail_clean(St const& st)
    {
        if constexpr (requires { sizeof(st.buf); *st.v; }) {
            using Obj = std::remove_cvref_t<decltype(*st.v)>;
            if constexpr (sizeof(st.buf) > sizeof(Obj)) {
                auto const* base = reinterpret_cast<unsigned char const*>(st.buf);
                if (reinterpret_cast<unsigned char const*>(st.v) != base) { return true; }
                auto const* t = base + sizeof(Obj);
                std::size_t const n = sizeof(st.buf) - sizeof(Obj);
                unsigned char const f = t[0];
                if (f != 0xAA && f != 0x00 && f != 0xFF && f != 0x5A && f != 0x7F) { return false; }
                for (std::size_t i = 1; i < n; ++i) {
                    if (t[i] != f) { return false; }
                }
            }
        }
        return true;
    }

    // end of life of a state object: Sys may destroy the implementation object explicitly
    // and check that nothing stays alive (C03 "nothing is alive once the owner is destroyed")
    void retire(std::unique_ptr<State>& s, Cx& cx, Action const& a)
    {
        if constexpr (requires { sys.retire(*s, cx); }) {
            Trap t = guarded([&] { sys.retire(*s, cx); });
            if (t != Trap::none) {
                cx.fail(lim.prop_ub, sys.subject(a), cat("destroy-", trap_name(t)), describe_trap(t));
                (void)s.release();
            }
        }
    }

    void on_new_state(int id, State& s)
    {
        auto const& h = nodes[std::size_t(id)].hist;
        Cx cx{r, [&] { return cat(sys.name(), ": ", show_hist(h), " => <observers>"); }};
        auto const san0 = san_hits();
        Trap t          = guarded([&] { sys.observe(s, cx); });
        if (t != Trap::none) {
            auto const prop = (t == Trap::assert_fired || t == Trap::exception_raised) ? lim.prop_contract : lim.prop_ub;
            cx.fail(prop, cat(sys.family(), "::<observers>"), cat("observer-", trap_name(t)), describe_trap(t));
        } else if (san_hits() != san0) {
            cx.fail(lim.prop_ub, cat(sys.family(), "::<observers>"), "sanitizer-report", "ASan/UBSan reported inside an observer");
        }
        if (lim.poison_differential) {
            // oracle 5: the same history over differently poisoned storage must look the same
            std::string base;
            guarded([&] { base = sys.obs(s); });
            for (unsigned char poison : {static_cast<unsigned char>(0x00), static_cast<unsigned char>(0xFF)}) {
                std::string other;
                std::unique_ptr<State> q;
                Trap tq = guarded([&] {
                    q     = build(h, poison);
                    other = sys.obs(*q);
                });
                if (tq != Trap::none) {
                    (void)q.release();
                    cx.fail(lim.prop_ub, cat(sys.family(), "::<default-init>"), cat("poison-", trap_name(tq)), describe_trap(tq));
                    continue;
                }
                r.count("poison_rebuilds");
                if (other != base) {
                    cx.fail(lim.prop_ub, cat(sys.family(), "::<default-init>"), "poison-differential",
                        cat("observable content depends on prior storage bytes: over 0xAA ", base, " over ", int(poison), " ", other));
                }
            }
        }
        if (r.wants_sample() || (id % 97) == 0) { r.sample(cat(sys.name(), ": ", show_hist(h))); }
    }

    void run()
    {
        // initial state
        {
            std::unique_ptr<State> s0;
            std::string k0;
            Trap t = guarded([&] {
                s0 = std::make_unique<State>(0xAA);
                k0 = sys.key(*s0);
            });
            if (t != Trap::none) {
                r.violation(lim.prop_ub, cat(sys.family(), "::<default-init>"), cat("initial-", trap_name(t)), sys.name(), describe_trap(t));
                (void)s0.release();
                return;
            }
            index.emplace(k0, 0);
            nodes.push_back(Node{});
            r.outcome(hash_str(k0));
            on_new_state(0, *s0);
        }
        for (auto const& seed : seeds) {
            Node n;
            for (auto const& a : seed) { n.hist.push_back(Step{a, -1}); }
            std::unique_ptr<State> s;
            std::string k;
            Reporter scratch;
            Cx cx{r, [&] { return cat(sys.name(), ": <seed> ", show_hist(n.hist)); }};
            Trap t = guarded([&] {
                s = std::make_unique<State>(0xAA);
                for (auto const& a : seed) { sys.apply(*s, a, nullptr, cx); }
                k = sys.key(*s);
            });
            if (t != Trap::none) {
                cx.fail(lim.prop_ub, cat(sys.family(), "::<seed>"), cat("seed-", trap_name(t)), describe_trap(t));
                (void)s.release();
                continue;
            }
            transitions += seed.size();
            if (cx.failed || index.count(k) != 0) { continue; }
            int const id = int(nodes.size());
            index.emplace(std::move(k), id);
            nodes.push_back(std::move(n));
            on_new_state(id, *s);
        }
        std::size_t unary_done = 0;
        std::size_t pairs_done = 0; // all pairs (i,j) with max(i,j) < pairs_done are explored
        std::vector<Action> bin;
        sys.binary(bin);
        std::vector<Action> acts;
        while (true) {
            if (unary_done < nodes.size()) {
                int const i = int(unary_done++);
                acts.clear();
                {
                    auto s = build(nodes[std::size_t(i)].hist);
                    sys.unary(*s, acts);
                }
                for (auto const& a : acts) { step(i, a, -1); }
                if ((unary_done & 63) == 0 && r.deadline_passed()) {
                    capped = true;
                    r.not_exhaustive("deadline reached during unary expansion");
                    break;
                }
                continue;
            }
            if (bin.empty() || pairs_done >= nodes.size()) { break; }
            // explore pairs involving node n = pairs_done with every partner <= n (both orders)
            std::size_t const n = pairs_done++;
            if (n >= lim.max_partners) { continue; }
            for (std::size_t j = 0; j <= n && j < lim.max_partners; ++j) {
                for (auto const& a : bin) {
                    step(int(n), a, int(j));
                    if (j != n) { step(int(j), a, int(n)); }
                }
            }
            if (r.deadline_passed()) {
                capped = true;
                r.not_exhaustive("deadline reached during binary expansion");
                break;
            }
        }
        if (capped) { r.exhaustive = false; }
        r.count("states", nodes.size());
        r.count("transitions", transitions);
        r.count("traces_validated_against_impl", transitions);
        r.count("evaluations", transitions);
        r.count("distinct_nontrivial", nodes.size() > 0 ? nodes.size() - 1 : 0);
        r.count("configurations", 1);
        r.set_max("max_depth", max_depth_seen);
        if (!nodes.empty()) { r.sample(cat(sys.name(), " (deepest): ", show_hist(nodes.back().hist))); }
        r.note(cat(sys.name(), ": states=", nodes.size(), " transitions=", transitions, " max_depth=", max_depth_seen,
            capped ? " CAPPED" : " fixed-point"));
    }
};

} // namespace mc
