#!/usr/bin/env python3
"""usage: add_fixed_bulk.py <Cxx>  - for every fixes_proposed/<Cxx>/NN-name.msg whose first line is the subject of a /repo
commit, append a 'fixed' entry (subject = patch name); merges fixes_proposed/<Cxx>/known.json as 'known' entries."""
import json, subprocess, glob, os, sys
pid = sys.argv[1]
k = json.load(open('/verif/known_findings.json'))
log = subprocess.run(['git', '-C', '/repo', 'log', '--format=%h\t%s'], capture_output=True, text=True).stdout.splitlines()
by_subj = {}
for l in log:
    h, s = l.split('\t', 1)
    by_subj.setdefault(s, h)
have = {(e['property'], e.get('commit')) for e in k['findings'] if e['status'] == 'fixed'}
n = 0
for m in sorted(glob.glob('/verif/fixes_proposed/%s/*.msg' % pid)):
    subj = open(m).read().splitlines()[0]
    h = by_subj.get(subj)
    if not h:
        print("no commit for", m); continue
    if (pid, h) in have: continue
    name = os.path.basename(m)[3:-4]
    k['findings'].append({"status": "fixed", "property": pid, "commit": h, "subject": name, "class": "see commit",
                          "line": "fixed: property=%s %s %s" % (pid, h, subj[5:])})
    n += 1
kn = '/verif/fixes_proposed/%s/known.json' % pid
m = 0
if os.path.exists(kn):
    havek = {(e['property'], e['subject'], e['class']) for e in k['findings'] if e['status'] == 'known'}
    for e in json.load(open(kn)):
        if (e['property'], e['subject'], e['class']) in havek: continue
        e['status'] = 'known'; k['findings'].append(e); m += 1
json.dump(k, open('/verif/known_findings.json', 'w'), indent=1)
print(pid, 'fixed entries added:', n, 'known entries added:', m)
