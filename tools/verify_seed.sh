#!/bin/sh
# usage: verify_seed.sh <seed worktree> <seed id> <Cxx> [<Cyy>...]
# Confirms a seeded breakage independently (demo passes without / fails with the patch, the
# unedited test suite passes with the patch), stores it under /verif/seeded/<id>/ and runs
# the named checks against it in a scratch worktree.
W=$1; ID=$2; shift 2
D=/verif/seeded/$ID
mkdir -p $D
cp $W/seed_out/patch.diff $W/seed_out/demo.cpp $W/seed_out/notes.md $D/ 2>/dev/null
git -C $W checkout -q -- . 
g++ -std=c++20 -I$W/include $D/demo.cpp -o /tmp/demo_$ID 2>/dev/null && /tmp/demo_$ID >/dev/null 2>&1; r0=$?
git -C $W apply $D/patch.diff || { echo "patch does not apply"; exit 2; }
g++ -std=c++20 -I$W/include $D/demo.cpp -o /tmp/demo_$ID 2>/dev/null && /tmp/demo_$ID >/dev/null 2>&1; r1=$?
echo "demo: clean exit=$r0  patched exit=$r1"
suite=$(sh /verif/run_suite.sh $W 2>&1 | grep "tests passed" )
echo "suite with patch: $suite"
git -C $W checkout -q -- .
rm -rf $W/_build /tmp/demo_$ID
echo "--- checks against the patch:"
LINES_MAX=7 sh /verif/tools/try_patch.sh $D/patch.diff "$@" | cut -c1-260
