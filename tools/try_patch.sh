#!/bin/sh
# usage: try_patch.sh <patch.diff> <Cxx> [<Cyy> ...]   (env TIER=quick|thorough)
# Applies a patch to a scratch worktree of /repo HEAD (never to /repo itself), runs the named
# checks against it, prints their summary + VIOLATION lines, removes the worktree.
# NOTE: rewrites evidence/<id>.json with the mutated run - re-run the check on the clean tree afterwards.
P=$1; shift
W=/tmp/wt_try_$$
git -C /repo worktree add --detach -q $W HEAD || exit 2
git -C $W apply "$P" || { echo "PATCH DOES NOT APPLY"; git -C /repo worktree remove --force $W; exit 2; }
rc=0
# private build directory: the cached binaries of /repo are neither used nor overwritten
B=/verif/build/try_$$
mkdir -p $B
for c in "$@"; do
  MC_BUILD_DIR=$B TETL_REPO=$W MC_NO_CONFIRM=1 timeout ${TRY_TIMEOUT:-1500} python3 /verif/check.py $c --tier ${TIER:-quick} ${FLAVOURS:+--flavours $FLAVOURS} 2>/dev/null | grep -E "^VIOLATION|^   subject|^   case|^C[0-9]+ (quick|thorough)|BUILD-FAILED" | head -${LINES_MAX:-14}
done
rm -rf $B
git -C /repo worktree remove --force $W
