#!/usr/bin/env python3
"""usage: mk_seed.py <Cxx> <n> <hint>  - creates scratch worktree /tmp/seed_<cxx>_<n> and prompt /tmp/seedprompts/seed_<Cxx>_<n>.txt"""
import json, sys, os, subprocess
pid, n, hint = sys.argv[1], sys.argv[2], sys.argv[3]
props = {json.loads(l)['id']: json.loads(l) for l in open('/verif/properties.jsonl')}
tpl = open('/verif/notes/prompts/seed_template.txt').read()
p = props[pid]
d = '/tmp/seed_%s_%s' % (pid.lower(), n)
os.makedirs('/tmp/seedprompts', exist_ok=True)
open('/tmp/seedprompts/seed_%s_%s.txt' % (pid, n), 'w').write(
    tpl.format(dir=d, title=p['title'], statement=p['statement'], quant=p['quantifier']['text'], hint=hint))
subprocess.run(['git', '-C', '/repo', 'worktree', 'add', '--detach', '-q', d, 'HEAD'], check=True)
print(d)
