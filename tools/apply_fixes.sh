#!/bin/sh
# usage: apply_fixes.sh <Cxx>   - applies fixes_proposed/<Cxx>/*.patch to /repo, one commit each
# (message from the sibling .msg), then runs the unedited suite once.
D=/verif/fixes_proposed/$1
for p in $D/*.patch; do
  [ -f "$p" ] || continue
  m=${p%.patch}.msg
  if git -C /repo apply --check "$p" 2>/dev/null; then
    git -C /repo apply "$p" && git -C /repo commit -qa -F "$m" && echo "applied $(basename $p): $(git -C /repo log --oneline -1)"
  else
    echo "SKIP (does not apply): $p"
  fi
done
sh /verif/run_suite.sh /repo
