#!/usr/bin/env python3
"""usage: add_fixed.py <property> <commit> <subject> <class> <what failed>  - appends a 'fixed' entry to known_findings.json"""
import json, sys
prop, commit, subject, cls, what = sys.argv[1:6]
p = '/verif/known_findings.json'
k = json.load(open(p))
k['findings'].append({"status": "fixed", "property": prop, "commit": commit, "subject": subject, "class": cls,
                      "line": "fixed: property=%s %s %s" % (prop, commit, what)})
json.dump(k, open(p, 'w'), indent=1)
