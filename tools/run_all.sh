#!/bin/sh
# usage: run_all.sh quick|thorough [ids...]  - runs the checks one after the other, one summary line each
T=$1; shift
IDS=${@:-C01 C03 C04 C06 C07 C08 C09 C10 C11 C12 C13 C14 C15 C16 C17 C18 C19 C20 C02 C05}
for p in $IDS; do
  s=$(date +%s)
  python3 /verif/check.py $p --tier $T > /verif/build/last_$p.$T.log 2>&1; rc=$?
  e=$(date +%s)
  echo "$p $T rc=$rc wall=$((e-s))s $(grep -E "^$p $T:" /verif/build/last_$p.$T.log | cut -c1-230) viol=$(grep -c '^VIOLATION' /verif/build/last_$p.$T.log) incomplete=$(grep -c '^INCOMPLETE' /verif/build/last_$p.$T.log)"
done
