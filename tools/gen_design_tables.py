#!/usr/bin/env python3
"""Rewrites the generated sections of DESIGN.md (between the BEGIN/END markers) from
seeded/*/meta.json and known_findings.json."""
import json, glob, os, re
V = '/verif'
def seeds():
    rows = []
    for f in sorted(glob.glob(V + '/seeded/*/meta.json')):
        m = json.load(open(f))
        rows.append(m)
    out = ["## 11. Detection demonstrations done: seeded breakages and which check catches them", "",
           "Every entry under `seeded/<id>/` (patch.diff, demo.cpp, notes.md, meta.json) was written by an independent",
           "sub-agent that saw only the property text and a scratch worktree, and was confirmed by",
           "`tools/verify_seed.sh`: the demo passes on the clean tree and fails with the patch, tetl's unedited suite",
           "still passes 261/261 with the patch, and the named checks were run against the patch in a scratch worktree",
           "(`tools/try_patch.sh`, never in /repo). \"MISSED\" entries record what had to be strengthened.", "",
           "| seed | property | what the change breaks | what it needs to manifest | caught by |", "|---|---|---|---|---|"]
    for m in rows:
        out.append("| `%s` | %s | %s | %s | %s |" % (m['id'], m['property'], m['breaks'].replace('|', '/'), m['needs'].replace('|', '/'),
                                                  "<br>".join(c.replace('|', '/') for c in m['caught_by'])))
    out.append("")
    out.append("%d seeded breakages confirmed; %d were missed by the check as first built and are caught after strengthening." % (
        len(rows), sum(1 for m in rows if any('MISSED' in c for c in m['caught_by'])))
               + " %d not caught (see its row)." % sum(1 for m in rows if any('NOT CAUGHT' in c for c in m['caught_by'])))
    return "\n".join(out)
def ledger():
    k = json.load(open(V + '/known_findings.json'))['findings']
    out = ["## 12. Findings ledger (generated from known_findings.json)", "",
           "Genuine defects found on the pinned tree by the checks.  `fixed` = repaired in /repo by the named `fix:`",
           "commit (the entry suppresses nothing: the check reports the violation again if it returns);",
           "`known` = left in tetl because tetl's own tests assert the defective behaviour (or the repair is not small",
           "and safe) - suppressed by exactly (property, subject, class) and printed as `KNOWN-FINDING:`.", "",
           "| status | property | commit | subject [class] | what failed / why not repaired |", "|---|---|---|---|---|"]
    for e in k:
        what = e.get('line', '') or (e.get('witness', '') + ' - ' + e.get('note', ''))
        what = re.sub(r'^fixed: property=\S+ \S+ ', '', what)
        out.append("| %s | %s | %s | `%s` [%s] | %s |" % (e['status'], e['property'], e.get('commit', ''), e['subject'].replace('|', '/'), e['class'].replace('|','/'), what.replace('|', '/').replace('\n', ' ')[:400]))
    nf = sum(1 for e in k if e['status'] == 'fixed'); nk = sum(1 for e in k if e['status'] == 'known')
    out.append("")
    out.append("%d fixed entries, %d known entries." % (nf, nk))
    return "\n".join(out)
def coverage():
    claimed = open(V + '/props/claimed.txt').read().split()
    out = ["## 13. As-built coverage per property (generated from props/*.json and the last evidence/*.json)", "",
           "Numbers are those of the last quick-tier run recorded in evidence/ (thorough tiers enumerate the larger bounds named",
           "in each rule).  `rule` in evidence/<id>.json states the enumerated space and what counts as non-trivial.", "",
           "| property | level | sources x flavours (quick) | jobs | states | transitions | evaluations | distinct non-trivial | exhaustive | known findings hit |",
           "|---|---|---|---|---|---|---|---|---|---|"]
    for pid in claimed:
        try:
            p = json.load(open('%s/props/%s.json' % (V, pid)))
            e = json.load(open('%s/evidence/%s.json' % (V, pid)))
        except Exception:
            continue
        c = e['coverage']
        runs = [r for r in p['runs'] if 'quick' in r.get('tiers', ['quick', 'thorough'])]
        srcs = sorted(set(os.path.basename(r['src']) for r in runs))
        fl = sorted(set(r['flavour'] for r in runs))
        out.append("| %s | %s | %d sources (%s) x {%s} = %d binaries | %d | %s | %s | %s | %s | %s | %d |" % (
            pid, e['level'], len(srcs), ", ".join(srcs[:4]) + (" ..." if len(srcs) > 4 else ""), ",".join(fl), len(runs), c.get('jobs_run', 0),
            c.get('states', '-'), c.get('transitions', '-'), c.get('evaluations', 0), c.get('distinct_nontrivial', 0),
            c.get('exhaustive'), len(c.get('known_findings_hit', []))))
    return "\n".join(out)
s = open(V + '/DESIGN.md').read()
for name, body in (('SEEDS', seeds()), ('LEDGER', ledger()), ('COVERAGE', coverage())):
    b, e = '<!-- BEGIN GENERATED %s -->' % name, '<!-- END GENERATED %s -->' % name
    block = b + "\n" + body + "\n" + e
    if b in s:
        s = s[:s.index(b)] + block + s[s.index(e) + len(e):]
    else:
        s = s.rstrip('\n') + "\n\n---------------------------------------------------------------------------------------\n\n" + block + "\n"
open(V + '/DESIGN.md', 'w').write(s)
print("DESIGN.md tables regenerated")
