#!/usr/bin/env python3
"""Regenerates the 'runs' of the composed properties C02 (san flavour of every harness), C03 (harnesses that
carry the lifetime registry) and the complement half of C05 (chk flavour of every harness: no handler call on
valid actions) from the props of the claimed properties.  Own runs of C02/C03/C05 (listed under "own_runs")
are kept."""
import json, os, glob
V = '/verif'
claimed = open(V + '/props/claimed.txt').read().split()
def load(p): return json.load(open('%s/props/%s.json' % (V, p)))
def key(r): return (r['src'], r['flavour'], tuple(r.get('defs', [])), r.get('std', 'c++20'), tuple(r.get('cxxflags', [])))
TRACKED = {'harness/c01_vectors.cpp': {'defs_any': ['-DMC_PART=%d' % k for k in (2, 3, 4, 5, 6, 7, 8, 10)]},
           'harness/c07_optional.cpp': {}, 'harness/c07_variant.cpp': {}, 'harness/c07_expected.cpp': {},
           'harness/c09_sets.cpp': {}, 'harness/c20_tuple_states.cpp': {}, 'harness/c20_inplace_function.cpp': {}, 'harness/c20_fn_sizes.cpp': {},
           'harness/c20_tuple_forward.cpp': {}}
def variants(pid, flavour):
    """runs of property pid re-flavoured; if the property already lists that flavour, those entries are used as is"""
    p = load(pid)
    have = [r for r in p['runs'] if r['flavour'] == flavour]
    if have:
        return [dict(r) for r in have]
    out, seen = [], set()
    for r in p['runs']:
        if r['flavour'] not in ('chk', 'nochk'):
            continue
        n = dict(r); n['flavour'] = flavour
        if key(n) in seen: continue
        seen.add(key(n)); out.append(n)
    return out
def compose(target, flavour, sources, filt=None):
    p = load(target)
    runs, seen = [], set()
    for r in p.get('own_runs', []):
        runs.append(r); seen.add(key(r))
    for pid in sources:
        if pid == target or not os.path.exists('%s/props/%s.json' % (V, pid)): continue
        for r in variants(pid, flavour):
            if filt and not filt(r): continue
            if key(r) in seen: continue
            seen.add(key(r)); runs.append(r)
    p['runs'] = runs
    json.dump(p, open('%s/props/%s.json' % (V, target), 'w'), indent=1)
    print(target, len(runs), 'runs')
src_props = [c for c in claimed if c not in ('C02', 'C03', 'C05', 'C13', 'C15')]
compose('C02', 'san', src_props)
# C06's iterator wrappers check every dereference / step against the range the iterator belongs to (a read outside a
# caller-supplied range that leaves the result correct is a C02 matter): those checks work without a sanitizer, and
# C06 lists only one part per source in the san flavour - so C02 also runs C06's nochk runs (seed c02_equal_4iter_...)
def add_runs(target, runs_extra):
    p = load(target)
    seen = {key(r) for r in p['runs']}
    for r in runs_extra:
        if key(r) not in seen:
            p['runs'].append(r); seen.add(key(r))
    json.dump(p, open('%s/props/%s.json' % (V, target), 'w'), indent=1)
    print(target, len(p['runs']), 'runs (with extras)')
# ... and, for every property, the chk/nochk runs of those (source, part) combinations that have NO san run in the same tier:
# canaries, range-checking wrappers, crash/hang traps and the poison differential tag their findings C02 in every flavour,
# and a finding in a part that only runs without sanitizer would otherwise be counted by no check
def native_without_san(pid):
    p = load(pid)
    def tiers(r): return tuple(r.get('tiers', ['quick', 'thorough']))
    san = {(r['src'], tuple(r.get('defs', [])), t) for r in p['runs'] if r['flavour'] in ('san', 'chksan') for t in tiers(r)}
    out, seen = [], set()
    for r in p['runs']:
        if r['flavour'] not in ('chk', 'nochk') or r['src'] == 'harness/c06_depth.cpp': continue
        missing = [t for t in tiers(r) if (r['src'], tuple(r.get('defs', [])), t) not in san]
        if not missing: continue
        k = (r['src'], tuple(r.get('defs', [])), tuple(missing))
        if k in seen: continue   # one native flavour per part is enough
        seen.add(k)
        n = dict(r); n['tiers'] = missing
        out.append(n)
    return out
extra = []
for pid in src_props:
    extra += native_without_san(pid)
add_runs('C02', extra)
def tracked(r):
    t = TRACKED.get(r['src'])
    if t is None: return False
    if 'defs_any' in t: return any(d in r.get('defs', []) for d in t['defs_any'])
    return True
compose('C03', 'chk', src_props, tracked)
if os.path.exists(V + '/props/C05.json'):
    compose('C05', 'chk', src_props)
